"""C02 — filesystem containment: URL normalise / decode / simplify pipeline,
request-target parsing, host policy, alias/vhost/userdir/x-sendfile/WebDAV path composition,
symlink walk; in-process correspondence (h_url, h_docroot) + end-to-end canary stream."""
import itertools, os, re, time
from concurrent.futures import ThreadPoolExecutor
from .. import common as C
from .. import e2e

MANIFEST = dict(
    text="Lean 4 theorems (37) + correspondence.  PROVED over the model: the cursor-level transcription of "
         "buffer_path_simplify (the in-place two-pointer algorithm as in buffer.c) equals a segment-stack "
         "specification for every byte string, and that specification returns a canonical absolute path (no "
         "empty/'.'/'..' segment) for every absolute input; the same for buffer_urldecode_path on NUL-free input; "
         "hence http_request_parse_target yields a canonical url-path for every target and option set (the "
         "final decode+simplify step; burl_normalize itself is a specification-style model, no theorem depends "
         "on it).  Composition theorem c02_serve_contained: for every request (target, Host/:authority, "
         "CONNECT / OPTIONS * class) under every parse option set incl. the default host-strict+normalize, and "
         "every modelled configuration (doc root, simple-vhost, evhost, alias table, userdir basepath, index "
         "files) a path handed to the file layer lies lexically below a root the configuration designates "
         "(or, for an alias target written without trailing '/', has it as string prefix with no dot segment: "
         "documented mod_alias prefix semantics).  Separate theorems: strict host = one clean segment; evhost "
         "placeholders never '..' nor '/'; X-Sendfile path canonical and below a configured docroot (config-"
         "time canonicalisation proved); WebDAV Destination canonical and mapped below the DOCUMENT root (not "
         "the webdav-enabled url scope: known finding KF8); symlink walk = 0 implies no link on the path incl. "
         "the index-resolved one.  TESTED, not proved: that the C equals the models (in-process differential "
         "h_url/h_docroot, exhaustive small scope incl. NUL + random + mutated corpora, ASan/UBSan) and that the "
         "real server composes them as modelled (e2e, 19 configurations, canary files outside every root, "
         "h1/h2/extended CONNECT, request sequences across follow-symlink contexts with warm stat cache).",
    note="X-Sendfile / X-Sendfile2 are modelled together with the status the backend response already carries (xsendfileAt: containment for every status; ops xsfs/xsfs2; e2e CGI setting Status: itself). proof level for the path algorithm and the composition over hand-written models; correspondence-only: "
         "model = C for burl_normalize, host policy, mod_alias/simple_vhost/evhost/userdir/indexfile, X-Sendfile, "
         "WebDAV Destination, symlink walk (differential), response.c glue, stat cache, PATH_INFO, other handlers "
         "(e2e canaries).  Outside: TOCTOU, kernel path resolution, case-insensitive filesystems, config "
         "well-formedness (absolute canonical roots / alias targets), IPv6 host normalisation, getpwnam() "
         "userdir, mod_magnet/vhostdb/dirlisting/ssi includes.  NUL-freeness of the request path is C01's "
         "(parser); lenient-host evhost can yield a harmless '.' segment (witness theorem).",
    tech="Lean 4 proof over hand-written models (cursor-level transcription of the C path algorithm proved equal "
         "to its specification) + differential correspondence (in-process C harnesses + real server)",
    ref="6/C02")

PATH_ALPHA = [b"/", b".", b"%", b"2", b"e", b"F", b"a", b"\\", b"?", b"\x01", b"\x7f",
              b"\xc0", b"5", b"c"]
PATH_ALPHA_NUL = PATH_ALPHA + [b"\x00"]
URL_ALPHA = PATH_ALPHA + [b"#", b"0", b"+", b"&", b"f", b"\xf5", b"3", b"A"]
# parseopts combinations configfile.c can produce (plus 0 = normalisation off)
FLAGSETS = [0, 8 | 16, 8 | 32, 8 | 16 | 64 | 256 | 1024 | 8192, 8 | 32 | 64 | 512 | 2048 | 4096,
            8 | 16 | 4096 | 1024, 8 | 32 | 256 | 1024 | 8192 | 4096, 8 | 16 | 512, 8 | 16 | 2048,
            8 | 32 | 64 | 256 | 1024, 1 | 8 | 16 | 64 | 256 | 1024 | 8192]
TRAVERSAL = [b"/../etc/passwd", b"/a/%2e%2e/%2e%2e/etc/passwd", b"/..%2f..%2fetc/passwd",
             b"/a/..;/..;/x", b"/%2e%2e%2f%2e%2e%2f", b"/a/./b/../../..", b"//etc//passwd",
             b"/.%2e/.%2e/etc", b"/%252e%252e/x", b"/a/%2E%2E/../b?x=/../y", b"/..\\..\\etc",
             b"/a/..%5c..%5cetc", b"/a/%c0%ae%c0%ae/b", b"/a/.../b", b"/a/..a/b", b"/%2e", b"/%2e/",
             b"/a%00/../b", b"/a/..#/../x", b"/x?/../../y", b"/%2F%2e%2e%2Fetc"]


def canonical_abs(p):
    """independent statement of C02's path claim"""
    if not p.startswith(b"/"):
        return "path not absolute"
    segs = p.split(b"/")[1:]
    for i, s in enumerate(segs):
        if s in (b".", b".."):
            return "path has dot segment"
        if s == b"" and i != len(segs) - 1:
            return "path has empty segment"
    return None


def has_dot_segment(p):
    return any(s in (b".", b"..") for s in p.split(b"/"))


def oracle(line, out):
    t = line.split(" ")
    if t[0] in ("simp", "decsimp"):
        src = C.unhx(t[1])
        if t[0] == "decsimp" and src.startswith(b"%2f"):
            return None
        if src.startswith(b"/") and out != "<crash>":
            v = canonical_abs(C.unhx(out))
            if v:
                return "buffer_path_simplify: " + v
    elif t[0] == "target":
        o = out.split(" ")
        if o[0] == "ok" and t[2] in ("0", "2"):
            path = C.unhx(o[2])
            v = canonical_abs(path)
            if v:
                return "http_request_parse_target: " + v
            flags = int(t[1])
            raw = C.unhx(t[3])
            if not any(c < 32 or c == 127 for c in raw):
                if any(c < 32 or c == 127 for c in path):
                    return "http_request_parse_target: decoded control byte in path"
    return None


def classify(line, out):
    t = line.split(" ")
    o = out.split(" ")
    if t[0] in ("norm", "target"):
        src = t[-1]
        changed = "same" if (len(o) > 1 and o[1] == src) else "chg"
        return "%s:%s:%s:%s" % (t[0], t[1], o[0] if o[0] in ("rej", "400", "ok") else "qs" + ("+" if o[0] != "-1" else "-"), changed)
    return "%s:%s" % (t[0], "same" if out == t[1] else "chg:%d" % min(len(out) // 2, 6))


def mutate(rng, s):
    s = bytearray(s)
    for _ in range(rng.randint(1, 3)):
        k = rng.randint(0, 4)
        pos = rng.randint(0, len(s))
        if k == 0 and s:
            del s[min(pos, len(s) - 1)]
        elif k == 1:
            s[pos:pos] = rng.choice(URL_ALPHA)
        elif k == 2:
            s[pos:pos] = rng.choice([b"/../", b"/./", b"//", b"%2e", b"%2E%2e", b"%2f", b"%5c", b"/..", b"%00", b"%7f", b"?", b"%3f", b"%23"])
        elif k == 3 and s:
            i = min(pos, len(s) - 1)
            s[i:i + 1] = b"%%%02x" % s[i]
        else:
            s[pos:pos] = bytes([rng.randint(1, 255)])
    return bytes(s).replace(b"\x00", b"")


def gen(ctx):
    n_path = 5 if ctx.quick else 6
    n_url = 3 if ctx.quick else 4
    path_lines, url_lines = [], []
    # (NUL is a byte like any other for buffer_path_simplify, and stops buffer_urldecode_path)
    for n in range(0, n_path + 1):
        for t in itertools.product(PATH_ALPHA_NUL if n <= n_path - 1 else PATH_ALPHA, repeat=n):
            s = b"".join(t)
            h = C.hx(s)
            path_lines.append("simp " + h)
            path_lines.append("dec " + h)
            if n <= n_path - 1:
                path_lines.append("decsimp " + C.hx(b"/" + s))
    for n in range(0, n_url + 1):
        for t in itertools.product(URL_ALPHA, repeat=n):
            s = b"".join(t)
            for f in FLAGSETS:
                url_lines.append("norm %d %s" % (f, C.hx(s)))
                url_lines.append("target %d 0 %s" % (f, C.hx(b"/" + s)))
                if n <= n_url - 1:
                    # HTTP/2 extended CONNECT (RFC 8441) carries a :path like any other request
                    url_lines.append("target %d 2 %s" % (f, C.hx(b"/" + s)))
    rng = ctx.rng
    nrand = 60000 if ctx.quick else 600000
    for _ in range(nrand):
        s = b"".join(rng.choice(URL_ALPHA) for _ in range(rng.randint(1, 16)))
        f = rng.choice(FLAGSETS)
        url_lines.append("norm %d %s" % (f, C.hx(s)))
        url_lines.append("target %d 0 %s" % (f, C.hx(rng.choice([b"/", b""]) + s)))
    for _ in range(nrand // 2):
        s = mutate(rng, rng.choice(TRAVERSAL))
        f = rng.choice(FLAGSETS)
        url_lines.append("target %d %d %s" % (f, rng.choice([0, 0, 2]), C.hx(s)))
        url_lines.append("decsimp " + C.hx(s))
    for s in TRAVERSAL:
        for f in FLAGSETS:
            url_lines.append("target %d 0 %s" % (f, C.hx(s.replace(b"%00", b""))))
            url_lines.append("target %d 2 %s" % (f, C.hx(s.replace(b"%00", b""))))
            url_lines.append("target %d 1 %s" % (f, C.hx(s.replace(b"%00", b""))))
    ctx.exhaustive = False
    ctx.notes.append("exhaustive: all strings of length <= %d over %d-symbol path alphabet (simp/dec) and "
                     "length <= %d over %d-symbol url alphabet x %d parseopts sets (norm/target); plus random "
                     "and mutated traversal corpora" % (n_path, len(PATH_ALPHA), n_url, len(URL_ALPHA), len(FLAGSETS)))
    return path_lines, url_lines


# ====================================================================== docroot (extension)
HOST_ALPHA = [b"a", b"1", b"-", b".", b":", b"/", b"[", b"]", b"f", b"Z", b"_", b"\x80"]
HOSTS = [b"www.example.org", b"www.example.org:8080", b"a.b.c.d.e:1", b"1.2.3.4", b"1.2.3.4:80", b"1.2.3",
         b"[::1]", b"[::1]:80", b"[1:2:3:4:5:6:7:8]", b"[1:2:3:4:5:6:7:8:9]", b"[]", b"[::1", b"[fe80::1%eth0]",
         b"..", b".", b"../..", b"a/../..", b"a..b", b".a", b"a.", b"a.:80", b"a..", b":80", b"a:", b"a:b",
         b"-a", b"a-", b"a.-b", b"a_b", b"xn--a.b", b"a b", b"a\tb", b"%2e%2e", b"a\\b", b"localhost",
         b"a/b", b"/", b"//x", b"a:80:90", b"A.B", b"[::ffff:1.2.3.4]:443", b"3com.com", b"1.2.3.4.", b"com."]


def mutate_host(rng, s):
    s = bytearray(s)
    for _ in range(rng.randint(1, 2)):
        k = rng.randint(0, 2)
        pos = rng.randint(0, len(s))
        if k == 0 and s:
            del s[min(pos, len(s) - 1)]
        elif k == 1:
            s[pos:pos] = rng.choice(HOST_ALPHA)
        else:
            s[pos:pos] = rng.choice([b"..", b"/", b"./", b":", b".", b"[", b"]", b"%2f", b"\\", b"~"])
    return bytes(s)


def jn(*toks):
    return " ".join(toks)


def O(b):
    return "~" if b is None else C.hx(b)


ALIAS_TABLES = [[(b"/a", b"/v/")], [(b"/a/", b"/v/")], [(b"/a", b"/v")], [(b"/a/", b"/v")], [(b"", b"/v/")],
                [(b"/", b"/v/")], [(b"/a.", b"/v/")], [(b"/A", b"/v/")], [(b"/a", b"/")], [(b"/a", b"/v/w/")],
                [(b"/ab", b"/w/"), (b"/a", b"/v/")], [(b"/a/b/", b"/w/"), (b"/a/", b"/v/")],
                [(b"/a", b"/very/long/replacement/value/that/forces/reallocation/of/the/path/buffer/")],
                [(b"/.", b"/v/")], [(b"/a/.", b"/v/")], [(b"/b", b"/w"), (b"/a/", b"/v/x/"), (b"/", b"/r/")]]
URI_ALPHA = [b"/", b"a", b".", b"b", b"A"]
EV_PATTERNS = [b"/web/%3/", b"/web/%{3.1}/%{3.2}/%3/", b"/web/%{3.0}/", b"/web/%0/", b"/web/%0", b"/web/%_/htdocs/",
               b"/web/%1/%2/%3/%4/", b"/web/%%/%_/", b"/web/%{0.1}%{0.2}/", b"/web/%{1.9}/", b"/web/%2.%1/",
               b"%0", b"/web/%5/x/", b"/web/%{1}/%{2.1}/", b"/w%1%2/", b"/web/%{0.1}%{0.1}/"]
EV_ALPHA = [b"/", b"%", b"0", b"1", b"2", b"_", b"{", b"}", b".", b"a"]
EVH_ALPHA = [b"a", b"b", b".", b":", b"[", b"]", b"/"]
UTF8_BYTES = [b"\xc3", b"\xa9", b"\xe2", b"\x82", b"\xac", b"\xf0", b"\x9f", b"\x98", b"\x80", b"\xed", b"\xa0",
              b"\xc0", b"\xff", b"\xe0", b"\xf4", b"\x90", b"a", b"/", b"\xbf", b"\xc2", b"\xe1", b"\xef", b"\xf1", b"\x8f"]
XDOCS = [[], [b"/x/"], [b"/x/", b"/y/z/"], [b"/X/"], [b"/"]]
XSF_STATUSES = [200, 403, 502, 404, 500, 206, 301]      # statuses a backend may have set itself next to X-Sendfile
DAV_SRC = [(b"/dav/a.txt", None), (b"/dav/sub/a", None), (b"/a", None), (b"/dav/", None), (b"/dav/a.txt", b"/srv/alias/a.txt"),
           (b"/dav/sub/a", b"/srv/other/dav/sub/a"), (b"/dav/a", b"/x"), (b"/dav/a b", None), (b"/dav/A.txt", None)]
DAV_DEST = [b"/dav/b.txt", b"/dav/sub/b", b"/dav/../../etc/passwd", b"/dav/%2e%2e/%2e%2e/etc/passwd", b"/dav/..%2fx",
            b"http://h:1/dav/b.txt", b"http://h:1/../x", b"https://h:1/dav/b", b"http://evil/dav/b", b"http://u:p@h:1/dav/b",
            b"http://h:1", b"http:/h:1/x", b"dav/b", b"/dav/a.txt", b"/dav/a.txt/x", b"/dav/a.txtx", b"/dav/b?x=/../..",
            b"/dav/%c0%ae%c0%ae/x", b"/dav/%ff", b"//dav//b", b"/", b"/.", b"/..", b"/dav/sub/", b"/other/b", b"/DAV/B",
            b"http://h:1/%2e%2e/%2e%2e/x", b"/dav/\\..\\x", b"http://@h:1/x", b"http://h:1@evil/x", b"/dav/b%00c", b"/d", b"/dav"]


def pyjoin(b, a):
    """generator-side path join (only used to build inputs)"""
    if b.endswith(b"/"):
        return b + (a[1:] if a.startswith(b"/") else a)
    return b + (a if a.startswith(b"/") else b"/" + a)


def gen_docroot(ctx):
    rng = ctx.rng
    q = ctx.quick
    S = {}
    # ---- host policy
    L = []
    for n in range(0, (4 if q else 5) + 1):
        for t in itertools.product(HOST_ALPHA, repeat=n):
            h = C.hx(b"".join(t))
            L.append("hostpol 1 " + h)
            if n <= 3:
                L.append("hostpol 0 " + h)
    for h in HOSTS:
        L.append("hostpol 1 " + C.hx(h)); L.append("hostpol 0 " + C.hx(h))
    for _ in range(20000 if q else 200000):
        h = mutate_host(rng, rng.choice(HOSTS))
        L.append("hostpol %d %s" % (rng.randint(0, 1), C.hx(h.replace(b"\x00", b""))))
    for h in (b"a\x00b", b"\x00", b"a\rb", b"a\nb"):
        L.append("hostpol 0 " + C.hx(h))
    S["host-policy"] = L
    # ---- doc_root + rel_path, alias, userdir
    L = []
    uris = [b"/" + b"".join(t) for n in range(0, (5 if q else 6) + 1) for t in itertools.product(URI_ALPHA, repeat=n)]
    for d in (b"", b"/", b"/srv", b"/srv/", b"/srv//", b"srv"):
        for u in uris[:800] + [b"", b"a", b"a/b"]:
            for lc in (0, 1):
                L.append(jn("phys", str(lc), C.hx(d), C.hx(u)))
    for tbl in ALIAS_TABLES:
        kv = [C.hx(x) for pair in tbl for x in pair]
        for bd in (b"/d", b"/d/", b"/"):
            for u in uris:
                if len(u) > 5 and rng.random() > (0.25 if q else 1.0):
                    continue
                L.append(jn("alias", str(rng.randint(0, 1)), C.hx(bd), C.hx(pyjoin(bd, u)), *kv))
        for p in (b"", b"/", b"/x", b"x"):
            L.append(jn("alias", "0", C.hx(b"/dd/"), C.hx(p), *kv))
    for _ in range(15000 if q else 150000):
        tbl = rng.choice(ALIAS_TABLES)
        kv = [C.hx(x) for pair in tbl for x in pair]
        k = rng.choice(tbl)[0]
        tail = b"".join(rng.choice([b"/", b".", b"..", b"a", b"b", b"./", b"../", b"A", b"%2e"]) for _ in range(rng.randint(0, 6)))
        u = rng.choice([k, k.upper(), k + b"/", b"/" + k]) + tail
        bd = rng.choice([b"/d", b"/d/", b"/", b"/docroot/long"])
        L.append(jn("alias", str(rng.randint(0, 1)), C.hx(bd), C.hx(pyjoin(bd, u) if u.startswith(b"/") else bd + u), *kv))
    UA = [b"/", b"~", b"a", b".", b"B", b"_", b"%"]
    for n in range(0, (5 if q else 6) + 1):
        for t in itertools.product(UA, repeat=n):
            u = b"/~" + b"".join(t)
            if n >= 4 and rng.random() > 0.3:
                continue
            L.append(jn("userdir", str(rng.randint(0, 1)), str(rng.randint(0, 1)), C.hx(rng.choice([b"/home", b"/home/"])),
                        C.hx(rng.choice([b"public_html", b"/pub/", b"p"])), C.hx(u)))
    for u in (b"/", b"/a", b"/~", b"/~/", b"/~a", b"/~a/", b"/~../x", b"/~./x", b"/~a/../b", b"/~" + b"u" * 255 + b"/x",
              b"/~" + b"u" * 256 + b"/x", b"/~a b/x", b"/~a\xc3\xa9/x", b"/~.a/x", b"/~..a/x", b"/~Bob/File"):
        for lc in (0, 1):
            for lh in (0, 1):
                L.append(jn("userdir", str(lc), str(lh), C.hx(b"/home"), C.hx(b"public_html"), C.hx(u)))
    S["physical-path(docroot/alias/userdir)"] = L
    # ---- vhosts
    L = []
    auths = [b"".join(t) for n in range(0, (4 if q else 5) + 1) for t in itertools.product([b"a", b".", b"/", b":", b"-", b"1"], repeat=n)]
    auths += HOSTS
    for a in auths:
        for st in (0, 1):
            L.append(jn("svhost", str(st), str(rng.randint(0, 3)), C.hx(rng.choice([b"/vh/", b"/vh"])),
                        O(rng.choice([None, b"def", b"d:80"])), O(rng.choice([None, b"/htdocs/", b"htdocs", b"/"])), C.hx(a)))
            L.append(jn("svhost", str(st), "1", C.hx(b"/vh/"), O(b"def"), O(None), C.hx(a)))
    evauths = [b"".join(t) for n in range(0, (5 if q else 6) + 1) for t in itertools.product(EVH_ALPHA, repeat=n)] + HOSTS
    evauths += [b"s2.s1.dom.tld:81", b"a.b.c.d.e.f.g.h.i.j.k.l", b"a.b.c.d.e.f.g.h.i.j.k.l:9", b"host.example.org"]
    for a in evauths:
        if len(a) >= 5 and a not in HOSTS and rng.random() > (0.3 if q else 1.0):
            continue
        for pat in rng.sample(EV_PATTERNS, 3):
            L.append(jn("evpath", C.hx(pat), C.hx(a)))
        if a:
            L.append(jn("evhost", str(rng.randint(0, 1)), str(rng.randint(0, 3)), C.hx(rng.choice(EV_PATTERNS)), C.hx(a)))
    for pat in EV_PATTERNS:
        for a in HOSTS + [b"s2.s1.dom.tld:81", b"a.b.c.d.e.f.g.h.i.j.k.l:9"]:
            L.append(jn("evpath", C.hx(pat), C.hx(a)))
            for st in (0, 1):
                L.append(jn("evhost", str(st), "1", C.hx(pat), C.hx(a)))
    for n in range(1, (4 if q else 5) + 1):
        for t in itertools.product(EV_ALPHA, repeat=n):
            L.append(jn("evpath", C.hx(b"".join(t)), C.hx(rng.choice([b"a.b.c", b"x.y:1", b"abc"]))))
    for _ in range(10000 if q else 100000):
        pat = b"/w/" + b"".join(rng.choice([b"%0", b"%1", b"%2", b"%3", b"%_", b"%%", b"%{1.1}", b"%{2.2}", b"%{0}", b"/", b"x", b".",
                                            b"%{", b"%", b"%{1.}", b"%a"]) for _ in range(rng.randint(1, 5)))
        L.append(jn("evpath", C.hx(pat), C.hx(mutate_host(rng, rng.choice(HOSTS)).replace(b"\x00", b""))))
    S["vhost(simple/evhost)"] = L
    # ---- X-Sendfile
    L = []
    for n in range(0, (4 if q else 5) + 1):
        for t in itertools.product(PATH_ALPHA, repeat=n):
            s = b"".join(t)
            xd = rng.choice(XDOCS)
            L.append(jn("xsf", str(rng.randint(0, 1)), C.hx(rng.choice([b"/x/", b"/x", b"", b"/X/", b"x/", b"a/../../x/"]) + s),
                        *[C.hx(x) for x in xd]))
    for _ in range(30000 if q else 300000):
        r_ = rng.random()
        if r_ < 0.5:
            s = rng.choice([b"/x", b"/y/z", b"/X", b""]) + mutate(rng, rng.choice(TRAVERSAL))
        elif r_ < 0.8:
            s = b"/x/" + b"".join(rng.choice(UTF8_BYTES) for _ in range(rng.randint(1, 6)))
            if rng.random() < 0.5:
                s = b"/x/" + b"".join(b"%%%02x" % c if c >= 0x80 and rng.random() < 0.7 else bytes([c]) for c in s[3:])
        else:
            s = b"".join(rng.choice(PATH_ALPHA + [b"x", b"X"]) for _ in range(rng.randint(1, 10)))
        s = s.replace(b"\x00", b"")
        xd = rng.choice(XDOCS)
        # a third of the cases: the backend response already carries a status of its own when the header is
        # processed (Status: 403 / 502 / 404 ... next to X-Sendfile) - a refusal must not hide behind it
        st = rng.choice(XSF_STATUSES) if rng.random() < 0.34 else None
        if rng.random() < 0.7:
            if st is None:
                L.append(jn("xsf", str(rng.randint(0, 1)), C.hx(s), *[C.hx(x) for x in xd]))
            else:
                L.append(jn("xsfs", str(rng.randint(0, 1)), str(st), C.hx(s), *[C.hx(x) for x in xd]))
        else:
            v = rng.choice([b"", b" ", b"  "]) + s + rng.choice([b" 0-10", b" 0-", b"", b" ", b" 5-3,/x/b 0-1"])
            if st is None:
                L.append(jn("xsf2", str(rng.randint(0, 1)), C.hx(v), *[C.hx(x) for x in xd]))
            else:
                L.append(jn("xsfs2", str(rng.randint(0, 1)), str(st), C.hx(v), *[C.hx(x) for x in xd]))
    # every refusal status x every shape of value, exhaustively small: the status lighttpd uses to signal a
    # refusal (403, 502) preset by the backend, with values inside / outside / blank / not UTF-8
    for st in XSF_STATUSES:
        for lc in "01":
            for xd in XDOCS:
                for s in (b"/x/a", b"/x/../y", b"/y/z", b"", b"/x/%ff", b"/X/a", b"/x", b"x/a", b"/x/a/../../etc/passwd"):
                    L.append(jn("xsfs", lc, str(st), C.hx(s), *[C.hx(x) for x in xd]))
                    L.append(jn("xsfs2", lc, str(st), C.hx(s + b" 0-1"), *[C.hx(x) for x in xd]))
    S["x-sendfile"] = L
    # ---- WebDAV Destination
    L = []
    def davline(lc, scheme, auth, docroot, src, dest):
        rel, phys = src
        if phys is None:
            phys = pyjoin(docroot, rel)
        if lc:
            rel = rel.lower()
        return jn("davdst", str(lc), C.hx(scheme), C.hx(auth), C.hx(docroot), C.hx(rel), C.hx(phys), C.hx(dest))
    for src in DAV_SRC:
        for d in DAV_DEST:
            d = d.replace(b"%00", b"")
            for dr in (b"/srv/www/", b"/srv/www"):
                L.append(davline(0, b"http", b"h:1", dr, src, d))
            L.append(davline(1, b"http", b"h:1", b"/srv/www/", src, d))
            L.append(davline(0, b"https", b"h", b"/srv/www/", src, d.replace(b"http://h:1", b"https://h")))
    for n in range(0, (4 if q else 5) + 1):
        for t in itertools.product(PATH_ALPHA, repeat=n):
            L.append(davline(0, b"http", b"h:1", b"/srv/www/", rng.choice(DAV_SRC[:4]), b"/dav/" + b"".join(t)))
    for _ in range(20000 if q else 200000):
        d = mutate(rng, rng.choice(DAV_DEST + TRAVERSAL)).replace(b"\r", b"").replace(b"\n", b"")
        if rng.random() < 0.3:
            d = rng.choice([b"http://h:1", b"http://h", b"https://h:1", b"http://x@h:1", b"http:/", b"http://"]) + d
        if not d:
            continue
        L.append(davline(rng.randint(0, 1), b"http", rng.choice([b"h:1", b"h", b""]), rng.choice([b"/srv/www/", b"/srv/www", b"/"]),
                         rng.choice(DAV_SRC), d))
    for ln in (4090, 4095, 4096, 4100):
        L.append(davline(0, b"http", b"h:1", b"/srv/www/", DAV_SRC[0], b"/dav/" + b"a" * (ln - 5)))
        L.append(davline(0, b"http", b"h:1", b"/srv/www/", DAV_SRC[0], b"/dav/" + b"a/" * ((ln - 5) // 2)))
        L.append(davline(0, b"http", b"h:1", b"/srv/www/", DAV_SRC[0], b"/dav/" + b"%61" * ((ln - 5) // 3)))
    S["webdav-destination"] = L
    ctx.notes.append("docroot streams: exhaustive hosts <= %d over %d symbols (strict) / <= 3 (lenient); alias over %d "
                     "tables x 3 basedirs x all url-paths <= %d over %d symbols; simple-vhost authorities <= %d over 6 "
                     "symbols; evhost patterns <= %d over %d symbols and authorities <= %d over %d symbols; X-Sendfile and "
                     "Destination suffixes <= %d over the %d-symbol path alphabet; plus mutated corpora"
                     % (4 if q else 5, len(HOST_ALPHA), len(ALIAS_TABLES), 5 if q else 6, len(URI_ALPHA), 4 if q else 5,
                        4 if q else 5, len(EV_ALPHA), 5 if q else 6, len(EVH_ALPHA), 4 if q else 5, len(PATH_ALPHA)))
    return S


def lex_under(root, p):
    """p is root (sans trailing '/') followed by '/'-separated segments none of which is '.' or '..'"""
    r = root[:-1] if root.endswith(b"/") else root
    if not p.startswith(r):
        return "not under " + root.decode("latin-1")
    rest = p[len(r):]
    if rest and not rest.startswith(b"/"):
        return "root is not a whole-segment prefix"
    if has_dot_segment(rest):
        return "dot segment below the root"
    return None


_STRICT_HOST = re.compile(rb"([A-Za-z0-9-]+(\.[A-Za-z0-9-]+)*|\[[0-9A-Fa-f:.]+\])(:[0-9]*)?")
_EV_RE = re.compile(rb"%(%|_|\d|\{\d(\.\d)?\})")


def oracle_docroot(line, out):
    """independent statement of the containment claim on the implementation's output"""
    t = line.split(" ")
    o = out.split(" ")
    op = t[0]
    if op == "hostpol":
        if t[1] == "1" and o[0] == "ok":
            h = C.unhx(o[1])
            if b"/" in h:
                return "strict host policy accepted a host containing '/'"
            if not h.startswith(b"["):
                name = h.split(b":")[0]
                if name in (b".", b"..") or b"" in name.split(b"."):
                    return "strict host policy accepted an empty label / dot host"
        elif o[0] == "ok" and any(c in C.unhx(o[1]) for c in b"\x00\r\n"):
            return "host policy accepted NUL/CR/LF"
    elif op == "phys":
        d, u, p = C.unhx(t[2]), C.unhx(t[3]), C.unhx(out)
        if canonical_abs(u) is None and d.startswith(b"/"):
            return lex_under(d, p) and "physical path: " + lex_under(d, p)
    elif op == "alias":
        if o[0] == "go":
            bd, src, p = C.unhx(t[2]), C.unhx(t[3]), C.unhx(o[1])
            b0 = bd[:-1] if bd.endswith(b"/") else bd
            if src.startswith(b0) and canonical_abs(src[len(b0):]) is None and p != src:
                if has_dot_segment(p):
                    return "mod_alias: remapped path has a dot segment"
                if not p.startswith(C.unhx(o[2])):
                    return "mod_alias: remapped path not under the alias target"
    elif op == "svhost":
        # (strict mode relies on the host policy having run: only hosts it accepts are in scope)
        if o[0] == "ok" and (t[1] == "0" or o[2] == "~" or o[2] == t[4] or _STRICT_HOST.fullmatch(C.unhx(t[6]))):
            sr, d = C.unhx(t[3]), C.unhx(o[1])
            if not d.startswith(sr):
                return "simple-vhost doc root does not start with server-root"
            seg = d[len(sr):].split(b"/")[0]
            if seg in (b".", b".."):
                return "simple-vhost doc root escapes server-root through the host name"
            if o[2] != "~" and t[4] != o[2] and b"/" in C.unhx(o[2]).split(b":")[0]:
                return "simple-vhost used a host containing '/'"
    elif op in ("evhost", "evpath"):
        if op == "evhost" and o[0] == "ok":
            pat, a, d = C.unhx(t[3]), C.unhx(t[4]), C.unhx(o[1])
            lit = _EV_RE.sub(b"", pat)
            if b"/" not in a:
                if d.count(b"/") > lit.count(b"/") + 1:
                    return "evhost: host name added a path separator"
            if b"/" in a and t[1] == "0":
                return "evhost: lenient mode used a host containing '/'"
    elif op == "userdir":
        if o[0] == "go":
            bp, u, p = C.unhx(t[3]), C.unhx(t[5]), C.unhx(o[1])
            if canonical_abs(u) is None:
                v = lex_under(bp, p)
                if v:
                    return "mod_userdir: " + v
    elif op in ("xsf", "xsf2", "xsfs", "xsfs2"):
        k = 4 if op.startswith("xsfs") else 3
        if o[0] == "send" and len(t) > k:
            p = C.unhx(o[1])
            lc = t[1] == "1"
            xs = [C.unhx(x) for x in t[k:]]
            if not any((p.lower().startswith(x.lower()) if lc else p.startswith(x)) for x in xs):
                return "X-Sendfile path not under x-sendfile-docroot"
            v = canonical_abs(p)
            if v:
                return "X-Sendfile: " + v
    elif op == "davdst":
        if o[0] == "ok":
            rel, p = C.unhx(o[1]), C.unhx(o[2])
            v = canonical_abs(rel)
            if v:
                return "WebDAV Destination: " + v
            dr, srel, sphys = C.unhx(t[4]), C.unhx(t[5]), C.unhx(t[6])
            d0 = dr[:-1] if dr.endswith(b"/") else dr
            if sphys == d0 + srel:
                if p != d0 + rel:
                    return "WebDAV Destination not mapped below the document root"
            elif has_dot_segment(p):
                return "WebDAV Destination physical path has a dot segment"
    return None


def classify_docroot(line, out):
    t = line.split(" ")
    o = out.split(" ")
    op = t[0]
    if op == "hostpol":
        h = C.unhx(t[2])
        return "hostpol:%s:%s:%s" % (t[1], o[0], "v6" if h.startswith(b"[") else ("port" if b":" in h else "name"))
    if op == "phys":
        return "phys:%s:%s" % (t[1], "slash" if C.unhx(t[2]).endswith(b"/") else "noslash")
    if op == "alias":
        same = o[0] == "go" and o[1] == t[3]
        return "alias:%s:n%d:%s" % (t[1], (len(t) - 4) // 2, "403" if o[0] == "403" else ("nomatch" if same else "remap"))
    if op == "svhost":
        return "svhost:%s:%s:%s" % (t[1], t[2], "none" if o[0] == "none" else ("default" if o[-1] != t[6] else "host"))
    if op in ("evhost", "evpath"):
        return "%s:%s:%s" % (op, t[1] if op == "evhost" else "-", o[0] if o[0] in ("none", "badpat", "ok") else "path")
    if op == "userdir":
        return "userdir:%s:%s:%s" % (t[1], t[2], o[0])
    if op in ("xsf", "xsf2"):
        return "%s:%s:x%d:%s" % (op, t[1], len(t) - 3, " ".join(o[:2]) if o[0] == "st" else "send")
    if op in ("xsfs", "xsfs2"):
        return "%s:%s:x%d:in%s:%s" % (op, t[1], len(t) - 4, t[2], " ".join(o[:2]) if o[0] == "st" else "send")
    if op == "davdst":
        return "davdst:%s:%s" % (t[1], " ".join(o[:2]) if o[0] == "st" else "ok")
    return op


# ---------------------------------------------------------------------- symlink walk (real filesystem)
LONG1, LONG2 = "long_directory_name_number_one", "long_directory_name_number_two"


def build_symtree(base, rootname="root", marker=False):
    """base/<rootname> is the served tree, base/outside is not; returns the root"""
    root = os.path.join(base, rootname)
    os.makedirs(os.path.join(root, "d1", "d2", LONG1, LONG2))
    os.makedirs(os.path.join(base, "outside"))
    for p in ("f0", "d1/f", "d1/d2/f", "d1/d2/%s/%s/f" % (LONG1, LONG2)):
        fp = os.path.join(root, p)
        open(fp, "w").write(("FILE:" + fp + "\n") if marker else ("in:" + p))
    open(os.path.join(base, "outside", "canary"), "w").write("CANARY")
    os.symlink("d1", os.path.join(root, "l_d"))
    os.symlink("d1/f", os.path.join(root, "l_f"))
    os.symlink("../outside", os.path.join(root, "l_out"))
    os.symlink("nonexistent", os.path.join(root, "l_broken"))
    os.symlink("..", os.path.join(root, "d1", "l_up"))
    os.symlink("/", os.path.join(root, "d1", "d2", "l_abs"))
    # index files: dirA -> outside, dirB regular, dirC -> inside (still a link), dirD/sub a linked directory, dirE none
    for d in ("dirA", "dirB", "dirC", "dirD", "dirE"):
        os.makedirs(os.path.join(root, d))
    sec = os.path.join(base, "outside", "secret.html")
    open(sec, "w").write("OUTSIDE:" + sec + "\n")
    os.symlink(sec, os.path.join(root, "dirA", "index.html"))
    for p in ("dirB/index.html", "d1/index.html", "d1/idx.html"):
        fp = os.path.join(root, p)
        open(fp, "w").write(("FILE:" + fp + "\n") if marker else ("in:" + p))
    os.symlink("../f0", os.path.join(root, "dirC", "index.html"))
    os.symlink("../d1", os.path.join(root, "dirD", "sub"))
    return root


def kind_of(p):
    try:
        st = os.lstat(p)
    except OSError:
        return "x"
    import stat as S_
    return "l" if S_.S_ISLNK(st.st_mode) else ("d" if S_.S_ISDIR(st.st_mode) else "f")


def sym_probes(name):
    """every string the walk may hand to lstat(): the name and its truncations at each '/' but the first"""
    out = [name]
    for i in range(len(name) - 1, 0, -1):
        if name[i:i + 1] == b"/":
            out.append(name[:i])
    return out


def gen_symwalk(ctx, root):
    rng = ctx.rng
    comps = [b"d1", b"d2", b"f", b"f0", b"l_d", b"l_f", b"l_out", b"l_broken", b"l_up", b"l_abs", b"nx", b"canary", b".", b"..", b""]
    rootb = root.encode()
    names = set()
    depth = 4 if ctx.quick else 5
    for n in range(0, depth + 1):
        for t in itertools.product(comps, repeat=n):
            if n >= 4 and rng.random() > (0.12 if ctx.quick else 0.3):
                continue
            names.add(rootb + b"".join(b"/" + c for c in t))
    deep = ("/d2/%s/%s/f" % (LONG1, LONG2)).encode()
    for pre in (b"/d1", b"/l_d", b"/d1/l_up/d1", b"/l_d/l_up/l_d", b"/l_out/../root/d1", b"/nx"):
        for cut in range(0, 5):
            names.add(rootb + pre + b"/".join(deep.split(b"/")[:cut + 1]))
            names.add(rootb + pre + b"/".join(deep.split(b"/")[:cut + 1]) + b"/")
    names |= {b"/", b"", b"relative/path", rootb + b"/" + b"a" * 5000, b"/" + b"a/" * 2047, b"/" + b"a/" * 2048, rootb + b"/d1/" + b"x" * 300}
    lines = []
    for nm in sorted(names):
        toks = ["symwalk", C.hx(nm)]
        if len(nm) < 4096:
            for p in sym_probes(nm):
                toks.append("%s:%s" % (C.hx(p), kind_of(p)))
        lines.append(" ".join(toks))
    return lines


INDEX_NAMES = [b"index.html", b"f", b"d2/f", b"/f0", b"nx", b"l_f", b"/d1/f", b"l_d/f", b"/l_out/canary", b"l_broken", b"idx.html",
               b"sub/idx.html", b"/", b"f/x", b"../f0", b"d2/"]


def gen_indexfile(ctx, root):
    """mod_indexfile_tryfiles on the real tree: every directory spelling x lists of index names"""
    rng = ctx.rng
    rootb = root.encode()
    dirs = [b"/", b"/d1/", b"/d1/d2/", b"/l_d/", b"/d1/l_up/", b"/l_out/", b"/nx/", b"/d1", b"/f0/", b"/d1/d2/l_abs/tmp/", b"/dirA/", b"/dirB/",
            b"/dirC/", b"/dirD/", b"/dirE/"]
    lines = []
    for d in dirs:
        for dr in (rootb, rootb + b"/"):
            phys = rootb + d
            for k in range(0, 4):
                for _ in range(1 if k == 0 else (12 if ctx.quick else 120)):
                    names = [rng.choice(INDEX_NAMES) for _ in range(k)]
                    ex = []
                    for v in names:
                        c = pyjoin(dr if v.startswith(b"/") else phys, v)
                        if os.path.exists(c) and c not in ex:
                            ex.append(c)
                    lines.append(jn("idxfile", C.hx(dr), C.hx(phys), str(len(names)), *[C.hx(v) for v in names], str(len(ex)), *[C.hx(c) for c in ex]))
    return lines


def oracle_indexfile(line, out):
    t = line.split(" ")
    o = out.split(" ")
    if o[0] != "go":
        return None
    dr, phys, p = C.unhx(t[1]), C.unhx(t[2]), C.unhx(o[1])
    k = int(t[3])
    names = [C.unhx(x) for x in t[4:4 + k]]
    if p != phys and p not in [pyjoin(dr if v.startswith(b"/") else phys, v) for v in names]:
        return "mod_indexfile: physical path is not directory + configured index name"
    return None


def classify_indexfile(line, out):
    t = line.split(" ")
    o = out.split(" ")
    return "idxfile:n%s:%s" % (t[3], "same" if (o[0] == "go" and o[1] == t[2]) else ("index" if o[0] == "go" else out))


def oracle_symwalk(line, out):
    t = line.split(" ")
    nm = C.unhx(t[1])
    if out not in ("0", "1", "-1"):
        return "unexpected symlink-walk result"
    if out != "0" or len(nm) <= 1:
        return None
    # independent: walk the components; none below "/" may be a symbolic link
    cur = b""
    for comp in nm.split(b"/")[1:]:
        cur += b"/" + comp
        if comp == b"":
            continue
        if os.path.islink(cur):
            return "symlink walk passed a path with a symbolic link component"
    return None


def classify_symwalk(line, out):
    t = line.split(" ")
    kinds = "".join(sorted(set(x.split(":")[1] for x in t[2:])))
    return "symwalk:%s:%s" % (out, kinds)


# ====================================================================== end-to-end stream (real server)
# Every file of the generated trees contains "FILE:<its absolute path>"; files outside every configured
# root contain "CANARY:...".  Oracle: no response ever carries a canary, a served file lies under a root
# the configuration designates, nothing outside the roots changes.  Correspondence: the file served is the
# one the Lean model's composed path (`serve` / `xsf` / `davdst` / `symwalk` ops) names.
P_DEFAULT = (9567, "")
P_OFF = (1, 'server.http-parseopts = ("url-normalize" => "disable", "host-strict" => "disable", "host-normalize" => "disable")\n')
P_REQ = (8303, 'server.http-parseopts = ("url-normalize-required" => "enable", "url-normalize-unreserved" => "disable", '
               '"url-path-2f-decode" => "disable", "url-path-dotseg-remove" => "disable")\n')
P_REJ = (10847, 'server.http-parseopts = ("url-path-2f-decode" => "disable", "url-path-2f-reject" => "enable", '
                '"url-path-dotseg-remove" => "disable", "url-path-dotseg-reject" => "enable")\n')
P_LENHOST = (9561, 'server.http-parseopts = ("host-strict" => "disable", "host-normalize" => "disable")\n')
E2E_BASE = '''
server.feature-flags = ("server.h2proto" => "enable", "server.h2c" => "enable")
server.max-keep-alive-idle = 30
server.max-read-idle = 30
server.max-write-idle = 30
dir-listing.activate = "disable"
'''
E2E_COMMON = E2E_BASE + '''
server.stat-cache-engine = "disable"
index-file.names = ()
'''
DOTDOT = [b"/..", b"/%2e%2e", b"/.%2e", b"/%2E.", b"/..%2f", b"%2f..", b"/..%5c", b"/..\\", b"/%252e%252e", b"/..;",
          b"/%c0%ae%c0%ae", b"/..%01", b"/...", b"/./..", b"//..", b"/..%2F..", b"/%2e%2e%2f%2e%2e"]
CANARY_TAILS = [b"/outside/secret.shtml", b"/canary.shtml", b"/canary.txt", b"/outside/canary.txt", b"/docroot-x/canary.txt", b"/al1-secret/canary.txt", b"/htdocs/canary.txt",
                b"/vh/canary.txt", b"/xs-secret/canary.txt", b"/etc/passwd", b"/al/canary.txt"]


def _w(path, content):
    os.makedirs(os.path.dirname(path), exist_ok=True)
    with open(path, "wb") as f:
        f.write(content)


def plant(root, rels, canaries):
    for r_ in rels:
        p = os.path.join(root, r_)
        _w(p, b"FILE:" + p.encode() + b"\n")
    for r_ in canaries:
        p = os.path.join(root, r_)
        _w(p, b"CANARY:" + p.encode() + b"\n")


BASE_FILES = ["docroot/f.txt", "docroot/sub/g.txt", "docroot/sub/deep/h.txt", "docroot/x.y/z.txt", "docroot/al1x/n.txt",
              "al1/a.txt", "al1/s/b.txt", "al2/c.txt", "al3/lower.txt", "al4_eqlen_/e.txt",
              "vh/a.example/htdocs/v.txt", "vh/b.example/htdocs/v.txt", "vh/default/htdocs/v.txt", "vh/a.example/w.txt",
              "vh/default/w.txt", "vh/example/htdocs/v.txt", "xs/s.txt", "xs/d/t.txt",
              "vh/htdocs/v.txt", "vh/w.txt", "vh/v.txt", "docroot/app/page.shtml", "docroot/p.shtml",
              "home/bob/public_html/u.txt", "home/bob/public_html/sub/v.txt", "home/alice/public_html/a.txt",
              "docroot/idx/index.html", "docroot/idx2/sub/idx.html", "al2/index.html"]
BASE_CANARIES = ["canary.txt", "outside/canary.txt", "docroot-x/canary.txt", "al1-secret/canary.txt", "al/canary.txt",
                 "htdocs/canary.txt", "htdocs/v.txt",
                 "xs-secret/canary.txt", "xsx/canary.txt", "v.txt", "w.txt", "vh-secret/htdocs/v.txt",
                 "outside/htdocs/v.txt", "outside/v.txt", "outside/w.txt", "outside/htdocs/canary.txt",
                 "outside/secret.shtml", "canary.shtml", "docroot-x/canary.shtml", "page.shtml", "app/page.shtml",
                 "home/canary.txt", "home/bob/canary.txt", "home/bob/private/secret.txt", "index.html", "outside/index.html"]


def _common_for(cfg):
    return (E2E_BASE + 'server.stat-cache-engine = "disable"\n') if cfg.get("noindexline") else E2E_COMMON


def static_configs():
    """name -> dict(conf, modules, flags, lc, vh(tokens as bytes), aliases, roots (relative to the server root), urls, hosts)"""
    # ("/al4": the target is exactly as long as doc root + key, the in-place overwrite case of mod_alias_remap)
    al = [(b"/al1", "al1/"), (b"/al2/", "al2/"), (b"/al4", "al4_eqlen_/")]
    alconf = 'alias.url = ("/al1" => "@ROOT@/al1/", "/al2/" => "@ROOT@/al2/", "/al4" => "@ROOT@/al4_eqlen_/")\n'
    good_al = [b"/f.txt", b"/sub/g.txt", b"/sub/deep/h.txt", b"/x.y/z.txt", b"/al1/a.txt", b"/al1/s/b.txt", b"/al2/c.txt", b"/al1x/n.txt",
               b"/al4/e.txt"]
    hosts_plain = [b"localhost", b"a.example"]
    cfgs = {}
    for nm, (fl, pc) in (("alias-default", P_DEFAULT), ("alias-nonorm", P_OFF), ("alias-required", P_REQ), ("alias-reject", P_REJ)):
        cfgs[nm] = dict(conf=pc + alconf, modules=("mod_alias",), flags=fl, lc=0, vh=("none",), aliases=al,
                        roots=["docroot", "al1", "al2", "al4_eqlen_"], urls=good_al, hosts=hosts_plain,
                        prefixes=[b"", b"/sub", b"/al1", b"/al1/", b"/al1/s", b"/al2", b"/al2/", b"/al1x", b"/al4"])
    cfgs["alias-lowercase"] = dict(conf='server.force-lowercase-filenames = "enable"\n' + alconf + 'alias.url += ("/AL3/" => "@ROOT@/al3/")\n',
                                   modules=("mod_alias",), flags=P_DEFAULT[0], lc=1, vh=("none",), aliases=al + [(b"/AL3/", "al3/")],
                                   roots=["docroot", "al1", "al2", "al3", "al4_eqlen_"], urls=good_al + [b"/AL1/A.TXT", b"/al3/lower.txt", b"/Al3/LOWER.txt", b"/SUB/G.TXT"],
                                   hosts=hosts_plain, prefixes=[b"", b"/SUB", b"/AL1", b"/al3/", b"/AL3/"])
    # a handler that does not look at the method (mod_ssi): HTTP/2 extended CONNECT (RFC 8441) reaches it
    cfgs["ssi-default"] = dict(conf='ssi.extension = (".shtml")\n', modules=("mod_ssi",), flags=P_DEFAULT[0], lc=0, vh=("none",), aliases=[],
                               roots=["docroot"], urls=[b"/app/page.shtml", b"/p.shtml", b"/f.txt", b"/sub/g.txt"], hosts=hosts_plain,
                               prefixes=[b"", b"/app", b"/sub"], connect=True)
    cfgs["userdir-default"] = dict(conf='userdir.basepath = "@ROOT@/home/"\nuserdir.path = "public_html"\n', modules=("mod_userdir",),
                                   flags=P_DEFAULT[0], lc=0, vh=("none",), aliases=[], userdir=(0, "home/", b"public_html"),
                                   roots=["docroot", "home/bob/public_html", "home/alice/public_html"],
                                   urls=[b"/~bob/u.txt", b"/~bob/sub/v.txt", b"/~alice/a.txt", b"/f.txt", b"/~bob/"], hosts=hosts_plain,
                                   prefixes=[b"/~bob", b"/~bob/sub", b"/~", b"/~..", b"/~bob/..", b"/~alice", b"/~.", b"/~bob%2f.."],
                                   tails=[b"/canary.txt", b"/home/canary.txt", b"/private/secret.txt", b"/bob/canary.txt", b"/alice/public_html/a.txt"])
    cfgs["index-default"] = dict(conf='index-file.names = ("index.html", "sub/idx.html")\n', noindexline=True, modules=(),
                                 flags=P_DEFAULT[0], lc=0, vh=("none",), aliases=[(b"/al2/", "al2/")], index=[b"index.html", b"sub/idx.html"],
                                 roots=["docroot", "al2"], urls=[b"/idx/", b"/idx2/", b"/idx/index.html", b"/al2/", b"/al2/c.txt", b"/f.txt", b"/sub/"],
                                 hosts=hosts_plain, prefixes=[b"", b"/idx", b"/idx2", b"/al2"])
    cfgs["index-default"]["conf"] = 'alias.url = ("/al2/" => "@ROOT@/al2/")\n' + cfgs["index-default"]["conf"]
    cfgs["index-default"]["modules"] = ("mod_alias",)
    vhosts = [b"a.example", b"b.example", b"A.Example", b"a.example:80", b"a.example:8080", b"a.example.", b"unknown.example",
              b"www.a.example", b"example", b"..", b".", b"../outside", b"a.example/../../outside", b"..:80", b"a..example",
              b"%2e%2e", b".a.example", b"vh-secret", b":80", b"a.example:80:90", b"/", b"a.example/", b"..%2f", b"a.example/htdocs",
              b"a.example:", b"-a.example", b"a.example..", b"default", b"htdocs", b"....", b"a.example/..", b"..\\..", b"..a"]
    good_vh = [b"/v.txt", b"/w.txt", b"/htdocs/v.txt"]
    sv1 = 'simple-vhost.server-root = "@ROOT@/vh/"\nsimple-vhost.default-host = "default"\nsimple-vhost.document-root = "/htdocs/"\n'
    sv2 = 'simple-vhost.server-root = "@ROOT@/vh"\nsimple-vhost.default-host = "default"\n'
    ev1 = 'evhost.path-pattern = "@ROOT@/vh/%0/htdocs/"\n'
    ev2 = 'evhost.path-pattern = "@ROOT@/vh/%_/"\n'
    ev3 = 'evhost.path-pattern = "@ROOT@/vh/%2.%1/htdocs/"\n'
    for nm, (fl, pc), conf, vh in (
            ("svhost-strict", P_DEFAULT, sv1, ("sv", "vh/", b"default", b"/htdocs/")),
            ("svhost-lenient", P_LENHOST, sv1, ("sv", "vh/", b"default", b"/htdocs/")),
            ("svhost-nodroot-lenient", P_LENHOST, sv2, ("sv", "vh/", b"default", None)),
            ("evhost-strict", P_DEFAULT, ev1, ("ev", "vh/%0/htdocs/")),
            ("evhost-lenient", P_LENHOST, ev1, ("ev", "vh/%0/htdocs/")),
            ("evhost-fqdn-lenient", P_LENHOST, ev2, ("ev", "vh/%_/")),
            ("evhost-labels-off", P_OFF, ev3, ("ev", "vh/%2.%1/htdocs/"))):
        cfgs[nm] = dict(conf=pc + conf, modules=("mod_simple_vhost",) if vh[0] == "sv" else ("mod_evhost",), flags=fl, lc=0, vh=vh,
                        aliases=[], roots=["docroot", "vh"], urls=good_vh + [b"/f.txt"],
                        hosts=vhosts, prefixes=[b"", b"/htdocs"])
    return cfgs


def respell(rng, u):
    u = bytearray(u)
    for _ in range(rng.randint(0, 3)):
        k = rng.randint(0, 5)
        slashes = [i for i, c in enumerate(u) if c == 0x2f]
        if k == 0 and slashes:
            i = rng.choice(slashes); u[i:i + 1] = rng.choice([b"/./", b"//", b"/zz/../", b"/%2e/", b"/zz/%2e%2e/", b"/./zz/.././"])
        elif k == 1:
            i = rng.randrange(len(u)); u[i:i + 1] = (b"%%%02x" if rng.random() < 0.5 else b"%%%02X") % u[i]
        elif k == 2:
            u += rng.choice([b"?q=/../..", b"?", b"#/../x", b"?a#b"])
        elif k == 3 and slashes:
            i = rng.choice(slashes); u[i:i + 1] = rng.choice([b"%2f", b"%2F", b"\\", b"%5c"])
        elif k == 4:
            i = rng.randrange(len(u)); u[i:i + 1] = bytes([u[i]]).swapcase()
        else:
            u += rng.choice([b"/", b"/.", b"/..", b"/x", b"%00", b"."])
    return bytes(u)


def gen_targets(rng, cfg, n):
    out = list(cfg["urls"])
    for _ in range(n):
        r_ = rng.random()
        if r_ < 0.35:
            t = respell(rng, rng.choice(cfg["urls"]))
        elif r_ < 0.8:
            t = rng.choice(cfg["prefixes"]) + b"".join(rng.choice(DOTDOT) for _ in range(rng.randint(1, 5))) + \
                rng.choice(CANARY_TAILS + cfg.get("tails", []) * 3)
            if rng.random() < 0.3:
                t = respell(rng, t)
        elif r_ < 0.9:
            t = rng.choice([b"/al1", b"/AL1", b"/al2", b"/al1x", b"/sub", b"/htdocs", b"", b"/al4", b"/al4"]) + \
                rng.choice([b"..", b".", b"../canary.txt", b"%2e%2e/canary.txt", b"./a.txt", b"-secret/canary.txt", b"../al1-secret/canary.txt",
                            b"..%2fcanary.txt", b".%2e/canary.txt", b"/.", b"/..", b"../", b"x/../../canary.txt"])
        else:
            t = mutate(rng, rng.choice(TRAVERSAL + cfg["urls"]))
        t = bytes(c for c in t if c not in (0, 10, 13, 32))
        if t:
            out.append(t)
    return out


def _safe_ascii(b):
    return all(0x21 <= c <= 0x7e for c in b)


class _H2Client:
    def __init__(self, port):
        self.port = port
        self.c = None
        self.sid = 1

    def get(self, authority, path):
        for attempt in (0, 1):
            if self.c is None or self.c.closed or self.sid > 2000:
                if self.c:
                    self.c.close()
                self.c = e2e.H2Conn(self.port)
                self.sid = 1
                self.c.pump(3.0, until=lambda f: any(x[0] == 4 and not (x[1] & 1) for x in f))
                self.c.frames.clear()
            c, sid = self.c, self.sid
            self.sid += 2
            ok = c.request(sid, "GET", path, authority=authority)

            def done(fr, sid=sid):
                return any((f[2] == sid and ((f[0] in (0, 1) and f[1] & 1) or f[0] == 3)) or f[0] == 7 for f in fr)
            c.pump(5.0, until=done)
            try:
                st = e2e.h2_collect(c.frames, c.hp)
            except Exception:
                st = {}
            goaway = any(f[0] == 7 for f in c.frames)
            c.frames.clear()
            d = st.get(sid)
            if goaway or c.closed:
                c.close(); self.c = None
            if d and d["headers"]:
                hs = dict((k, v) for k, v in d["headers"])
                try:
                    return int(hs.get(b":status", b"0")), d["body"], d["headers"]
                except ValueError:
                    return 0, d["body"], d["headers"]
            if d and d["rst"] is not None:
                return -d["rst"] - 1000, b"", []
            if not ok or attempt == 0:
                continue
        return None, b"", []

    def close(self):
        if self.c:
            self.c.close()


def _h2_ext_connect(port, authority, path):
    """HTTP/2 extended CONNECT (":protocol: websocket") on a fresh connection; the request stream stays open"""
    c = e2e.H2Conn(port)
    try:
        c.pump(3.0, until=lambda f: any(x[0] == 4 and not (x[1] & 1) for x in f))
        c.frames.clear()
        hs = [(":method", "CONNECT"), (":protocol", "websocket"), (":scheme", "http"), (":path", path), (":authority", authority)]
        c.send(c.headers_frame(1, hs, end_stream=False))

        def done(fr):
            return any((f[2] == 1 and ((f[0] in (0, 1) and f[1] & 1) or f[0] == 3)) or f[0] == 7 for f in fr)
        c.pump(1.5, until=done)
        try:
            st = e2e.h2_collect(c.frames, c.hp)
        except Exception:
            st = {}
        d = st.get(1)
        if d and d["headers"]:
            hd = dict(d["headers"])
            try:
                return int(hd.get(b":status", b"0")), d["body"], d["headers"]
            except ValueError:
                return 0, d["body"], d["headers"]
        return None, b"", []
    finally:
        c.close()


def _h1_get(port, host, target, absolute=False, method=b"GET", extra=b""):
    t = (b"http://" + host + target) if absolute else target
    req = method + b" " + t + b" HTTP/1.1\r\nHost: " + host + b"\r\n" + extra + b"Connection: close\r\n\r\n"
    data, closed = e2e.h1_exchange(port, [req], read_timeout=5.0)
    try:
        rs = e2e.parse_responses(data, head_for=[method == b"HEAD"], closed=closed)
    except e2e.RespParseError:
        return None, data, []
    if not rs:
        return None, data, []
    return rs[-1]["status"], rs[-1]["body"], rs[-1]["headers"]


def _norm(p):
    """drop empty and "." segments (never ".."): the kernel resolves these in place"""
    return b"/" + b"/".join(x for x in p.split(b"/") if x not in (b"", b"."))


def _inside(path, root):
    """path (which may no longer exist) is the root itself or below it, its directory resolved physically"""
    rp = os.path.join(os.path.realpath(os.path.dirname(path)), os.path.basename(path))
    return rp == root or rp.startswith(root + b"/")


def _under(path, roots):
    rp = os.path.realpath(path)
    return any(rp == r_ or rp.startswith(r_ + os.sep.encode()) for r_ in roots)


def _vh_tokens(cfg, rootb):
    vh = cfg["vh"]
    if vh[0] == "none":
        return ["none"]
    if vh[0] == "sv":
        sroot = rootb + b"/" + vh[1].encode()   # (config-time buffer_append_slash: always a trailing '/')
        return ["sv", C.hx(sroot), O(vh[2]), O(vh[3])]
    return ["ev", C.hx(rootb + b"/" + vh[1].encode())]


def e2e_static_cases(ctx, name, cfg, n):
    rng = ctx.rng
    cases = []
    for t in gen_targets(rng, cfg, n):
        h = rng.choice(cfg["hosts"][:2]) if (cfg["vh"][0] == "none" or rng.random() < 0.15) else rng.choice(cfg["hosts"])
        if rng.random() < 0.1 and cfg["vh"][0] != "none":
            h = mutate_host(rng, h)
        h = bytes(c for c in h if c not in (0, 10, 13)) or b"x"
        r_ = rng.random()
        tr = "h2" if r_ < 0.25 else ("abs" if r_ < 0.4 and b"/" not in h and t.startswith(b"/") else "h1")
        if cfg.get("connect") and rng.random() < 0.5:
            tr = "h2c"
        elif rng.random() < 0.04:
            # CONNECT without a handler / with a raw, un-normalised target: must never become a path
            tr = "connect"
            t = rng.choice([t, t.lstrip(b"/") or b"x", b"1" + t, b"a.example:80" + t])
        if tr != "h2" and (h != h.strip(b" \t") or not h):
            h = b"a.example"
        cases.append({"cfg": name, "host": h, "target": t, "tr": tr})
    cases.append({"cfg": name, "host": b"a.example", "target": b"*", "tr": "optstar"})
    if cfg["vh"][0] != "none":
        # directed: every hostile host against the names planted next to / above the vhost roots
        for h in cfg["hosts"]:
            for t in (b"/canary.txt", b"/v.txt", b"/w.txt", b"/htdocs/v.txt", b"/htdocs/canary.txt"):
                tr = "h2" if rng.random() < 0.3 else "h1"
                if tr == "h1" and h != h.strip(b" \t"):
                    continue
                cases.append({"cfg": name, "host": h, "target": t, "tr": tr})
    return cases


def e2e_model_static(cfg, rootb, cases):
    """two model passes: candidate vhost directories (stat'ed here on the real tree), then the composed path"""
    vt = _vh_tokens(cfg, rootb)
    fl = str(cfg["flags"])
    dirs = [[] for _ in cases]
    if cfg["vh"][0] != "none":
        lines = [jn("cand", *vt, fl, C.hx(c["host"])) for c in cases]
        out, rc, err = C.run_model("url", lines)
        if rc != 0 or len(out) != len(lines):
            return None, err
        for i, o in enumerate(out):
            for tok in o.split(" "):
                if tok not in ("~", "-", "skip", "rej", "badpat"):
                    p = C.unhx(tok)
                    if os.path.isdir(p):
                        dirs[i].append(tok)
    al = []
    for k, v in cfg["aliases"]:
        al += [C.hx(k), C.hx(rootb + b"/" + v.encode())]
    ud = ["~"]
    if cfg.get("userdir"):
        lh, bp, up = cfg["userdir"]
        ud = [str(lh), C.hx(rootb + b"/" + bp.encode()), C.hx(up)]
    names = cfg.get("index", [])

    def line(i, c, idx, ex):
        special = "1" if c["tr"] in ("connect", "optstar") else "0"
        return jn("request", fl, special, str(cfg["lc"]), C.hx(rootb + b"/docroot"), *vt, str(len(dirs[i])), *dirs[i], str(len(al)), *al,
                  *ud, str(len(idx)), *[C.hx(v) for v in idx], str(len(ex)), *[C.hx(x) for x in ex], C.hx(c["host"]), C.hx(c["target"]))
    # pass 1 without index files: the physical path; pass 2 with the index candidates that exist
    lines = [line(i, c, [], []) for i, c in enumerate(cases)]
    out, rc, err = C.run_model("url", lines)
    if rc != 0 or len(out) != len(lines):
        return None, err
    if names:
        lines2 = []
        for i, (c, o) in enumerate(zip(cases, out)):
            ex = []
            t = o.split(" ")
            if t[0] == "file":
                pth = C.unhx(t[1])
                ex = [x for x in (pyjoin(pth, v) for v in names) if os.path.exists(x)]
            lines2.append(line(i, c, names, ex))
        lines = lines2
        out, rc, err = C.run_model("url", lines)
        if rc != 0 or len(out) != len(lines):
            return None, err
    return list(zip(lines, out)), None


def e2e_run_static(port, cases, nthreads=8):
    def worker(chunk):
        h2 = _H2Client(port)
        res = []
        for c in chunk:
            try:
                if c["tr"] == "h2":
                    res.append(h2.get(c["host"], c["target"]))
                elif c["tr"] == "h2c":
                    res.append(_h2_ext_connect(port, c["host"], c["target"]))
                elif c["tr"] == "connect":
                    res.append(_h1_get(port, c["host"], c["target"], method=b"CONNECT"))
                elif c["tr"] == "optstar":
                    res.append(_h1_get(port, c["host"], b"*", method=b"OPTIONS"))
                else:
                    res.append(_h1_get(port, c["host"], c["target"], absolute=(c["tr"] == "abs")))
            except OSError as ex:
                res.append((None, str(ex).encode(), []))
        h2.close()
        return res
    sz = (len(cases) + nthreads - 1) // nthreads
    chunks = [cases[i:i + sz] for i in range(0, len(cases), sz)] if cases else []
    with ThreadPoolExecutor(nthreads) as ex:
        parts = list(ex.map(worker, chunks))
    return [x for p in parts for x in p]


def served_file(status, body):
    if status == 200 and body.startswith(b"FILE:"):
        return body[5:].rstrip(b"\n")
    return None


def e2e_eval_static(ctx, name, cfg, rootb, case, model_line, pred, obs):
    """returns (oracle verdict, correspondence verdict)"""
    status, body, headers = obs
    blob = body + b"".join(k + v for k, v in headers)
    if b"CANARY" in blob:
        return "canary content served (outside every configured root)", None
    roots = [os.path.realpath(rootb + b"/" + r_.encode()) for r_ in cfg["roots"]]
    f = served_file(status, body)
    if f is not None and not _under(f, roots):
        return "file outside the configured roots served: " + f.decode("latin-1"), None
    p = pred.split(" ")
    p[0] = {"file": "path", "ans": "rej"}.get(p[0], p[0])
    if p[0] == "skip" or status is None:
        return None, None
    if case["tr"] in ("connect", "optstar"):
        if f is not None:
            return "%s request served a file: %s" % (case["tr"], f.decode("latin-1")), None
        if case["tr"] == "optstar" and status != 200:
            return None, "OPTIONS * answered %s" % status
        return None, None
    if f is not None:
        if p[0] != "path":
            return None, "served a file where the model rejects (%s)" % pred
        mp = C.unhx(p[1])
        if not (os.path.exists(mp) and os.path.samefile(mp, f)) and _norm(mp) != _norm(f) \
                and not _norm(mp).startswith(_norm(f) + b"/"):
            return None, "served %s, model path %s" % (f.decode("latin-1"), mp.decode("latin-1"))
    # completeness on plainly spelled requests (the request parser itself is C01's business)
    if case["tr"] != "h2c" and _safe_ascii(case["target"]) and _safe_ascii(case["host"]) and b"#" not in case["target"] \
            and case["target"].startswith(b"/"):
        if p[0] == "rej" and status != int(p[1]) and not (case["tr"] == "h2" and status in (400, -1001, -1002)):
            return None, "model rejects with %s, server answered %s" % (p[1], status)
        if p[0] == "path":
            mp = C.unhx(p[1])
            if os.path.isfile(mp) and not mp.endswith(b"/") and f is None:
                return None, "model path %s is a regular file, server answered %s" % (mp.decode("latin-1"), status)
    return None, None


def snapshot(root, skip=("error.log", "stderr.log", "lighttpd.pid", "lighttpd.conf", "tmp")):
    snap = {}
    for dp, dns, fns in os.walk(root):
        if dp == root:
            dns[:] = [d for d in dns if d not in skip]
            fns = [f for f in fns if f not in skip]
        for d in dns:
            p = os.path.join(dp, d)
            snap[p] = ("l", os.readlink(p)) if os.path.islink(p) else ("d",)
        for f in fns:
            p = os.path.join(dp, f)
            if os.path.islink(p):
                snap[p] = ("l", os.readlink(p))
            else:
                try:
                    snap[p] = ("f", open(p, "rb").read())
                except OSError:
                    snap[p] = ("f", None)
    return snap


def snap_diff(a, b):
    return sorted(k for k in set(a) | set(b) if a.get(k) != b.get(k))


def e2e_report(ctx, stream, case, model_line, pred, obs, ov, cv):
    rep = {"property": ctx.pid, "correspondence": stream, "input": model_line, "case": {k: (v.decode("latin-1") if isinstance(v, bytes) else v)
                                                                                       for k, v in case.items()},
           "model_obs": pred, "impl_obs": "%s %r" % (obs[0], obs[1][:200])}
    if ov:
        rep.update(kind="property-oracle", oracle_verdict=ov)
        ctx.violation("oracle:%s:%s" % (stream, ov[:50]), ov, rep, found=True)
    else:
        rep.update(kind="correspondence", oracle_verdict="no canary / out-of-root access observed", detail=cv)
        ctx.violation("corr:%s:%s" % (stream, case.get("cfg", "")), "model/implementation correspondence %s broken: %s" % (stream, cv),
                      rep, found=False)


def e2e_static(ctx, bd, name, cfg, n):
    t0 = time.time()
    srv = e2e.Server(bd, _common_for(cfg) + cfg["conf"], modules=cfg["modules"])
    plant(srv.root, BASE_FILES, BASE_CANARIES)
    rootb = srv.root.encode()
    cases = e2e_static_cases(ctx, name, cfg, n)
    ml, err = e2e_model_static(cfg, rootb, cases)
    if ml is None:
        ctx.broken.append({"kind": "model-run", "names": ["url"], "log": (err or "")[-2000:]})
        return
    before = snapshot(srv.root)
    with srv:
        obs = e2e_run_static(srv.port, cases)
        alive = srv.alive()
    rep = srv.sanitizer_report()
    if rep or not alive:
        ctx.violation("crash:e2e:" + name, "server crashed / sanitizer report in e2e config " + name,
                      {"property": ctx.pid, "kind": "sanitizer-or-crash", "correspondence": "e2e-" + name, "input": name,
                       "stderr": (rep or srv.logs())[-4000:]}, found=True)
        return
    changed = snap_diff(before, snapshot(srv.root))
    if changed:
        ctx.violation("oracle:e2e:fs-changed:" + name, "filesystem changed by GET requests: %s" % changed[:5],
                      {"property": ctx.pid, "kind": "property-oracle", "correspondence": "e2e-" + name, "input": name,
                       "oracle_verdict": "files changed: %s" % changed[:20]}, found=True)
    ndis = nor = 0
    for case, (mline, pred), ob in zip(cases, ml, obs):
        ctx.evaluations += 1
        ctx.keys["e2e:%s:%s:%s:%s" % (name, case["tr"], pred.split(" ")[0] + (pred.split(" ")[1] if pred.startswith("ans") else ""),
                                       "file" if served_file(ob[0], ob[1]) else ob[0])] += 1
        ov, cv = e2e_eval_static(ctx, name, cfg, rootb, case, mline, pred, ob)
        if ov or cv:
            nor += 1 if ov else 0
            ndis += 1 if cv else 0
            e2e_report(ctx, "e2e-" + name, case, mline, pred, ob, ov, cv)
    ctx.sample({"stream": "e2e-" + name, "input": "%s %r %r" % (cases[0]["tr"], cases[0]["host"], cases[0]["target"]),
                "impl": str(obs[0][0])})
    ctx.streams.append({"name": "e2e-" + name, "cases": len(cases), "disagreements": ndis, "oracle_hits": nor,
                        "wall_s": round(time.time() - t0, 2)})


# ---- X-Sendfile through a CGI
XS_PL = b'''#!/usr/bin/perl
my ($v, $st) = split(/\\./, $ENV{QUERY_STRING});
$st = 200 unless $st;
$v =~ s/([0-9a-f]{2})/chr(hex($1))/ge;
print "Status: $st\\r\\nContent-Type: text/plain\\r\\nX-Sendfile: $v\\r\\n\\r\\nnot-sent";
'''


def e2e_xsendfile(ctx, bd, n):
    t0 = time.time()
    rng = ctx.rng
    conf = ('cgi.assign = (".pl" => "/usr/bin/perl")\ncgi.x-sendfile = "enable"\n'
            'cgi.x-sendfile-docroot = ("@ROOT@/xs")\n')
    srv = e2e.Server(bd, E2E_COMMON + conf, modules=("mod_cgi",))
    plant(srv.root, BASE_FILES, BASE_CANARIES)
    _w(os.path.join(srv.docroot, "xs.pl"), XS_PL)
    R = srv.root.encode()
    good = [R + b"/xs/s.txt", R + b"/xs/d/t.txt"]
    vals = list(good) + [R + b"/xs/../canary.txt", R + b"/xs/..%2fcanary.txt", R + b"/xs-secret/canary.txt", R + b"/xsx/canary.txt",
                         R + b"/xs", R + b"/xs/", R + b"/canary.txt", b"/etc/passwd", b"xs/s.txt", b"../canary.txt", R + b"/XS/s.txt",
                         R + b"/xs/%2e%2e/canary.txt", R + b"/xs/d/../../canary.txt", R + b"/xs/./s.txt", R + b"//xs//s.txt",
                         R + b"/xs/%c0%ae%c0%ae/canary.txt", R + b"/xs/s.txt/", R + b"/xs/d", R + b"/xs/nx.txt", R + b"/docroot/f.txt"]
    for _ in range(n):
        r_ = rng.random()
        if r_ < 0.4:
            v = R + respell(rng, rng.choice([b"/xs/s.txt", b"/xs/d/t.txt"]))
        elif r_ < 0.85:
            v = R + rng.choice([b"/xs", b"/xs/d", b"/xs/", b""]) + b"".join(rng.choice(DOTDOT) for _ in range(rng.randint(1, 4))) + \
                rng.choice(CANARY_TAILS + [b"/xs/s.txt"])
        else:
            v = mutate(rng, rng.choice(vals))
        v = bytes(c for c in v if c not in (0, 10, 13)).strip(b" \t")
        if v:
            vals.append(v)
    xdoc = R + b"/xs/"
    lines = [jn("xsf", "0", C.hx(v), C.hx(xdoc)) for v in vals]
    out, rc, err = C.run_model("url", lines)
    if rc != 0 or len(out) != len(lines):
        ctx.broken.append({"kind": "model-run", "names": ["url"], "log": err[-2000:]})
        return
    with srv:
        def one(v):
            try:
                return _h1_get(srv.port, b"localhost", b"/xs.pl?" + v.hex().encode())
            except OSError as ex:
                return (None, str(ex).encode(), [])
        with ThreadPoolExecutor(8) as ex:
            obs = list(ex.map(one, vals))
        # second pass (evaluated below): the CGI puts a status of its own next to X-Sendfile
        vs = [(v, st) for v in vals[:22] + rng.sample(vals[22:], min(len(vals) - 22, 40)) for st in (403, 502, 404, 500)]
        def one2(a):
            try:
                return _h1_get(srv.port, b"localhost", b"/xs.pl?" + a[0].hex().encode() + b"." + str(a[1]).encode())
            except OSError as ex:
                return (None, str(ex).encode(), [])
        with ThreadPoolExecutor(8) as ex:
            obs2 = list(ex.map(one2, vs))
        alive = srv.alive()
    rep = srv.sanitizer_report()
    if rep or not alive:
        ctx.violation("crash:e2e:xsendfile", "server crashed / sanitizer report in e2e config xsendfile",
                      {"property": ctx.pid, "kind": "sanitizer-or-crash", "correspondence": "e2e-xsendfile", "input": "xsendfile",
                       "stderr": (rep or srv.logs())[-4000:]}, found=True)
        return
    ndis = nor = 0
    xsroot = [os.path.realpath(R + b"/xs")]
    for v, line, pred, ob in zip(vals, lines, out, obs):
        status, body, headers = ob
        ctx.evaluations += 1
        ctx.keys["e2e:xsendfile:%s:%s" % (pred if pred.startswith("st") else "send", "file" if served_file(status, body) else status)] += 1
        ov = cv = None
        f = served_file(status, body)
        if b"CANARY" in body + b"".join(k + x for k, x in headers):
            ov = "canary content served through X-Sendfile"
        elif f is not None and not _under(f, xsroot):
            ov = "X-Sendfile served a file outside x-sendfile-docroot: " + f.decode("latin-1")
        elif status is not None:
            p = pred.split(" ")
            ctl = any(c < 32 or c == 127 for c in v)
            if p[0] == "st":
                if f is not None:
                    cv = "model refuses (%s), server sent %s" % (pred, f.decode("latin-1"))
                elif not ctl and status != int(p[1]):
                    cv = "model status %s, server %s" % (p[1], status)
            else:
                mp = C.unhx(p[1])
                if f is not None and not (os.path.exists(mp) and os.path.samefile(mp, f)):
                    cv = "served %s, model path %s" % (f.decode("latin-1"), mp.decode("latin-1"))
                elif f is None and not ctl and os.path.isfile(mp):
                    cv = "model path %s is a regular file, server answered %s" % (mp.decode("latin-1"), status)
        if ov or cv:
            nor += 1 if ov else 0
            ndis += 1 if cv else 0
            e2e_report(ctx, "e2e-xsendfile", {"cfg": "xsendfile", "value": v}, line, pred, ob, ov, cv)
    ctx.streams.append({"name": "e2e-xsendfile", "cases": len(vals), "disagreements": ndis, "oracle_hits": nor,
                        "wall_s": round(time.time() - t0, 2)})
    # second pass: the CGI puts a status of its own next to X-Sendfile (Status: 403 / 502 / 404 / 500) - the
    # statuses lighttpd itself uses to signal a refusal must not mask one
    lines2 = [jn("xsfs", "0", str(st), C.hx(v), C.hx(xdoc)) for v, st in vs]
    out2, rc, err = C.run_model("url", lines2)
    if rc != 0 or len(out2) != len(lines2):
        ctx.broken.append({"kind": "model-run", "names": ["url"], "log": err[-2000:]})
        return
    nor2 = ndis2 = 0
    for (v, st), line, pred, ob in zip(vs, lines2, out2, obs2):
        status, body, headers = ob
        ctx.evaluations += 1
        f = body[5:].rstrip(b"\n") if body.startswith(b"FILE:") else None
        ctx.keys["e2e:xsendfile-status:%d:%s:%s" % (st, pred if pred.startswith("st") else "send", "file" if f else status)] += 1
        ctx.dist["e2e:xsendfile-status:%d" % st] += 1
        ov = cv = None
        if b"CANARY" in body + b"".join(k + x for k, x in headers):
            ov = "canary content served through X-Sendfile in a response with backend status %d" % st
        elif f is not None and not _under(f, xsroot):
            ov = "X-Sendfile served a file outside x-sendfile-docroot (backend status %d): %s" % (st, f.decode("latin-1"))
        elif status is not None and pred.startswith("st") and f is not None:
            cv = "model refuses (%s), server sent %s" % (pred, f.decode("latin-1"))
        if ov or cv:
            nor2 += 1 if ov else 0
            ndis2 += 1 if cv else 0
            e2e_report(ctx, "e2e-xsendfile-status", {"cfg": "xsendfile", "value": v, "backend_status": st}, line, pred, ob, ov, cv)
    ctx.streams.append({"name": "e2e-xsendfile-status(CGI sets Status itself)", "cases": len(vs), "disagreements": ndis2,
                        "oracle_hits": nor2, "wall_s": round(time.time() - t0, 2)})


# ---- WebDAV COPY / MOVE Destination
DAV_FILES = ["docroot/dav/a.txt", "docroot/dav/sub/b.txt", "docroot/dav/col/c.txt", "docroot/other/o.txt", "docroot/f.txt"]


def dav_plant(srv):
    import shutil
    shutil.rmtree(srv.docroot, ignore_errors=True)
    plant(srv.root, DAV_FILES, [])


def e2e_webdav(ctx, bd, n):
    t0 = time.time()
    rng = ctx.rng
    conf = 'webdav.activate = "enable"\nwebdav.is-readonly = "disable"\n'
    srv = e2e.Server(bd, E2E_COMMON + conf, modules=("mod_webdav",))
    plant(srv.root, [], BASE_CANARIES)
    dav_plant(srv)
    R = srv.root.encode()
    D = R + b"/docroot"
    with srv:
        auth = b"127.0.0.1:%d" % srv.port
        origin = b"http://" + auth
        dests = []
        base = [b"/dav/b.txt", b"/dav/sub/n.txt", b"/dav/new/", b"/other/n.txt", b"/n.txt", b"/dav/col2/", b"/dav/a.txt", b"/dav/col/c.txt",
                b"/dav/../../canary.txt", b"/dav/%2e%2e/%2e%2e/canary.txt", b"/dav/..%2f..%2fcanary.txt", b"/../canary.txt",
                b"/dav/../../outside/n.txt", b"/%2e%2e/outside/n.txt", b"/dav/../../docroot-x/n.txt", b"/..%2foutside%2fn.txt",
                b"/dav/%c0%ae%c0%ae/%c0%ae%c0%ae/canary.txt", b"/dav/..\\..\\canary.txt", b"/dav/n.txt?x=/../../canary.txt", b"/dav/sub/../n.txt",
                b"//dav//n.txt", b"/dav/./n.txt", b"/", b"/dav", b"/dav/", b"dav/n.txt", b"/dav/%ff.txt", b"/dav/n%00.txt"]
        for b_ in base:
            dests.append(b_)
            dests.append(origin + b_ if b_.startswith(b"/") else b_)
        dests += [b"http://evil.example/dav/n.txt", b"http://u:p@" + auth + b"/dav/n2.txt", b"https://" + auth + b"/dav/n.txt",
                  b"http://" + auth, b"http://127.0.0.1/dav/n.txt", b"http://" + auth + b"@evil/dav/n.txt", b"http:/" + auth + b"/dav/n.txt"]
        for _ in range(n):
            r_ = rng.random()
            if r_ < 0.3:
                d = respell(rng, rng.choice(base[:8]))
            elif r_ < 0.8:
                d = rng.choice([b"/dav", b"/dav/sub", b"", b"/other"]) + b"".join(rng.choice(DOTDOT) for _ in range(rng.randint(1, 4))) + \
                    rng.choice([b"/canary.txt", b"/outside/n.txt", b"/docroot-x/n.txt", b"/n.txt", b"/outside/"])
            else:
                d = mutate(rng, rng.choice(base))
            if rng.random() < 0.3 and d.startswith(b"/"):
                d = origin + d
            d = bytes(c for c in d if c not in (0, 10, 13)).strip(b" \t")
            if d:
                dests.append(d)
        srcs = [(b"/dav/a.txt", b"COPY"), (b"/dav/a.txt", b"MOVE"), (b"/dav/col/", b"COPY"), (b"/dav/sub/b.txt", b"COPY"), (b"/dav/col/", b"MOVE")]
        cases = [(rng.choice(srcs), d) for d in dests]
        lines = [jn("davdst", "0", C.hx(b"http"), C.hx(auth), C.hx(D), C.hx(s), C.hx(D + s), C.hx(d)) for (s, m), d in cases]
        out, rc, err = C.run_model("url", lines)
        if rc != 0 or len(out) != len(lines):
            ctx.broken.append({"kind": "model-run", "names": ["url"], "log": err[-2000:]})
            return
        ndis = nor = 0
        clean = snapshot(srv.root)
        droot = os.path.realpath(D)
        for ((s, m), d), line, pred in zip(cases, lines, out):
            ob = _h1_get(srv.port, auth, s, method=m, extra=b"Destination: " + d + b"\r\n")
            status = ob[0]
            after = snapshot(srv.root)
            changed = [os.fsencode(c) for c in snap_diff(clean, after)]
            ctx.evaluations += 1
            ctx.keys["e2e:webdav:%s:%s:%s:%s" % (m.decode(), pred if pred.startswith("st") else "ok", status, "chg" if changed else "same")] += 1
            ov = cv = None
            outside = [c for c in changed if not _inside(c, droot)]
            if outside:
                ov = "WebDAV %s changed a path outside the document root: %s" % (m.decode(), outside[0].decode("latin-1"))
            elif b"CANARY" in ob[1]:
                ov = "canary content in WebDAV response"
            elif status is not None:
                p = pred.split(" ")
                ctl = any(c < 32 or c >= 127 for c in d)
                if p[0] == "st":
                    if changed:
                        cv = "model refuses (%s) but the tree changed: %s" % (pred, changed[0].decode("latin-1"))
                    elif not ctl and status != int(p[1]):
                        cv = "model status %s, server %s" % (p[1], status)
                else:
                    mp = C.unhx(p[2]).rstrip(b"/")
                    srcp = (D + s).rstrip(b"/")
                    bad = [c for c in changed if not (c == mp or c.startswith(mp + b"/")
                                                      or (m == b"MOVE" and (c == srcp or c.startswith(srcp + b"/"))))]
                    if bad:
                        cv = "changed %s, model destination %s" % (bad[0].decode("latin-1"), mp.decode("latin-1"))
            if ov or cv:
                nor += 1 if ov else 0
                ndis += 1 if cv else 0
                e2e_report(ctx, "e2e-webdav", {"cfg": "webdav", "method": m, "src": s, "dest": d}, line, pred, ob, ov, cv)
            if changed:
                dav_plant(srv)
                # anything created outside the document root is removed as well
                for c in outside:
                    try:
                        os.remove(c)
                    except OSError:
                        pass
                clean = snapshot(srv.root)
        # PUT / DELETE / MKCOL with hostile request-targets: the url-path pipeline alone decides the object
        wcfg = dict(flags=P_DEFAULT[0], lc=0, vh=("none",), aliases=[], urls=[b"/dav/a.txt", b"/dav/new.txt", b"/dav/col/", b"/dav/sub/b.txt", b"/dav/nd/"],
                    prefixes=[b"/dav", b"/dav/sub", b"", b"/dav/col"])
        wtargets = gen_targets(rng, wcfg, max(40, n // 3))
        wcases = [{"cfg": "webdav", "host": auth, "target": t, "tr": "h1", "method": rng.choice([b"PUT", b"DELETE", b"MKCOL"])} for t in wtargets]
        ml, err = e2e_model_static(wcfg, R, wcases)
        if ml is None:
            ctx.broken.append({"kind": "model-run", "names": ["url"], "log": (err or "")[-2000:]})
            return
        for c, (mline, pred) in zip(wcases, ml):
            body = b"PUT-BODY" if c["method"] == b"PUT" else b""
            extra = (b"Content-Length: %d\r\n" % len(body)) if c["method"] == b"PUT" else b""
            try:
                data, closed = e2e.h1_exchange(srv.port, [c["method"] + b" " + c["target"] + b" HTTP/1.1\r\nHost: " + auth + b"\r\n" + extra +
                                                          b"Connection: close\r\n\r\n" + body], read_timeout=5.0)
                rs = e2e.parse_responses(data, closed=closed)
                status = rs[-1]["status"] if rs else None
                rbody = rs[-1]["body"] if rs else b""
            except (OSError, e2e.RespParseError):
                status, rbody = None, b""
            after = snapshot(srv.root)
            changed = [os.fsencode(x) for x in snap_diff(clean, after)]
            ctx.evaluations += 1
            ctx.keys["e2e:webdav:%s:%s:%s:%s" % (c["method"].decode(), pred.split(" ")[0], status, "chg" if changed else "same")] += 1
            ov = cv = None
            outside = [x for x in changed if not _inside(x, droot)]
            if outside:
                ov = "WebDAV %s changed a path outside the document root: %s" % (c["method"].decode(), outside[0].decode("latin-1"))
            elif b"CANARY" in rbody:
                ov = "canary content in WebDAV response"
            elif changed:
                pp = pred.split(" ")
                if pp[0] not in ("path", "file"):
                    cv = "model rejects (%s) but the tree changed: %s" % (pred, changed[0].decode("latin-1"))
                else:
                    mp = _norm(C.unhx(pp[1]))
                    bad = [x for x in changed if not (_norm(x) == mp or _norm(x).startswith(mp + b"/") or mp.startswith(_norm(x) + b"/"))]
                    if bad:
                        cv = "changed %s, model path %s" % (bad[0].decode("latin-1"), mp.decode("latin-1"))
            if ov or cv:
                nor += 1 if ov else 0
                ndis += 1 if cv else 0
                e2e_report(ctx, "e2e-webdav", {"cfg": "webdav", "method": c["method"], "target": c["target"]}, mline, pred, (status, rbody, []), ov, cv)
            if changed:
                dav_plant(srv)
                for x in outside:
                    try:
                        os.remove(x)
                    except OSError:
                        pass
                clean = snapshot(srv.root)
        ncases_extra = len(wcases)
        alive = srv.alive()
    rep = srv.sanitizer_report()
    if rep or not alive:
        ctx.violation("crash:e2e:webdav", "server crashed / sanitizer report in e2e config webdav",
                      {"property": ctx.pid, "kind": "sanitizer-or-crash", "correspondence": "e2e-webdav", "input": "webdav",
                       "stderr": (rep or srv.logs())[-4000:]}, found=True)
    ctx.streams.append({"name": "e2e-webdav", "cases": len(cases) + ncases_extra, "disagreements": ndis, "oracle_hits": nor,
                        "wall_s": round(time.time() - t0, 2)})


# ---- follow-symlink disabled
def e2e_symlink(ctx, bd, n):
    t0 = time.time()
    rng = ctx.rng
    srv = e2e.Server(bd, E2E_COMMON + 'server.follow-symlink = "disable"\n', modules=())
    os.rmdir(srv.docroot)
    build_symtree(srv.root, rootname="docroot", marker=True)
    plant(srv.root, [], ["canary.txt"])
    comps = [b"d1", b"d2", b"f", b"f0", b"l_d", b"l_f", b"l_out", b"l_broken", b"l_up", b"l_abs", b"nx", b"canary", b"docroot", b"tmp",
             b"dirA", b"dirC", b"dirD", b"sub", b"index.html", b"idx.html", b"secret.html"]
    targets = set()
    for k in range(1, 5):
        for t in itertools.product(comps, repeat=k):
            if k >= 3 and rng.random() > (n / float(len(comps) ** k)):
                continue
            u = b"".join(b"/" + c for c in t)
            targets.add(u)
            if rng.random() < 0.2:
                targets.add(u + b"/")
    deep = ("/d2/%s/%s/f" % (LONG1, LONG2)).encode()
    for pre in (b"/d1", b"/l_d", b"/d1/l_up/d1", b"/l_d/l_up/l_d"):
        for cut in range(0, 5):
            targets.add(pre + b"/".join(deep.split(b"/")[:cut + 1]))
    targets = sorted(targets)
    D = srv.docroot.encode()
    lines = []
    eff = {}
    for u in targets:
        nm = D + u
        if not os.path.exists(nm):
            # PATH_INFO: the server cuts the path back to the first regular file on the way
            cur = D
            for comp in u.split(b"/")[1:]:
                cur += b"/" + comp
                if os.path.isfile(cur):
                    nm = cur
                    break
                if not os.path.isdir(cur):
                    break
        eff[u] = nm
        lines.append(" ".join(["symwalk", C.hx(nm)] + ["%s:%s" % (C.hx(p), kind_of(p)) for p in sym_probes(nm)]))
    out, rc, err = C.run_model("url", lines)
    if rc != 0 or len(out) != len(lines):
        ctx.broken.append({"kind": "model-run", "names": ["url"], "log": err[-2000:]})
        return
    with srv:
        with ThreadPoolExecutor(8) as ex:
            obs = list(ex.map(lambda u: _h1_get(srv.port, b"localhost", u), targets))
        alive = srv.alive()
    rep = srv.sanitizer_report()
    if rep or not alive:
        ctx.violation("crash:e2e:symlink", "server crashed / sanitizer report in e2e config symlink",
                      {"property": ctx.pid, "kind": "sanitizer-or-crash", "correspondence": "e2e-symlink", "input": "symlink",
                       "stderr": (rep or srv.logs())[-4000:]}, found=True)
        return
    ndis = nor = 0
    for u, line, pred, ob in zip(targets, lines, out, obs):
        status, body, headers = ob
        nm = eff[u]
        ctx.evaluations += 1
        ctx.keys["e2e:symlink:%s:%s" % (pred, "file" if served_file(status, body) else status)] += 1
        ov = cv = None
        haslink = False
        cur = b""
        for comp in nm.split(b"/")[1:]:
            cur += b"/" + comp
            if comp and os.path.islink(cur):
                haslink = True
        if b"CANARY" in body or b"OUTSIDE:" in body:
            ov = "content from outside the document root served with follow-symlink disabled"
        elif status == 200 and haslink:
            ov = "path through a symbolic link served with follow-symlink disabled: " + u.decode()
        elif status is not None:
            if status == 200 and pred != "0":
                cv = "served although the model's walk returns " + pred
            elif pred == "1" and os.path.exists(nm) and status != 403:
                cv = "walk finds a symlink, server answered %s" % status
            elif pred == "0" and os.path.isfile(nm) and status != 200:
                cv = "clean regular file, server answered %s" % status
        if ov or cv:
            nor += 1 if ov else 0
            ndis += 1 if cv else 0
            e2e_report(ctx, "e2e-symlink", {"cfg": "symlink", "target": u}, line, pred, ob, ov, cv)
    ctx.streams.append({"name": "e2e-symlink", "cases": len(targets), "disagreements": ndis, "oracle_hits": nor,
                        "wall_s": round(time.time() - t0, 2)})


# ---- follow-symlink per configuration context + index files + warm stat cache
SYMCTX_INDEX = [b"index.html", b"sub/idx.html"]


def e2e_symlink_ctx(ctx, bd, n):
    """sequences of requests on the same paths from a context where symlinks may be followed (Host: trusted.example)
    and from one where they may not; the stat cache is ON, so descriptors opened for one context are there when the
    other asks.  Every request is judged on its own: model = staticServed (no cache in the model), oracle = no
    symlink component (lstat'ed here) in the path of a file served to the restricted context"""
    t0 = time.time()
    rng = ctx.rng
    conf = ('server.follow-symlink = "disable"\nindex-file.names = ("index.html", "sub/idx.html")\n'
            '$HTTP["host"] == "trusted.example" { server.follow-symlink = "enable" }\n')
    srv = e2e.Server(bd, E2E_BASE + conf, modules=())
    os.rmdir(srv.docroot)
    build_symtree(srv.root, rootname="docroot", marker=True)
    D = srv.docroot.encode()
    targets = [b"/dirA/", b"/dirA/index.html", b"/dirB/", b"/dirB/index.html", b"/dirC/", b"/dirC/index.html", b"/dirD/", b"/dirD/sub/idx.html",
               b"/dirD/sub/", b"/dirE/", b"/l_d/", b"/l_d/index.html", b"/d1/", b"/d1/index.html", b"/l_f", b"/f0", b"/d1/l_up/f0", b"/l_out/secret.html",
               b"/l_out/", b"/d1/l_up/dirA/", b"/d1/l_up/dirB/", b"/", b"/d1/d2/", b"/d1/f", b"/l_d/f", b"/d1/l_up/dirB/index.html"]
    pats = ["TP", "PTP", "P", "TTPP", "TPTP", "PT", "TPP"]
    seqs = []
    for t in targets:
        for pat in pats:
            seqs.append((t, pat))
    for _ in range(n):
        seqs.append((rng.choice(targets), "".join(rng.choice("TP") for _ in range(rng.randint(2, 6)))))
    rng.shuffle(seqs)

    def candidates(u):
        phys = D + u
        names = SYMCTX_INDEX if (u.endswith(b"/") and os.path.isdir(phys)) else []
        return phys, names, [pyjoin(phys, v) for v in names]

    def has_link(pth):
        cur = b""
        for comp in pth.split(b"/")[1:]:
            cur += b"/" + comp
            if comp and os.path.islink(cur):
                return True
        return False
    # model: one line per (target, context)
    mlines = {}
    for u in targets:
        phys, names, cands = candidates(u)
        ex = [c for c in cands if os.path.exists(c)]
        probes = []
        for x in [phys] + cands:
            for p_ in sym_probes(x):
                if p_ not in probes:
                    probes.append(p_)
        for fo in ("0", "1"):
            mlines[(u, fo)] = jn("idxserve", fo, C.hx(D), C.hx(phys), str(len(names)), *[C.hx(v) for v in names], str(len(ex)),
                                 *[C.hx(c) for c in ex], *["%s:%s" % (C.hx(p_), kind_of(p_)) for p_ in probes])
    keys = sorted(mlines)
    out, rc, err = C.run_model("url", [mlines[k] for k in keys])
    if rc != 0 or len(out) != len(keys):
        ctx.broken.append({"kind": "model-run", "names": ["url"], "log": err[-2000:]})
        return
    pred = dict(zip(keys, out))
    results = []
    with srv:
        def run_seq(sq):
            u, pat = sq
            res = []
            for ch in pat:
                host = b"trusted.example" if ch == "T" else b"public.example"
                try:
                    res.append((ch, _h1_get(srv.port, host, u)))
                except OSError as ex_:
                    res.append((ch, (None, str(ex_).encode(), [])))
            return res
        with ThreadPoolExecutor(4) as ex_:
            results = list(ex_.map(run_seq, seqs))
        alive = srv.alive()
    rep = srv.sanitizer_report()
    if rep or not alive:
        ctx.violation("crash:e2e:symlink-ctx", "server crashed / sanitizer report in e2e config symlink-ctx",
                      {"property": ctx.pid, "kind": "sanitizer-or-crash", "correspondence": "e2e-symlink-ctx", "input": "symlink-ctx",
                       "stderr": (rep or srv.logs())[-4000:]}, found=True)
        return
    ndis = nor = ncase = 0
    for (u, pat), res in zip(seqs, results):
        phys, names, cands = candidates(u)
        for i, (ch, ob) in enumerate(res):
            status, body, headers = ob
            fo = "1" if ch == "T" else "0"
            pr = pred[(u, fo)].split(" ")
            final, served = C.unhx(pr[0]), pr[1] == "1"
            ncase += 1
            ctx.evaluations += 1
            ctx.keys["e2e:symlink-ctx:%s:%s:%s" % (ch, pr[1], status)] += 1
            ov = cv = None
            f = None
            if status == 200 and (body.startswith(b"FILE:") or body.startswith(b"OUTSIDE:")):
                f = body.split(b":", 1)[1].rstrip(b"\n")
            if ch == "P" and f is not None:
                ok = any(os.path.exists(c) and os.path.realpath(c) == os.path.realpath(f) and not has_link(c) for c in [phys] + cands)
                if not ok:
                    ov = ("file reached through a symbolic link served in a context where follow-symlink is disabled: %s -> %s (after %s)"
                          % (u.decode(), f.decode("latin-1"), pat[:i] or "nothing"))
            if ov is None and status is not None:
                if f is not None and not served:
                    cv = "served although the model refuses (%s, context %s, after %s)" % (u.decode(), ch, pat[:i])
                elif not served and os.path.exists(final) and status != 403:
                    cv = "model refuses, server answered %s (%s, context %s)" % (status, u.decode(), ch)
                elif served and os.path.isfile(final) and f is None:
                    cv = "model serves %s, server answered %s (context %s)" % (final.decode("latin-1"), status, ch)
                elif served and f is not None and os.path.realpath(final) != os.path.realpath(f):
                    cv = "served %s, model %s" % (f.decode("latin-1"), final.decode("latin-1"))
            if ov or cv:
                nor += 1 if ov else 0
                ndis += 1 if cv else 0
                e2e_report(ctx, "e2e-symlink-ctx", {"cfg": "symlink-ctx", "target": u, "sequence": pat, "step": i}, mlines[(u, fo)],
                           pred[(u, fo)], ob, ov, cv)
    ctx.streams.append({"name": "e2e-symlink-ctx", "cases": ncase, "disagreements": ndis, "oracle_hits": nor,
                        "wall_s": round(time.time() - t0, 2)})


def run_e2e(ctx, only=None):
    bd, err = e2e.build_server()
    if bd is None:
        ctx.broken.append({"kind": "server-build", "names": ["lighttpd"], "log": err[-3000:]})
        return
    if not getattr(ctx, "model_ok", True):
        return
    n = 1200 if ctx.quick else 10000
    cfgs = static_configs()
    jobs = []
    for name, cfg in cfgs.items():
        if only is None or only == name:
            jobs.append(lambda name=name, cfg=cfg: e2e_static(ctx, bd, name, cfg, n))
    if only in (None, "xsendfile"):
        jobs.append(lambda: e2e_xsendfile(ctx, bd, n * 2 // 3))
    if only in (None, "webdav"):
        jobs.append(lambda: e2e_webdav(ctx, bd, n // 2))
    if only in (None, "symlink"):
        jobs.append(lambda: e2e_symlink(ctx, bd, 1500 if ctx.quick else 8000))
    if only in (None, "symlink-ctx"):
        jobs.append(lambda: e2e_symlink_ctx(ctx, bd, 150 if ctx.quick else 3000))
    # (generation draws from ctx.rng: keep the order deterministic by running jobs one after another;
    #  each job is internally parallel)
    for j in jobs:
        j()
    ctx.notes.append("e2e: %d server configurations (alias x 4 parseopts sets + force-lowercase, simple-vhost x 3, evhost x 4, "
                     "mod_ssi, CGI X-Sendfile, WebDAV COPY/MOVE/PUT/DELETE/MKCOL, follow-symlink off, follow-symlink per context with index "
                     "files and warm stat cache); transports h1 origin-form, h1 absolute-form, h2 :path, h2 extended CONNECT"
                     % (len(cfgs) + 4))


def replay_e2e(ctx, rep):
    """static configurations: the recorded (host, target, transport) on a fresh server;
    X-Sendfile / WebDAV / symlink configurations: the whole stream again (same seed)"""
    case = rep.get("case", {})
    cfgname = case.get("cfg")
    cfgs = static_configs()
    ctx.model_ok = True
    if cfgname in cfgs and "host" in case:
        bd, err = e2e.build_server()
        cfg = cfgs[cfgname]
        c = {"cfg": cfgname, "host": case["host"].encode("latin-1"), "target": case["target"].encode("latin-1"), "tr": case["tr"]}
        srv = e2e.Server(bd, _common_for(cfg) + cfg["conf"], modules=cfg["modules"])
        plant(srv.root, BASE_FILES, BASE_CANARIES)
        rootb = srv.root.encode()
        ml, err = e2e_model_static(cfg, rootb, [c])
        with srv:
            obs = e2e_run_static(srv.port, [c], nthreads=1)
        ov, cv = e2e_eval_static(ctx, cfgname, cfg, rootb, c, ml[0][0], ml[0][1], obs[0])
        print("case  :", c)
        print("model :", ml[0][1])
        print("server:", obs[0][0], obs[0][1][:200])
        print("oracle:", ov, "| correspondence:", cv)
        if ov or cv or srv.sanitizer_report():
            print("VIOLATION property=%s replay=(replayed)" % ctx.pid)
            return 1
        return 0
    before = len(ctx.violations)
    run_e2e(ctx, only=cfgname)
    for v in ctx.violations[before:]:
        print("  ", v[0], v[1])
    if len(ctx.violations) > before:
        print("VIOLATION property=%s replay=(replayed)" % ctx.pid)
        return 1
    return 0


def run(ctx):
    exe, err = C.build_harness("h_url")
    if exe is None:
        ctx.broken.append({"kind": "harness-build", "names": ["h_url"], "log": err[-3000:]})
        return
    exe2, err = C.build_harness("h_docroot")
    if exe2 is None:
        ctx.broken.append({"kind": "harness-build", "names": ["h_docroot"], "log": err[-3000:]})
        return
    path_lines, url_lines = gen(ctx)
    ctx.differential("path(simplify/urldecode)", [exe], "url", path_lines, oracle, classify)
    ctx.differential("url(normalize/target)", [exe], "url", url_lines, oracle, classify)
    for name, lines in gen_docroot(ctx).items():
        ctx.differential(name, [exe2], "url", lines, oracle_docroot, classify_docroot)
    base = C.scratch_dir("sym")
    root = build_symtree(base)
    ctx.differential("symlink-walk(real fs)", [exe2], "url", gen_symwalk(ctx, root), oracle_symwalk, classify_symwalk)
    ctx.differential("index-file(real fs)", [exe2], "url", gen_indexfile(ctx, root), oracle_indexfile, classify_indexfile)
    run_e2e(ctx)
    ctx.rule = ("cases: every string up to a bounded length over the path/host metacharacter alphabets, per "
                "parseopts set / configuration, plus random and mutated traversal strings; e2e: requests against "
                "the real server; distinct = (operation, options, outcome class) tuples observed")
    ctx.assumptions += ["inputs to the path functions are NUL-free (NUL is rejected by the request parser: C01)",
                        "Windows/Cygwin backslash branches are compiled out on this platform",
                        "configured roots, alias targets and x-sendfile-docroots are absolute canonical paths",
                        "no concurrent modification of the served tree between check and open (TOCTOU outside the model)"]


def replay_line(ctx, rep):
    if rep.get("correspondence", "").startswith("e2e"):
        return replay_e2e(ctx, rep)
    line = rep["input"]
    op = line.split(" ")[0]
    hn = "h_url" if op in ("dec", "simp", "decsimp", "norm", "target") else "h_docroot"
    exe, err = C.build_harness(hn)
    if op == "symwalk":
        # the tree lived in a scratch directory: rebuild it at the recorded place
        nm = C.unhx(line.split(" ")[1])
        m = re.match(rb"(/.*?/ltverif\.sym\.[^/]+)/root", nm)
        if m and not os.path.exists(m.group(1)):
            os.makedirs(m.group(1))
            build_symtree(m.group(1).decode())
            C._scratch.append(m.group(1).decode())
    o, rc, e = C.run_lines([exe], [line])
    m, _, _ = C.run_model("url", [line])
    print("input:", line)
    print("impl :", o, rc)
    print("model:", m)
    orc = oracle if hn == "h_url" else (oracle_symwalk if op == "symwalk" else oracle_docroot)
    v = orc(line, o[0]) if o else "crash"
    print("oracle:", v)
    if v or (o != m):
        print("VIOLATION property=%s replay=%s" % (ctx.pid, "(replayed)"))
        return 1
    return 0
