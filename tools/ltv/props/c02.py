"""C02 — filesystem containment: URL normalise / decode / simplify pipeline,
request-target parsing, host policy, alias/vhost/x-sendfile path composition."""
import itertools
from .. import common as C

MANIFEST = dict(
    text="Lean 4 theorems over an executable model of burl_normalize / buffer_urldecode_path / "
         "buffer_path_simplify / http_request_parse_target (canonical absolute path, no dot segments, for "
         "every input and option set); model tied to the C by exhaustive small-scope + random differential "
         "runs under ASan/UBSan",
    note="trusted: Lean kernel (+propext, Quot.sound), hand-written model validated by the h_url "
         "correspondence, byte-class table and flag values regenerated from burl.c/burl.h each run; TOCTOU "
         "and filesystem semantics outside the model",
    tech="Lean 4 proof over hand-written model + differential correspondence (in-process C harness)",
    ref="6/C02")

PATH_ALPHA = [b"/", b".", b"%", b"2", b"e", b"F", b"a", b"\\", b"?", b"\x01", b"\x7f",
              b"\xc0", b"5", b"c"]
URL_ALPHA = PATH_ALPHA + [b"#", b"0", b"+", b"&", b"f", b"\xf5", b"3", b"A"]
# parseopts combinations configfile.c can produce (plus 0 = normalisation off)
FLAGSETS = [0, 8 | 16, 8 | 32, 8 | 16 | 64 | 256 | 1024 | 8192, 8 | 32 | 64 | 512 | 2048 | 4096,
            8 | 16 | 4096 | 1024, 8 | 32 | 256 | 1024 | 8192 | 4096, 8 | 16 | 512, 8 | 16 | 2048,
            8 | 32 | 64 | 256 | 1024, 1 | 8 | 16 | 64 | 256 | 1024 | 8192]
TRAVERSAL = [b"/../etc/passwd", b"/a/%2e%2e/%2e%2e/etc/passwd", b"/..%2f..%2fetc/passwd",
             b"/a/..;/..;/x", b"/%2e%2e%2f%2e%2e%2f", b"/a/./b/../../..", b"//etc//passwd",
             b"/.%2e/.%2e/etc", b"/%252e%252e/x", b"/a/%2E%2E/../b?x=/../y", b"/..\\..\\etc",
             b"/a/..%5c..%5cetc", b"/a/%c0%ae%c0%ae/b", b"/a/.../b", b"/a/..a/b", b"/%2e", b"/%2e/",
             b"/a%00/../b", b"/a/..#/../x", b"/x?/../../y", b"/%2F%2e%2e%2Fetc"]


def canonical_abs(p):
    """independent statement of C02's path claim"""
    if not p.startswith(b"/"):
        return "path not absolute"
    segs = p.split(b"/")[1:]
    for i, s in enumerate(segs):
        if s in (b".", b".."):
            return "path has dot segment"
        if s == b"" and i != len(segs) - 1:
            return "path has empty segment"
    return None


def oracle(line, out):
    t = line.split(" ")
    if t[0] in ("simp", "decsimp"):
        src = C.unhx(t[1])
        if t[0] == "decsimp" and src.startswith(b"%2f"):
            return None
        if src.startswith(b"/") and out != "<crash>":
            v = canonical_abs(C.unhx(out))
            if v:
                return "buffer_path_simplify: " + v
    elif t[0] == "target":
        o = out.split(" ")
        if o[0] == "ok" and t[2] == "0":
            path = C.unhx(o[2])
            v = canonical_abs(path)
            if v:
                return "http_request_parse_target: " + v
            flags = int(t[1])
            raw = C.unhx(t[3])
            if not any(c < 32 or c == 127 for c in raw):
                if any(c < 32 or c == 127 for c in path):
                    return "http_request_parse_target: decoded control byte in path"
    return None


def classify(line, out):
    t = line.split(" ")
    o = out.split(" ")
    if t[0] in ("norm", "target"):
        src = t[-1]
        changed = "same" if (len(o) > 1 and o[1] == src) else "chg"
        return "%s:%s:%s:%s" % (t[0], t[1], o[0] if o[0] in ("rej", "400", "ok") else "qs" + ("+" if o[0] != "-1" else "-"), changed)
    return "%s:%s" % (t[0], "same" if out == t[1] else "chg:%d" % min(len(out) // 2, 6))


def mutate(rng, s):
    s = bytearray(s)
    for _ in range(rng.randint(1, 3)):
        k = rng.randint(0, 4)
        pos = rng.randint(0, len(s))
        if k == 0 and s:
            del s[min(pos, len(s) - 1)]
        elif k == 1:
            s[pos:pos] = rng.choice(URL_ALPHA)
        elif k == 2:
            s[pos:pos] = rng.choice([b"/../", b"/./", b"//", b"%2e", b"%2E%2e", b"%2f", b"%5c", b"/..", b"%00", b"%7f", b"?", b"%3f", b"%23"])
        elif k == 3 and s:
            i = min(pos, len(s) - 1)
            s[i:i + 1] = b"%%%02x" % s[i]
        else:
            s[pos:pos] = bytes([rng.randint(1, 255)])
    return bytes(s).replace(b"\x00", b"")


def gen(ctx):
    n_path = 5 if ctx.quick else 6
    n_url = 3 if ctx.quick else 4
    path_lines, url_lines = [], []
    for n in range(0, n_path + 1):
        for t in itertools.product(PATH_ALPHA, repeat=n):
            s = b"".join(t)
            h = C.hx(s)
            path_lines.append("simp " + h)
            path_lines.append("dec " + h)
            if n <= n_path - 1:
                path_lines.append("decsimp " + C.hx(b"/" + s))
    for n in range(0, n_url + 1):
        for t in itertools.product(URL_ALPHA, repeat=n):
            s = b"".join(t)
            for f in FLAGSETS:
                url_lines.append("norm %d %s" % (f, C.hx(s)))
                url_lines.append("target %d 0 %s" % (f, C.hx(b"/" + s)))
    rng = ctx.rng
    nrand = 60000 if ctx.quick else 600000
    for _ in range(nrand):
        s = b"".join(rng.choice(URL_ALPHA) for _ in range(rng.randint(1, 16)))
        f = rng.choice(FLAGSETS)
        url_lines.append("norm %d %s" % (f, C.hx(s)))
        url_lines.append("target %d 0 %s" % (f, C.hx(rng.choice([b"/", b""]) + s)))
    for _ in range(nrand // 2):
        s = mutate(rng, rng.choice(TRAVERSAL))
        f = rng.choice(FLAGSETS)
        url_lines.append("target %d 0 %s" % (f, C.hx(s)))
        url_lines.append("decsimp " + C.hx(s))
    for s in TRAVERSAL:
        for f in FLAGSETS:
            url_lines.append("target %d 0 %s" % (f, C.hx(s.replace(b"%00", b""))))
    ctx.exhaustive = False
    ctx.notes.append("exhaustive: all strings of length <= %d over %d-symbol path alphabet (simp/dec) and "
                     "length <= %d over %d-symbol url alphabet x %d parseopts sets (norm/target); plus random "
                     "and mutated traversal corpora" % (n_path, len(PATH_ALPHA), n_url, len(URL_ALPHA), len(FLAGSETS)))
    return path_lines, url_lines


def run(ctx):
    exe, err = C.build_harness("h_url")
    if exe is None:
        ctx.broken.append({"kind": "harness-build", "names": ["h_url"], "log": err[-3000:]})
        return
    path_lines, url_lines = gen(ctx)
    ctx.differential("path(simplify/urldecode)", [exe], "url", path_lines, oracle, classify)
    ctx.differential("url(normalize/target)", [exe], "url", url_lines, oracle, classify)
    ctx.rule = ("cases: every string up to a bounded length over the path metacharacter alphabet, "
                "per parseopts set, plus random and mutated traversal strings; distinct = "
                "(operation, parseopts, outcome class, changed/unchanged) tuples observed")
    ctx.assumptions += ["inputs to the path functions are NUL-free (NUL is rejected by the request parser: C01)",
                        "Windows/Cygwin backslash branches are compiled out on this platform"]


def replay_line(ctx, rep):
    exe, err = C.build_harness("h_url")
    o, rc, e = C.run_lines([exe], [rep["input"]])
    m, _, _ = C.run_model("url", [rep["input"]])
    print("input:", rep["input"])
    print("impl :", o, rc)
    print("model:", m)
    v = oracle(rep["input"], o[0]) if o else "crash"
    print("oracle:", v)
    if v or (o != m):
        print("VIOLATION property=%s replay=%s" % (ctx.pid, "(replayed)"))
        return 1
    return 0
