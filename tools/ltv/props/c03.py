"""C03 — access rules cannot be bypassed by respelling URLs or spoofing the client address.

Streams (all differential: real C vs Lean model, plus an independent property oracle):
  match   array_match_*(), mod_access_check(), buffer lower-casing: exhaustive small scope on an
          alphabet that straddles the ASCII case boundaries, plus random rule lists
  addr    inet_pton()/getaddrinfo() as used by mod_extforward (validates the libc model)
  xff     extract_forward_array(), is_proxy_trusted(), mod_extforward_uri_handler() on
          X-Forwarded-For / Forwarded chains from trusted and untrusted peers (structured chains,
          mutated chains, exhaustive short Forwarded values)
  srv     generated lighttpd.conf (REAL parser) + real plugin dispatch + real
          http_response_handler() on a real directory tree: protected resources x closure of
          respelling transformations x HTTP/1.x / HTTP/2 entry x parse options x forwarded chains
The oracle of `srv` is a reference rule evaluator written against the property statement: a file is
only ever sent if the rules, evaluated on the canonical URL of THAT FILE and on the reference client
address, authorise it."""
import base64, ipaddress, itertools, os, re, socket
from .. import common as C

MANIFEST = dict(
    text="PROVED (Lean 4, over a hand-written executable model of mod_access_check / array_match_* / mod_auth "
         "first-prefix-match rule lookup with per-rule users / static-file exclusion and disable-pathinfo / "
         "url-host-remoteip conditions incl. nesting and else / path-info split and second access check / "
         "mod_extforward): a served file passed mod_access on the full path and on its own post-split URL for "
         "the client address the request was really attributed to, is not excluded, and the rule guarding the "
         "full path accepted the user; hence a file the rules refuse at its own URL is never sent under any "
         "spelling that resolves to it (case-sensitive, and force-lowercase when the assigning blocks are "
         "case-blind); auth guarded by rule i => accepted by a rule <= i; decisions are case-folded under "
         "force-lowercase; `==`/`!=` host blocks and port-tolerant regexes give `name:port` (<= 5 digits) the "
         "response of `name`; headers of an untrusted peer change nothing; X-Forwarded-For yields exactly the "
         "right-most untrusted token whatever bytes precede the proxy's `, addr`; the Forwarded walk never "
         "skips an untrusted hop and never runs on a list truncated by the offsets[] capacity. "
         "TESTED ONLY (differential correspondence + independent reference-evaluator oracle, not theorems): "
         "that the model is the C (real config parser, plugin dispatch, http_response_handler, real tree; "
         "thorough: real server, h1+h2); that respellings (percent-encoding, hex case, dot segments, "
         "duplicate/encoded slashes, NUL/ctl bytes, absolute-form, HTTP/1 vs HTTP/2, composed to depth 4/7) "
         "reach the same canonical path under every parse-option profile; the Forwarded tokenizer's handling "
         "of an attacker prefix at byte level (only its capacity and the walk are theorems)",
    note="level: proof over a model + correspondence. trusted: Lean kernel, the model's fidelity (h_access "
         "correspondence), libc inet_pton/getaddrinfo and PCRE2's UTF-8 check (modelled, validated exhaustively "
         "at small scope), C14's condition cache, C16's credential check, C01/C02 models of the request head "
         "and target. Known findings (upstream design limits that contradict the property as stated, each a "
         "Lean counterexample theorem and a fixed scenario): KF2 known:L1- regex conditions vs non-UTF-8 "
         "path-info, KF3 known:L2- case-sensitive url conditions under force-lowercase, KF4 known:L3- mod_auth "
         "evaluated only before the path-info split (condition form and rule-order form). Not modelled: "
         "conditional server.force-lowercase-filenames, auth.extern-authn, extforward.params, hap-PROXY, "
         "per-request variation of extforward.forwarder on one connection (trust is cached per connection)",
    tech="Lean 4 proof over hand-written model + differential correspondence (in-process C harness with the "
         "real configuration parser and plugin dispatch; thorough tier: end to end against the real server) "
         "+ independent reference-evaluator oracle",
    ref="6/C03")

hx = C.hx
unhx = C.unhx

# ----------------------------------------------------------------------------------------------
# harness
# ----------------------------------------------------------------------------------------------

def gen_parser():
    """configparser.c for the CURRENT tree (lemon from src/lemon.c on src/configparser.y)"""
    td = os.path.join(C.tree_dir(), "gen-c03")
    out = os.path.join(td, "configparser.c")
    if os.path.exists(out):
        return td, None
    with C.Lock("c03-gen-" + C.src_hash()):
        if os.path.exists(out):
            return td, None
        tmp = td + ".tmp.%d" % os.getpid()
        os.makedirs(tmp, exist_ok=True)
        r = C.run(["gcc", "-O1", "-w", os.path.join(C.SRC, "lemon.c"), "-o", os.path.join(tmp, "lemon")])
        if r.returncode != 0:
            return None, "lemon does not compile:\n" + r.stdout
        for f in ("configparser.y", "lempar.c"):
            with open(os.path.join(C.SRC, f), "rb") as i, open(os.path.join(tmp, f), "wb") as o:
                o.write(i.read())
        r = C.run([os.path.join(tmp, "lemon"), "-q", "-Tlempar.c", "configparser.y"], cwd=tmp)
        if r.returncode != 0 or not os.path.exists(os.path.join(tmp, "configparser.c")):
            return None, "lemon failed on configparser.y:\n" + r.stdout
        if os.path.exists(td):
            import shutil
            shutil.rmtree(td, ignore_errors=True)
        os.rename(tmp, td)
    return td, None


def build():
    gd, err = gen_parser()
    if gd is None:
        return None, err
    return C.build_harness("h_access", libs=("-lpcre2-8", "-lz", "-lm", "-ldl", "-lcrypt"),
                           extra=["-I" + gd])


# the directory tree below the document root (every file holds its own path)
TREE = [("f", b"/index.html"), ("f", b"/a.txt"), ("f", b"/app.php"), ("f", b"/notes.txt~"),
        ("f", b"/secret/key.html"), ("f", b"/secret/sub/deep.txt"), ("f", b"/secret/run.php"),
        ("f", b"/dir/x.inc"), ("f", b"/dir/y.html"), ("d", b"/dir/empty"), ("f", b"/private/data.bin"),
        ("f", b"/007/plan.txt"), ("f", b"/Mixed/Case.TXT"), ("f", b"/pub/readme.txt"),
        ("f", b"/pub/.htpasswd")]
FILES = [p for k, p in TREE if k == "f"]
TREE_TOK = ",".join("%s:%s" % (k, hx(p)) for k, p in TREE)

_root = None


def make_root():
    global _root
    if _root:
        return _root
    root = C.scratch_dir("c03")
    dr = os.path.join(root, "docroot")
    os.makedirs(dr)
    for k, p in TREE:
        full = dr + p.decode()
        if k == "d":
            os.makedirs(full, exist_ok=True)
        else:
            os.makedirs(os.path.dirname(full), exist_ok=True)
            with open(full, "wb") as f:
                f.write(p)
    with open(os.path.join(root, "users.txt"), "w") as f:
        f.write("alice:wonderland\nadmin:sesame\nbob:builder\n")
    _root = root
    return root


GOOD_CRED = b"Basic " + base64.b64encode(b"alice:wonderland")
ADMIN_CRED = b"Basic " + base64.b64encode(b"admin:sesame")
BOB_CRED = b"Basic " + base64.b64encode(b"bob:builder")
BAD_CRED = b"Basic " + base64.b64encode(b"alice:guess")
USER_OF = {GOOD_CRED: b"alice", ADMIN_CRED: b"admin", BOB_CRED: b"bob"}


def rule_pfx(r):
    return r if isinstance(r, bytes) else r[0]


def rule_users(r):
    """None = valid-user"""
    return None if isinstance(r, bytes) else r[1]

# ----------------------------------------------------------------------------------------------
# parse options
# ----------------------------------------------------------------------------------------------
OPT_BITS = {"url-normalize": 8, "url-normalize-unreserved": 16, "url-normalize-required": 32,
            "url-ctrls-reject": 64, "url-path-backslash-trans": 128, "url-path-2f-decode": 256,
            "url-path-2f-reject": 512, "url-path-dotseg-remove": 1024, "url-path-dotseg-reject": 2048,
            "url-query-20-plus": 4096, "url-invalid-utf8-reject": 8192}
URL_DEFAULT = 8 | 16 | 64 | 256 | 1024 | 8192


def parseopts_flags(kv):
    """port of config_http_parseopts() + the composition in config_insert()"""
    opts = URL_DEFAULT
    strict, hstrict, hnorm, getbody = 1, 1, 0, 0
    decode_2f, url_normalize = 1, 1
    for k, v in kv:
        if k == "header-strict":
            strict = v
        elif k == "host-strict":
            hstrict = v
        elif k == "host-normalize":
            hnorm = v
        elif k == "method-get-body":
            getbody = v
        else:
            o = OPT_BITS[k]
            if v:
                opts |= o
            else:
                opts &= ~o
                if o == 8:
                    url_normalize = 0
                if o == 256:
                    decode_2f = 0
    if not url_normalize:
        opts = 0
    if opts:
        opts |= 8
        if not (opts & (16 | 32)):
            opts |= 16 | 8192
            if decode_2f and not (opts & 512):
                opts |= 256
    return opts | (1 if strict else 0) | (6 if hstrict else 0) | (4 if hnorm else 0) | (0x8000 if getbody else 0)


PROFILES = [
    [],
    [("url-normalize-unreserved", 0), ("url-normalize-required", 1)],
    [("url-path-2f-decode", 0), ("url-path-2f-reject", 1)],
    [("url-path-dotseg-remove", 0), ("url-path-dotseg-reject", 1)],
    [("url-ctrls-reject", 0), ("url-path-2f-decode", 0)],
    [("header-strict", 0), ("host-strict", 0)],
    [("url-normalize-unreserved", 0), ("url-normalize-required", 1), ("url-query-20-plus", 1),
     ("url-path-2f-decode", 0)],
    [("url-ctrls-reject", 0), ("url-path-2f-decode", 0), ("url-path-dotseg-remove", 0),
     ("url-invalid-utf8-reject", 0)],
    [("url-normalize", 0)],
    [("url-normalize", 0), ("header-strict", 0), ("host-strict", 0), ("host-normalize", 1)],
    [("url-ctrls-reject", 0), ("header-strict", 0)],
]


def profile_text(kv):
    if not kv:
        return ""
    return "server.http-parseopts = (%s)\n" % ", ".join(
        '"%s" => "%s"' % (k, "enable" if v else "disable") for k, v in kv)


# ----------------------------------------------------------------------------------------------
# configuration: blocks with a scope and the directives the property is about
# ----------------------------------------------------------------------------------------------
def cstr(b):
    s = b.decode("latin-1")
    assert '"' not in s and "\\" not in s and all(32 <= ord(c) < 127 for c in s), s
    return '"' + s + '"'


def re_escape(b):
    return b.decode().replace(".", "\\.")


class Scope:
    def __init__(self, kind, op=None, val=None, neg=False, rkind=None, net=None):
        self.kind, self.op, self.val, self.neg, self.rkind, self.net = kind, op, val, neg, rkind, net

    def text(self):
        if self.kind == "G":
            return None
        if self.kind in "UH":
            key = '$HTTP["url"]' if self.kind == "U" else '$HTTP["host"]'
            return "%s %s %s" % (key, {"e": "==", "n": "!=", "p": "=^", "s": "=$"}[self.op], cstr(self.val))
        if self.kind == "R":
            lit = re_escape(self.val)
            pat = {"cs": "(?i)" + lit + "$", "cp": "(?i)^" + lit, "sub": lit}[self.rkind]
            return '$HTTP["url"] %s "%s"' % ("!~" if self.neg else "=~", pat)
        if self.kind == "Q":
            lit = re_escape(self.val)
            pat = {"cp": "(?i)^" + lit, "hp": "(?i)^" + lit + "(:[0-9]+)?$"}[self.rkind]
            return '$HTTP["host"] %s "%s"' % ("!~" if self.neg else "=~", pat)
        if self.kind == "J":
            lit = re_escape(self.val)
            pat = {"cp": "(?i)^" + lit, "cs": "(?i)" + lit + "$"}[self.rkind]
            return '$HTTP["remoteip"] %s "%s"' % ("!~" if self.neg else "=~", pat)
        if self.kind == "E":
            return ""                      # plain else
        if self.kind == "I":
            return '$HTTP["remoteip"] %s "%s"' % ("!=" if self.neg else "==", self.net)

    def ident(self):
        return (self.kind, self.rkind, self.val, self.net)

    def tok(self):
        if self.kind == "G":
            return "G"
        if self.kind in "UH":
            return "%s%s:%s" % (self.kind, self.op, hx(self.val))
        if self.kind in "RQJ":
            return "%s%d:%s:%s" % (self.kind, 1 if self.neg else 0, self.rkind, hx(self.val))
        if self.kind == "E":
            return None
        n = ipaddress.ip_network(self.net, strict=False) if "/" in self.net else None
        a = ipaddress.ip_address(self.net.split("/")[0])
        bits = int(self.net.split("/")[1]) if n is not None else 0
        return "I%d:%d:%s:%d" % (1 if self.neg else 0, a.version, a.packed.hex(), bits)

    # reference semantics (independent of the Lean model), used by the oracle
    def holds(self, url, host, addr):
        if self.kind in "GE":
            return True
        if self.kind == "J":
            t = addr.lower()
            m = t.startswith(self.val.lower()) if self.rkind == "cp" else t.endswith(self.val.lower())
            return m != self.neg
        if self.kind in "UH":
            l = url if self.kind == "U" else host
            if self.kind == "H" and self.op in "en":
                m = ref_host_eq(self.val, l)
            else:
                m = {"e": l == self.val, "n": l == self.val, "p": l.startswith(self.val),
                     "s": l.endswith(self.val)}[self.op]
            return (not m) if self.op == "n" else m
        if self.kind == "R":
            lit = self.val.lower()
            u = url.lower()
            m = {"cs": u.endswith(lit), "cp": u.startswith(lit), "sub": self.val in url}[self.rkind]
            try:
                url.decode("utf-8")          # PCRE2_UTF: no match on a subject that is not UTF-8
            except UnicodeDecodeError:
                m = False
            return m != self.neg
        if self.kind == "Q":
            if self.rkind == "cp":
                m = host.lower().startswith(self.val.lower())
            else:
                m = re.fullmatch(re.escape(self.val) + rb"(:[0-9]+)?", host, re.I) is not None
            try:
                host.decode("utf-8")
            except UnicodeDecodeError:
                m = False
            return m != self.neg
        a = lax_ip(addr)
        if a is None:
            return self.neg
        if "/" in self.net:
            m = ip_in_net(a, ipaddress.ip_network(self.net, strict=False))
        else:
            m = a == ipaddress.ip_address(self.net)
        return m != self.neg


def lax_ip(text):
    """address a textual form stands for, the way getaddrinfo(AI_NUMERICHOST) reads it"""
    try:
        return ipaddress.ip_address(text.decode())
    except (ValueError, UnicodeDecodeError):
        pass
    try:
        return ipaddress.ip_address(socket.inet_aton(text.decode()))      # 10.0.0.01, 1.2.3, 0x7f.1 ...
    except (OSError, UnicodeDecodeError, ValueError):
        return None


def ip_in_net(a, n):
    """CIDR membership with the IPv4-mapped equivalences sock_addr_is_addr_eq_bits() knows"""
    if a.version == n.version:
        return a in n
    if a.version == 6 and n.version == 4:
        return a.ipv4_mapped is not None and a.ipv4_mapped in n
    m = ipaddress.ip_address("::ffff:" + str(a))
    if n.network_address.ipv4_mapped is None and n.prefixlen > 0:
        return False
    return n.prefixlen >= 96 and m in n or (n.prefixlen < 96 and n.network_address.ipv4_mapped is not None)


def split_authority(a):
    """(name, port | None): the port is a final ':' followed by at most five digits (a TCP port);
    the name may be an IPv6 literal in brackets"""
    m = re.fullmatch(rb"(\[[^\]]*\]|[^:]*)(?::(\d{0,5}))?", a)
    return (m.group(1), m.group(2)) if m else (a, None)


def ref_host_eq(val, authority):
    """`$HTTP["host"] == val`, as documented: the names are equal, and the ports are equal if both the
    configured value and the request's authority carry one (written from the documentation, not from
    the code: no length arithmetic)"""
    if not authority:
        return authority == val
    vn, vp = split_authority(val)
    an, ap = split_authority(authority)
    return vn == an and (vp is None or ap is None or vp == ap)


def ref_authority(raw, flags):
    """the authority conditions see: lower case; with host-strict the trailing dot of a fully qualified
    name is folded; with host normalisation the port is canonical and the default port is dropped."""
    h = raw.lower()
    if flags & 2:          # host-strict: the root label's dot and an empty port are dropped
        n, pt = split_authority(h)
        if n.endswith(b".") and not n.startswith(b"["):
            n = n[:-1]
        h = n + (b":" + pt if pt else b"")
    if flags & 4:
        n, pt = split_authority(h)
        if pt:
            h = n if int(pt) == 80 else n + b":" + str(int(pt)).encode()
    return h


class Block:
    """one configuration block; `parent` / `prev` (Block or None) place it inside another block /
    make it the else-branch of another block"""
    def __init__(self, scope, allow=None, deny=None, auth=None, excl=None, fwd=None, fhdrs=None, npi=None,
                 parent=None, prev=None):
        self.scope, self.allow, self.deny, self.auth, self.excl, self.fwd, self.fhdrs, self.npi = \
            scope, allow, deny, auth, excl, fwd, fhdrs, npi
        self.parent, self.prev = parent, prev

    def parts(self):
        """the effective condition: [(negated, Scope)], enclosing blocks first"""
        out = []
        if self.parent is not None:
            out += self.parent.parts()
        q = self.prev
        prevs = []
        while q is not None:
            prevs.append(q)
            q = q.prev
        out += [(True, q.scope) for q in reversed(prevs)]
        if self.scope.kind != "E":
            out.append((False, self.scope))
        return out

    def holds(self, url, host, addr):
        return all(sc.holds(url, host, addr) != neg for neg, sc in self.parts())

    def kinds(self):
        return "".join(sorted(set(sc.kind for _, sc in self.parts())))

    def body(self):
        out = []
        if self.allow is not None:
            out.append("url.access-allow = (%s)" % ", ".join(cstr(v) for v in self.allow))
        if self.deny is not None:
            out.append("url.access-deny = (%s)" % ", ".join(cstr(v) for v in self.deny))
        if self.auth is not None:
            out.append("auth.require = (%s)" % ", ".join(
                '%s => ("method" => "basic", "realm" => "r%d", "require" => "%s")'
                % (cstr(rule_pfx(k)), i, "valid-user" if rule_users(k) is None else
                   "|".join("user=" + u.decode() for u in rule_users(k)))
                for i, k in enumerate(self.auth)))
        if self.excl is not None:
            out.append("static-file.exclude-extensions = (%s)" % ", ".join(cstr(v) for v in self.excl))
        if self.npi is not None:
            out.append('static-file.disable-pathinfo = "%s"' % ("enable" if self.npi else "disable"))
        if self.fwd is not None:
            out.append("extforward.forwarder = (%s)" % ", ".join("%s => %s" % (cstr(k), cstr(v))
                                                                  for k, v in self.fwd))
        if self.fhdrs is not None:
            out.append("extforward.headers = (%s)" % ", ".join(cstr(v) for v in self.fhdrs))
        return out

    def tok(self):
        def lst(l):
            if l is None:
                return "~"
            if not l:
                return "."
            return ",".join(hx(v) for v in l)
        def auth(l):
            if l is None:
                return "~"
            if not l:
                return "."
            return ",".join(hx(rule_pfx(r)) + ("" if rule_users(r) is None else
                                               "@" + "+".join(hx(u) for u in rule_users(r))) for r in l)
        fw = "~" if self.fwd is None else ("-" if not self.fwd else
                                           ",".join("%s=%s" % (hx(k), hx(v)) for k, v in self.fwd))
        sc = "&".join(("!" if neg else "") + x.tok() for neg, x in self.parts()) or "G"
        return "|".join([sc, lst(self.allow), lst(self.deny), auth(self.auth), lst(self.excl),
                         fw, lst(self.fhdrs), "~" if self.npi is None else str(int(self.npi))])


def conf_blocks(blocks):
    """lighttpd.conf text of the blocks (file order = list order): children inside their parent,
    else-branches after the closing brace of the block they follow"""
    t = ""
    for b in blocks:
        if b.parent is not None or b.prev is not None:
            continue
        t += conf_block(b, blocks, "")
    return t


def conf_block(b, blocks, ind):
    st = b.scope.text()
    if st is None:
        return "".join(l + "\n" for l in b.body())
    t = ind + (st + " " if st else "") + "{\n" + "".join(ind + "  " + l + "\n" for l in b.body())
    for c in blocks:
        if c.parent is b and c.prev is None:
            t += conf_block(c, blocks, ind + "  ")
    t += ind + "}\n"
    for c in blocks:
        if c.prev is b:
            t += ind + "else " + conf_block(c, blocks, ind).lstrip()
    return t


class Config:
    def __init__(self, blocks, profile, lc):
        self.blocks, self.profile, self.lc = blocks, profile, lc     # blocks[0] is global
        self.flags = parseopts_flags(profile)

    def text(self):
        t = 'server.document-root = "@DOCROOT@"\n'
        t += 'server.modules = ("mod_access", "mod_auth", "mod_authn_file", "mod_extforward")\n'
        if self.lc:
            t += 'server.force-lowercase-filenames = "enable"\n'
        t += profile_text(self.profile)
        t += 'auth.backend = "plain"\nauth.backend.plain.userfile = "@USERFILE@"\n'
        t += conf_blocks(self.blocks)
        return t.encode()

    def head(self, root):
        return "srv %s %s %d %d %s %s /" % (hx(self.text()), hx(os.path.join(root, "docroot")), self.flags,
                                            1 if self.lc else 0, TREE_TOK, " ".join(b.tok() for b in self.blocks))

    def setting(self, name, url, host, addr):
        v = None
        for b in self.blocks:
            x = getattr(b, name)
            if x is not None and b.holds(url, host, addr):
                v = x
        return v


# ----------------------------------------------------------------------------------------------
# requests
# ----------------------------------------------------------------------------------------------
class Request:
    def __init__(self, kind, peer, target, host=b"www.example", fields=(), absolute=None):
        self.kind, self.peer, self.target, self.host, self.fields, self.absolute = \
            kind, peer, target, host, list(fields), absolute

    def tok(self):
        if self.kind == 1:
            t = self.target
            hdrs = b""
            if self.absolute is not None:
                t = b"http://" + self.absolute + t
            if self.host is not None:
                hdrs += b"Host: " + self.host + b"\r\n"
            for k, v in self.fields:
                hdrs += k + b": " + v + b"\r\n"
            return "1,%s,%s" % (hx(self.peer), hx(b"GET " + t + b" HTTP/1.1\r\n" + hdrs + b"\r\n"))
        return "2,%s,%s,%s,%s,%s" % (hx(self.peer), hx(b"GET"), hx(self.target), hx(self.host or b""),
                                     ";".join("%s:%s" % (hx(k.lower()), hx(v)) for k, v in self.fields) or "-")

    def ref_host(self, flags=4):
        h = self.absolute if (self.kind == 1 and self.absolute is not None) else (self.host or b"")
        return ref_authority(h, flags)

    def field(self, name):
        vs = [v for k, v in self.fields if k.lower() == name]
        return b", ".join(vs) if vs else None


# ----------------------------------------------------------------------------------------------
# reference evaluator (the property oracle of the srv stream)
# ----------------------------------------------------------------------------------------------
def suffix_hit(lst, path, lc):
    if lc:
        path = path.lower()
        return any(path.endswith(v.lower()) for v in lst)
    return any(path.endswith(v) for v in lst)


def ref_trusted(fwd, ip):
    """is `ip` (text) a configured trusted proxy?"""
    for k, v in fwd:
        if k.lower() == ip.lower() and b"/" not in k:
            return v.lower() == b"trust"
    try:
        a = ipaddress.ip_address(ip.decode())
    except ValueError:
        return False
    if re.search(rb"(^|\.)0\d", ip):          # inet_pton refuses leading zeros
        return False
    for k, v in fwd:
        if b"/" in k and not k.startswith(b"/") and v.lower() == b"trust":
            try:
                n = ipaddress.ip_network(k.decode().replace("[", "").replace("]", ""), strict=False)
            except ValueError:
                continue
            if ip_in_net(a, n):
                return True
    return False


def ref_peer_trusted(fwd, peer):
    for k, v in fwd:
        if k.lower() == b"all":
            return v.lower() == b"trust"
    return ref_trusted(fwd, peer)


FWD_PARAM = rb"[A-Za-z0-9_-]+=(?:\"[^\",;\\\\]*\"|[0-9A-Za-z._:-]*)"
FWD_ELEM = FWD_PARAM + rb"(?:;" + FWD_PARAM + rb")*"
FWD_HDR = re.compile(rb" *" + FWD_ELEM + rb"(?: *, *" + FWD_ELEM + rb")* *")
FWD_MANY = 50       # "~50 params is more than reasonably expected": beyond that 400 (fail closed) is fine


def ref_forwarded(fwd, hdr):
    """reference reading of a Forwarded header (RFC 7239), from the header AS SENT, all of it:
    -> (pick | None, exact, nparams).  exact=False: outside the grammar / ambiguous elements."""
    if not FWD_HDR.fullmatch(hdr):
        return None, False, 0
    chain, nparams = [], 0
    for el in hdr.split(b","):
        fors = []
        for prm in el.strip().split(b";"):
            nparams += 1
            k, v = prm.split(b"=", 1)
            if k.lower() == b"for":
                fors.append(v)
        if len(fors) != 1:
            return None, False, nparams           # no / several node identifiers: not defined here
        v = fors[0]
        if v.startswith(b'"'):
            v = v[1:-1]
            if v.startswith(b"["):
                if b"]" not in v or v.index(b"]") == 1 and v.rindex(b"]") == 1:
                    return None, False, nparams
                v = v[1:v.rindex(b"]")]
            elif v[:1] not in (b"_", b"/", b"u"):
                v = v.split(b":")[0]
        if not v or v[:1] in (b"_", b"/") or v == b"unknown":
            return None, False, nparams           # obfuscated / unknown hop
        chain.append(v)
    pick = None
    for ip in reversed(chain):
        pick = ip
        if not ref_trusted(fwd, ip):
            break
    return pick, True, nparams


def ref_addr(cfg, rq, url):
    """reference client address: (addr, exact, may400).  exact=False: the header is outside the
    well-formed grammar the reference understands; only the safety envelope is known.
    may400: so many Forwarded params that rejecting the request is acceptable (never a truncated walk)."""
    host = rq.ref_host(cfg.flags)
    fwd = cfg.setting("fwd", url, host, rq.peer)
    if fwd is None:
        return rq.peer, True, False
    names = cfg.setting("fhdrs", url, host, rq.peer) or [b"X-Forwarded-For", b"Forwarded-For"]
    hdr = name = None
    for n in names:
        v = rq.field(n.lower())
        if v:
            hdr, name = v, n.lower()
            break
    if hdr is None or not ref_peer_trusted(fwd, rq.peer):
        return rq.peer, True, False
    may400 = False
    if name == b"forwarded":
        pick, exact, nparams = ref_forwarded(fwd, hdr)
        may400 = nparams >= FWD_MANY
        if not exact:
            return rq.peer, False, may400 or nparams == 0
    else:
        if not re.fullmatch(rb"[0-9a-fA-F.:]+( *, *[0-9a-fA-F.:]+)*", hdr):
            return rq.peer, False, False
        chain = [x.strip() for x in hdr.split(b",")]
        pick = None
        for ip in reversed(chain):
            if not ref_trusted(fwd, ip):
                pick = ip
                break
        if pick is None:
            return rq.peer, True, False
    try:
        ipaddress.ip_address(pick.decode())
    except ValueError:
        return rq.peer, False, may400         # libc may or may not accept it (e.g. "1.2.3")
    if re.search(rb"(^|\.)0\d", pick):
        return rq.peer, False, may400
    return pick, True, may400


def ref_canon(target):
    """the once-decoded, simplified path of a request-target (independent statement of
    http_request_parse_target()'s result for every parse-option profile that accepts the target);
    None where the reference does not apply (raw control / non-ASCII bytes, relative result)"""
    if any(c < 33 or c > 126 for c in target):
        return None
    t = target.split(b"#", 1)[0].split(b"?", 1)[0]
    a = _simplify(_decode_once(t))
    # whether an encoded slash delimits segments when dot segments are removed depends on the parse
    # options (url-path-2f-decode); the reference only speaks where both readings agree
    dots = re.sub(rb"%2[eE]", b".", t)
    b = _simplify(dots)
    b = _simplify(_decode_once(b)) if b is not None else None
    return a if a is not None and a == b else None


def _decode_once(t):
    out = bytearray()
    i = 0
    while i < len(t):
        if t[i] == 0x25 and re.fullmatch(rb"[0-9a-fA-F]{2}", t[i + 1:i + 3]):
            c = int(t[i + 1:i + 3], 16)
            out.append(c if 32 <= c != 127 else 0x5f)      # decoded control bytes become '_'
            i += 3
        else:
            out.append(t[i])
            i += 1
    return bytes(out)


def _simplify(p):
    if not p.startswith(b"/"):
        return None
    segs = p.split(b"/")[1:]
    stack = []
    for sg in segs:
        if sg in (b"", b"."):
            continue
        if sg == b"..":
            if stack:
                stack.pop()
        else:
            stack.append(sg)
    r = b"/" + b"/".join(stack)
    if segs and segs[-1] in (b"", b".", b"..") and stack:
        r += b"/"
    return r


def ref_authorised(cfg, rq, f, addr):
    """may file `f` (path below the docroot = its canonical URL) be sent for this request?"""
    host = rq.ref_host(cfg.flags)
    allow = cfg.setting("allow", f, host, addr) or []
    deny = cfg.setting("deny", f, host, addr) or []
    if allow:
        if not suffix_hit(allow, f, cfg.lc):
            return "url.access-allow does not list it"
    elif deny and suffix_hit(deny, f, cfg.lc):
        return "url.access-deny lists it"
    excl = cfg.setting("excl", f, host, addr) or []
    if any(f.endswith(v) for v in excl):
        return "static-file.exclude-extensions lists it"
    auth = cfg.setting("auth", f, host, addr) or []
    fl = f.lower() if cfg.lc else f
    guard = next((k for k in auth if fl.startswith(rule_pfx(k).lower() if cfg.lc else rule_pfx(k))), None)
    if guard is not None:
        user = USER_OF.get(rq.field(b"authorization"))
        if user is None:
            return "auth.require guards it and the request has no valid credentials"
        if rule_users(guard) is not None and user not in rule_users(guard):
            return "auth.require guards it for other users than the one authenticated"
    return None


_cases = {}      # line -> (cfg, [requests])
_logged = set()


def verdict(cls, detail):
    """one violation per class of failure; the first concrete instance goes to the log"""
    if cls not in _logged:
        _logged.add(cls)
        C.log("  C03 oracle: %s: %s" % (cls, detail))
    return cls


def srv_oracle(line, out):
    ent = _cases.get(line)
    if ent is None or out in ("bad-op", "config-error", "tree-error", "<crash>"):
        return verdict("harness refused a generated case", out + ": " + line[:300]) if ent is not None else None
    cfg, reqs = ent
    o = out.split(" ")
    if int(o[0]) != cfg.flags or int(o[1]) != (1 if cfg.lc else 0):
        return None            # (generator's idea of the options differs: shows up as disagreement)
    for rq, ob in zip(reqs, o[2:]):
        st, uri, pi, addr, f = ob.split(",")
        if uri == "-":
            continue               # head rejected by the request parser: no module ran
        addr = unhx(addr)
        url0 = unhx(uri) if uri != "-" else b""
        want, exact, may400 = ref_addr(cfg, rq, url0)
        if st == "400" and (may400 or not exact):
            continue               # rejected (fail closed): no decision was taken
        if st != "400":
            canon = ref_canon(rq.target)
            full = url0 + unhx(pi)
            if canon is not None and (full.lower() != canon.lower() if cfg.lc else full != canon):
                return verdict("r->uri.path is not the once-decoded, simplified request path",
                               "target %r (HTTP/%d, parseopts %d): uri.path %r + path-info %r, reference %r"
                               % (rq.target, rq.kind, cfg.flags, url0, unhx(pi), canon))
        if exact and addr != want:
            return verdict("request attributed to a client address that is not the reference address "
                           "(TCP peer, or right-most untrusted hop behind a trusted forwarder)",
                           "used %r, reference %r, peer %r, fields %r, status %s, target %r, host %r, config:\n%s"
                           % (addr, want, rq.peer, rq.fields, st, rq.target, rq.host, cfg.text().decode()))
        if not exact:
            # safety envelope: never an address that is not the peer or part of the header, and never
            # anything but the peer when the peer is not a trusted forwarder
            fwd = cfg.setting("fwd", url0, rq.ref_host(cfg.flags), rq.peer)
            hv = b" ".join(v for _, v in rq.fields)
            if addr != rq.peer and (fwd is None or not ref_peer_trusted(fwd, rq.peer) or addr not in hv):
                return verdict("client address taken from a header although the TCP peer is not a trusted "
                               "forwarder (or not from the header at all)", "used %r, peer %r, fields %r" % (addr, rq.peer, rq.fields))
            want = addr
        if st == "200" and f != "-":
            why = ref_authorised(cfg, rq, unhx(f), want)
            if why:
                return verdict("protected file sent: " + why, "file %r, target %r (HTTP/%d), host %r, address %r, config:\n%s"
                               % (unhx(f), rq.target, rq.kind, rq.host, want, cfg.text().decode()))
    return None


def srv_classify(line, out):
    ent = _cases.get(line)
    if ent is None:
        return "srv:?"
    cfg, reqs = ent
    o = out.split(" ")
    sts = sorted(set(x.split(",")[0] for x in o[2:])) if len(o) > 2 else []
    kinds = "".join(sorted(set("".join(b.kinds() for b in cfg.blocks))))
    if any(b.parent is not None for b in cfg.blocks):
        kinds += "+nest"
    if any(b.prev is not None for b in cfg.blocks):
        kinds += "+else"
    mech = "".join(c for c, n in (("a", "allow"), ("d", "deny"), ("u", "auth"), ("x", "excl"), ("f", "fwd"))
                   if any(getattr(b, n) is not None for b in cfg.blocks))
    return "srv:%d:%d:%s:%s:%s" % (cfg.flags, cfg.lc, kinds, mech, ",".join(sts))


# ----------------------------------------------------------------------------------------------
# respelling transformations
# ----------------------------------------------------------------------------------------------
def t_pct(rng, s, upper=None):
    idx = [i for i, c in enumerate(s) if c != 0x25]
    if not idx:
        return s
    i = rng.choice(idx)
    up = rng.random() < 0.5 if upper is None else upper
    return s[:i] + (b"%%%02X" if up else b"%%%02x") % s[i] + s[i + 1:]


def t_case(rng, s):
    idx = [i for i, c in enumerate(s) if chr(c).isalpha()]
    if not idx:
        return s
    k = rng.randint(1, min(3, len(idx)))
    b = bytearray(s)
    for i in rng.sample(idx, k):
        b[i] ^= 0x20
    return bytes(b)


def t_insert(rng, s, what=None):
    sl = [i for i, c in enumerate(s) if c == 0x2f]
    if not sl:
        return s
    i = rng.choice(sl)
    w = what or rng.choice([b"/.", b"/x/..", b"/", b"/./.", b"/%2e", b"/x/%2e%2e", b"/x/.%2E", b"/..", b"/%2e%2e"])
    return s[:i] + w + s[i:]


def t_slash(rng, s):
    sl = [i for i, c in enumerate(s) if c == 0x2f and i > 0]
    if not sl:
        return s
    i = rng.choice(sl)
    return s[:i] + rng.choice([b"%2f", b"%2F", b"\\", b"%5c", b"//"]) + s[i + 1:]


def t_tail(rng, s):
    return s + rng.choice([b"/", b"/info", b"/x.txt", b"/.", b"/..", b"%2f", b"/a/b/c.html", b"//", b"/info~",
                           b"%2finfo", b"/Info.PHP", b"?", b"?x=/../y", b"#f", b"%00", b"%20", b".", b"%2e", b" ",
                           b"/%2e%2e/" + s.rsplit(b"/", 1)[-1], b";x", b"/.php", b"\x00", b"%0a"])


def t_ctl(rng, s):
    i = rng.randint(1, len(s))
    return s[:i] + rng.choice([b"%00", b"%01", b"\x01", b"%7f", b"\x7f", b"%0d%0a", b"\t", b"%09", b"\x00", b"%ff",
                               b"\xc0\xae", b"%c0%ae", b"%25", b"%2", b"%zz", b"%", b"+", b"%e2%80%ae"]) + s[i:]


def t_double(rng, s):
    i = s.find(b"%")
    if i < 0:
        return t_pct(rng, t_pct(rng, s))
    return s[:i] + b"%25" + s[i + 1:]


TRANSFORMS = [t_pct, t_pct, t_case, t_insert, t_slash, t_tail, t_tail, t_ctl, t_double]


def respell(rng, base, depth):
    s = base
    for _ in range(depth):
        s = rng.choice(TRANSFORMS)(rng, s)
    return s


# ----------------------------------------------------------------------------------------------
# generators
# ----------------------------------------------------------------------------------------------
DENY_SETS = [[b"~", b".inc"], [b".php"], [b"key.html"], [b".txt", b".TXT"], [b""], [b".htpasswd", b"~"],
             [b"/data.bin"], [b".HTML"], [b".bin", b".inc", b"~", b".php"], [b"y.html", b"/"]]
ALLOW_SETS = [[b".html"], [b".html", b".txt"], [b".TXT", b".Html"], [b"/index.html", b"readme.txt"], [b"/"]]
AUTH_SETS = [[b"/secret/"], [b"/secret"], [b"/secret/sub/", b"/secret/"], [b"/private", b"/dir/x"],
             [b"/SECRET/"], [b"/"], [b"/007/", b"/pub/.ht"], [b"/Mixed/"], [b"/app.php"]]
EXCL_SETS = [[b".php"], [b".php", b".inc", b"~"], [b".bin"], [b"~"], [b".txt"], [b".PHP"], [b"/key.html"]]
URL_SCOPES_CS = [("p", b"/secret/"), ("p", b"/secret"), ("e", b"/secret/key.html"), ("s", b".php"),
                 ("s", b".txt"), ("s", b"/x.inc"), ("p", b"/dir/"), ("p", b"/private/"), ("n", b"/index.html"),
                 ("e", b"/a.txt"), ("s", b"~"), ("p", b"/pub/."), ("s", b"/key.html"), ("p", b"/Mixed")]
URL_SCOPES_NOLETTER = [("p", b"/007/"), ("p", b"/007"), ("s", b"~"), ("s", b"/"), ("p", b"/")]
RE_SCOPES = [("cs", b".php"), ("cp", b"/secret/"), ("cs", b".txt"), ("cp", b"/dir/x"), ("cs", b"key.html"),
             ("cp", b"/private"), ("cs", b"~"), ("cp", b"/mixed/")]
HOSTS = [b"www.example", b"secure.example", b"other.example"]
HOST_SCOPES = [("e", b"secure.example"), ("n", b"www.example"), ("e", b"secure.example:80"), ("s", b".example"),
               ("p", b"secure"), ("e", b"other.example"), ("n", b"secure.example"), ("e", b"[::1]"),
               ("e", b"secure.example:8080")]
HOST_RE_SCOPES = [("cp", b"secure."), ("hp", b"secure.example"), ("hp", b"www.example"), ("cp", b"other.example")]
PORTS = [b":80", b":8", b":81", b":808", b":8080", b":10000", b":65535", b":12345", b":080", b":443"]
PORTS_LENIENT = [b":", b":100000", b":0", b":99999"]          # (refused when hosts are checked / normalised)
V6_HOSTS = [b"[::1]", b"[::1]:8080", b"[2001:db8::1]:12345", b"[::1]:80"]


def spell_host(rng, name, flags):
    """an authority that names `name`: letter case, port (none, 1-5 digits, default), trailing dot"""
    h = name
    r = rng.random()
    if r < 0.15:
        h = h.upper()
    elif r < 0.25:
        h = bytes(c ^ 0x20 if chr(c).isalpha() and rng.random() < 0.4 else c for c in h)
    if rng.random() < 0.12:
        h += b"."
    r = rng.random()
    if r < 0.5:
        h += rng.choice(PORTS)
    elif r < 0.56 and not (flags & 6):
        h += rng.choice(PORTS_LENIENT)
    if not (flags & 6) and rng.random() < 0.06:
        h = rng.choice(V6_HOSTS)
    return h


IP_SCOPES = [(False, "192.168.0.0/16"), (True, "10.0.0.0/8"), (False, "203.0.113.9"), (True, "127.0.0.1"),
             (False, "2001:db8::/32"), (True, "10.1.0.0/16"), (False, "10.9.9.9"), (False, "0.0.0.0/1")]
FWD_SETS = [[(b"10.0.0.1", b"trust")], [(b"10.0.0.1", b"trust"), (b"10.1.0.0/16", b"trust")],
            [(b"all", b"trust")], [(b"10.0.0.1", b"trust"), (b"10.0.0.3", b"untrusted")],
            [(b"2001:db8::/32", b"trust"), (b"10.0.0.1", b"Trust")], [(b"10.0.0.0/8", b"trust"), (b"10.0.0.2", b"no")],
            [(b"10.0.0.1", b"trust"), (b"192.168.7.7", b"trust"), (b"[2001:db8::5]/128", b"trust")]]
PEERS = [b"10.0.0.1", b"10.0.0.2", b"10.1.2.3", b"192.168.7.7", b"203.0.113.9", b"127.0.0.1", b"2001:db8::1",
         b"::1", b"10.9.9.9"]
CHAIN_IPS = [b"10.0.0.1", b"10.0.0.2", b"10.1.2.3", b"192.168.7.7", b"192.168.1.1", b"203.0.113.9", b"10.9.9.9",
             b"127.0.0.1", b"2001:db8::1", b"2001:db8::5", b"::1", b"8.8.8.8", b"10.0.0.3", b"172.16.0.9"]
GARBAGE = [b"unknown", b"_hidden", b"1.2.3", b"999.1.1.1", b"1.2.3.4.5", b":::", b"", b"abc", b"10.0.0.01",
           b"0x0a.0.0.1", b"1.2.3.4:80", b"[::1]", b"fe80::1;eth0", b"12345", b"a.b.c.d", b"10.0.0.1.",
           b"010.0.0.1", b"::ffff:10.0.0.1", b"::ffff:10.0.0.2", b"1::2::3", b"10.0.0.1/8", b"/run/sock"]


AUTH_USER_SETS = [[(b"/secret/sub/", [b"admin"]), b"/secret/"], [(b"/private", [b"admin", b"bob"])],
                  [(b"/secret/", [b"alice"]), (b"/private", [b"admin"])], [(b"/", [b"bob"])],
                  [(b"/dir/", [b"alice", b"admin"]), b"/pub/"]]
# (limits only) an earlier, weaker rule whose prefix reaches into the path-info of a file
AUTH_ORDER_LIMIT = [[b"/secret/key.html/pub", (b"/secret/", [b"admin"])], [b"/app.php/open", (b"/", [b"admin"])]]
IPRE_SCOPES = [("cp", b"10."), ("cp", b"192.168."), ("cs", b".9"), ("cp", b"2001:db8:")]


def rand_scope(rng, lc, limits):
    k = rng.random()
    if k < 0.42:
        if lc and not limits:
            if rng.random() < 0.6:
                rk, lit = rng.choice(RE_SCOPES)
                return Scope("R", rkind=rk, val=lit, neg=rng.random() < 0.15)
            op, v = rng.choice(URL_SCOPES_NOLETTER)
            return Scope("U", op=op, val=v)
        if rng.random() < 0.25:
            rk, lit = rng.choice(RE_SCOPES + [("sub", b"secret"), ("sub", b"/x.")])
            return Scope("R", rkind=rk, val=lit, neg=rng.random() < 0.15)
        op, v = rng.choice(URL_SCOPES_CS)
        return Scope("U", op=op, val=v)
    if k < 0.68:
        if rng.random() < 0.3:
            rk, v = rng.choice(HOST_RE_SCOPES)
            return Scope("Q", rkind=rk, val=v, neg=rng.random() < 0.25)
        op, v = rng.choice(HOST_SCOPES)
        return Scope("H", op=op, val=v)
    if k < 0.76:
        rk, v = rng.choice(IPRE_SCOPES)
        return Scope("J", rkind=rk, val=v, neg=rng.random() < 0.3)
    neg, net = rng.choice(IP_SCOPES)
    return Scope("I", neg=neg, net=net)


def url_atoms(b):
    return [(neg, sc) for neg, sc in b.parts() if sc.kind in "UR"]


def rand_blocks(rng, lc, limits=False):
    """a configuration whose rules are all of the kinds the property claims robust.
    limits=True additionally uses the constructions lighttpd does not make robust
    (letter-bearing url conditions under force-lowercase; url conditions guarding auth that do not
    survive an appended path-info; an earlier weaker auth rule reaching into a path-info).
    Blocks may be nested in one another and chained with else."""
    g = Block(Scope("G"))
    r = rng.random()
    if r < 0.45:
        g.deny = rng.choice(DENY_SETS)
    elif r < 0.6:
        g.allow = rng.choice(ALLOW_SETS)
    if rng.random() < 0.35:
        g.auth = rng.choice(AUTH_SETS + AUTH_USER_SETS + (AUTH_ORDER_LIMIT if limits else []))
    if rng.random() < 0.35:
        g.excl = rng.choice(EXCL_SETS)
    if rng.random() < 0.08:
        g.npi = True
    if rng.random() < 0.6:
        g.fwd = rng.choice(FWD_SETS)
        if rng.random() < 0.4:
            g.fhdrs = rng.choice([[b"Forwarded"], [b"Forwarded", b"X-Forwarded-For"], [b"X-Real-IP"],
                                  [b"X-Forwarded-For", b"Forwarded"]])
    blocks = [g]
    head = None                     # the block the next one may be nested in / chained to
    for _ in range(rng.choice([0, 1, 1, 2, 2, 3, 4])):
        r = rng.random()
        parent = prev = None
        if head is not None and r < 0.22:
            parent = head
        elif head is not None and r < 0.44 and not any(c.prev is head for c in blocks):
            prev, parent = head, head.parent
        if prev is not None and rng.random() < 0.3:
            sc = Scope("E")
        else:
            sc = rand_scope(rng, lc, limits)
            if sc.ident() in [x.scope.ident() for x in blocks]:
                # the parser merges blocks with the same condition, and keys a plain else by the
                # negated operator of the block it follows: one block per (variable, value)
                continue
        b = Block(sc, parent=parent, prev=prev)
        ua = url_atoms(b)
        r = rng.random()
        if r < 0.5:
            b.deny = rng.choice(DENY_SETS + [[b""], [b""], []])
        elif r < 0.62:
            b.allow = rng.choice(ALLOW_SETS + [[]])
        elif r < 0.8:
            # auth rules only where the condition still holds when a path-info is appended: no URL
            # condition other than a positive `=^` (regular expressions do not qualify: PCRE2 in UTF mode
            # refuses a subject with a stray byte such as %80 in the path-info)
            monotone = all(not neg and sc_.kind == "U" and sc_.op == "p" for neg, sc_ in ua)
            if monotone or limits:
                b.auth = rng.choice(AUTH_SETS + AUTH_USER_SETS)
            else:
                b.deny = [b""]
        elif r < 0.9:
            b.excl = rng.choice(EXCL_SETS + [[]])
        else:
            b.npi = rng.random() < 0.7
        if rng.random() < 0.15:
            b.deny = b.deny if b.deny is not None else rng.choice(DENY_SETS)
        if not ua and rng.random() < 0.4:
            # an extforward directive makes mod_extforward evaluate (and cache) this condition with the
            # TCP peer's address before it changes the address
            b.fhdrs = rng.choice([[b"X-Forwarded-For", b"Forwarded"], [b"Forwarded"], [b"X-Forwarded-For"]])
        blocks.append(b)
        head = None if sc.kind == "E" else b          # (nothing may follow a plain else)
    return order_blocks(blocks)


def order_blocks(blocks):
    """file order: a block, the blocks nested in it, then its else-branch"""
    out = []

    def put(b):
        out.append(b)
        for c in blocks:
            if c.parent is b and c.prev is None:
                put(c)
        for c in blocks:
            if c.prev is b:
                put(c)
    for b in blocks:
        if b.parent is None and b.prev is None:
            put(b)
    return out


def heavy_forwarded(rng, trusted_pool):
    """a well-formed Forwarded header whose parameter count is near the capacity of
    mod_extforward's offsets[256] (4 slots per param, 1 per ','): client-supplied elements with many
    params, then what the trusted proxies append"""
    def elem(ip, nparams):
        ps = [b"p%d=v%d" % (i, i) for i in range(nparams - 1)]
        ps.insert(rng.randint(0, len(ps)), b"for=" + ip)
        return b";".join(ps)
    els = []
    shape = rng.random()
    if shape < 0.6:
        els.append(elem(rng.choice(CHAIN_IPS), rng.randint(56, 68)))
    elif shape < 0.8:
        tot = rng.randint(56, 70)
        k = rng.randint(1, tot - 1)
        els += [elem(rng.choice(CHAIN_IPS), k), elem(rng.choice(CHAIN_IPS), tot - k)]
    else:
        els += [b"for=" + rng.choice(CHAIN_IPS) for _ in range(rng.randint(46, 54))]
    els.append(b"for=" + rng.choice(CHAIN_IPS))                  # appended by the first proxy
    for _ in range(rng.choice([0, 0, 1, 2])):
        if trusted_pool:
            els.append(b"for=" + rng.choice(trusted_pool))
    return b"Forwarded", rng.choice([b", ", b","]).join(els)


def rand_chain_header(rng, trusted_pool):
    """(header name, value): X-Forwarded-For or Forwarded chain, mostly well-formed"""
    if rng.random() < 0.04:
        return heavy_forwarded(rng, trusted_pool)
    n = rng.choice([1, 1, 2, 2, 3, 4, 6])
    ips = []
    for i in range(n):
        r = rng.random()
        if r < 0.45 and trusted_pool:
            ips.append(rng.choice(trusted_pool))
        elif r < 0.9:
            ips.append(rng.choice(CHAIN_IPS))
        else:
            ips.append(rng.choice(GARBAGE))
    if rng.random() < 0.5:
        sep = rng.choice([b", ", b",", b" , ", b"  "])
        return rng.choice([b"X-Forwarded-For", b"X-Forwarded-For", b"Forwarded-For", b"X-Real-IP"]), sep.join(ips)
    els = []
    for ip in ips:
        if b":" in ip and rng.random() < 0.9:
            v = b'"[' + ip + b']' + rng.choice([b"", b":4711"]) + b'"'
        elif rng.random() < 0.3:
            v = b'"' + ip + rng.choice([b"", b":80"]) + b'"'
        else:
            v = ip
        e = rng.choice([b"for=", b"for=", b"For=", b"FOR="]) + v
        if rng.random() < 0.3:
            e += rng.choice([b";proto=https", b";by=10.0.0.1", b";host=h.example"])
        if rng.random() < 0.1:
            e = rng.choice([b"proto=http;", b"by=1.1.1.1;"]) + e
        els.append(e)
    v = rng.choice([b", ", b",", b" , "]).join(els)
    if rng.random() < 0.12:
        v = mutate(rng, v, FWD_ALPHA)
    return b"Forwarded", v


FWD_ALPHA = [b"f", b"o", b"r", b"=", b";", b",", b'"', b"\\", b" ", b"1", b".", b"[", b"]", b":", b"_", b"u", b"F",
             b"\t", b"for=", b"10.0.0.1", b"unknown", b'""']


def mutate(rng, s, alpha):
    s = bytearray(s)
    for _ in range(rng.randint(1, 3)):
        k = rng.randint(0, 2)
        pos = rng.randint(0, len(s))
        if k == 0 and s:
            del s[min(pos, len(s) - 1)]
        elif k == 1:
            s[pos:pos] = rng.choice(alpha)
        elif s:
            i = min(pos, len(s) - 1)
            s[i:i + 1] = rng.choice(alpha)
    return bytes(s)


def trusted_pool(fwd):
    if fwd is None:
        return []
    out = []
    for k, v in fwd:
        if v.lower() != b"trust":
            continue
        if k == b"all":
            continue
        if b"/" in k:
            n = ipaddress.ip_network(k.decode().replace("[", "").replace("]", ""), strict=False)
            out.append(str(n.network_address + 5).encode())
        else:
            out.append(k)
    return out


def rand_request(rng, cfg, base=None, depth=None):
    g = cfg.blocks[0]
    pool = trusted_pool(g.fwd)
    base = base or rng.choice(FILES)
    depth = rng.choice([0, 1, 1, 2, 2, 3, 4]) if depth is None else depth
    target = respell(rng, base, depth)
    kind = 1 if rng.random() < 0.6 else 2
    peer = rng.choice(pool) if pool and rng.random() < 0.5 else rng.choice(PEERS)
    host = spell_host(rng, rng.choice(HOSTS), cfg.flags)
    fields = []
    if rng.random() < 0.55:
        fields.append(rand_chain_header(rng, pool))
        if rng.random() < 0.1:
            fields.append(rand_chain_header(rng, pool))
    r = rng.random()
    if r < 0.2:
        fields.append((b"Authorization", GOOD_CRED))
    elif r < 0.32:
        fields.append((b"Authorization", rng.choice([ADMIN_CRED, BOB_CRED])))
    elif r < 0.4:
        fields.append((b"Authorization", BAD_CRED))
    absolute = None
    if kind == 1:
        if rng.random() < 0.15 and target.startswith(b"/"):
            absolute = spell_host(rng, rng.choice(HOSTS), cfg.flags)
            host = None if rng.random() < 0.7 else absolute
        # h1 line syntax: SP, CR, LF and NUL cannot be written inside the target of a valid line
        if any(c in target for c in b" \r\n"):
            kind = 2
    if kind == 2:
        absolute = None
        host = host or b"www.example"
        fields = [(k, v) for k, v in fields]
    return Request(kind, peer, target, host, fields, absolute)


def srv_lines(ctx, root, n_cfg, per_line, limits=False):
    rng = ctx.rng
    lines = []
    for _ in range(n_cfg):
        lc = rng.random() < 0.4
        cfg = Config(rand_blocks(rng, lc, limits), rng.choice(PROFILES), lc)
        base = rng.choice(FILES)
        reqs = []
        for i in range(per_line):
            # half of the requests are respellings of one (probably protected) resource
            reqs.append(rand_request(rng, cfg, base if i % 2 == 0 else None))
        line = cfg.head(root) + " " + " ".join(r.tok() for r in reqs)
        _cases[line] = (cfg, reqs)
        lines.append(line)
    return lines


def closure_lines(ctx, root, depth, per_cfg):
    """fixed, hand-written protections x systematic respelling closure"""
    rng = ctx.rng
    protections = [
        ("deny-suffix", [Block(Scope("G"), deny=[b"~", b".inc", b".htpasswd"])], [b"/dir/x.inc", b"/notes.txt~", b"/pub/.htpasswd"]),
        ("allow-list", [Block(Scope("G"), allow=[b".html"])], [b"/a.txt", b"/app.php", b"/private/data.bin"]),
        ("exclude-ext", [Block(Scope("G"), excl=[b".php", b".inc"])], [b"/app.php", b"/secret/run.php", b"/dir/x.inc"]),
        ("auth-prefix", [Block(Scope("G"), auth=[b"/secret/", b"/private"])], [b"/secret/key.html", b"/secret/sub/deep.txt", b"/private/data.bin"]),
        ("url-prefix-cond", [Block(Scope("G")), Block(Scope("U", op="p", val=b"/secret/"), deny=[b""])], [b"/secret/key.html", b"/secret/run.php"]),
        ("url-suffix-cond", [Block(Scope("G")), Block(Scope("U", op="s", val=b".inc"), deny=[b""])], [b"/dir/x.inc"]),
        ("url-eq-cond", [Block(Scope("G")), Block(Scope("U", op="e", val=b"/private/data.bin"), deny=[b""])], [b"/private/data.bin"]),
        ("url-regex-cond", [Block(Scope("G")), Block(Scope("R", rkind="cs", val=b".php"), deny=[b""])], [b"/app.php", b"/secret/run.php"]),
        ("host-cond", [Block(Scope("G")), Block(Scope("H", op="e", val=b"www.example"), deny=[b".txt"])], [b"/a.txt", b"/pub/readme.txt"]),
        ("host-eq-block", [Block(Scope("G")), Block(Scope("H", op="e", val=b"secure.example"), deny=[b""])],
         [b"/secret/key.html", b"/index.html"]),
        ("host-ne-block", [Block(Scope("G")), Block(Scope("H", op="n", val=b"www.example"), auth=[b"/"])],
         [b"/private/data.bin", b"/index.html"]),
        ("host-re-block", [Block(Scope("G")), Block(Scope("Q", rkind="hp", val=b"secure.example"), auth=[b"/secret"],
                                                    deny=[b".php"])],
         [b"/secret/key.html", b"/app.php"]),
        ("ip-cond", [Block(Scope("G"), fwd=[(b"10.0.0.1", b"trust")]),
                     Block(Scope("I", neg=True, net="10.0.0.0/8"), deny=[b""], fhdrs=[b"X-Forwarded-For", b"Forwarded"])],
         [b"/index.html", b"/007/plan.txt"]),
    ]
    lines = []
    for name, blocks, bases in protections:
        for lc in (False, True):
            if lc and name in ("url-prefix-cond", "url-suffix-cond", "url-eq-cond"):
                continue       # (url conditions are case-sensitive: see the limits stream)
            for prof in PROFILES:
                cfg = Config(blocks, prof, lc)
                for base in bases:
                    reqs = []
                    seen = set()
                    for d in range(0, depth + 1):
                        for _ in range(per_cfg if d else 1):
                            t = respell(rng, base, d)
                            if t in seen:
                                continue
                            seen.add(t)
                            for kind in (1, 2):
                                if kind == 1 and any(c in t for c in b" \r\n"):
                                    continue
                                peer = rng.choice([b"203.0.113.9", b"10.0.0.1"])
                                fl = []
                                if name == "ip-cond":
                                    fl = [rng.choice([(b"X-Forwarded-For", b"10.9.9.9"),
                                                      (b"X-Forwarded-For", b"203.0.113.9, 10.0.0.1"),
                                                      (b"X-Forwarded-For", b"10.9.9.9, 203.0.113.9"),
                                                      (b"Forwarded", b"for=10.9.9.9"), (b"X-Forwarded-For", b"10.0.0.1")])]
                                if name.startswith("host-"):
                                    # every spelling of the protected vhost's authority, through all three
                                    # entries: Host field, absolute-form target, HTTP/2 :authority
                                    h = spell_host(rng, b"secure.example", cfg.flags)
                                    if kind == 1 and t.startswith(b"/") and rng.random() < 0.35:
                                        reqs.append(Request(1, peer, t, None if rng.random() < 0.6 else h, fl, absolute=h))
                                    else:
                                        reqs.append(Request(kind, peer, t, h, fl))
                                    continue
                                reqs.append(Request(kind, peer, t, rng.choice([b"www.example", b"WWW.example:80"]), fl))
                    for i in range(0, len(reqs), 24):
                        part = reqs[i:i + 24]
                        line = cfg.head(root) + " " + " ".join(r.tok() for r in part)
                        _cases[line] = (cfg, part)
                        lines.append(line)
    return lines


# ---- building blocks -----------------------------------------------------------------------------
MATCH_ALPHA = [b"a", b"A", b"/", b".", b"@", b"`", b"[", b"{", b"\xc1", b"\xe1", b"z", b"Z"]


def match_lines(ctx):
    rng = ctx.rng
    lines = []
    n = 3 if ctx.quick else 4
    strs = [b"".join(t) for k in range(0, n + 1) for t in itertools.product(MATCH_ALPHA[:8 if ctx.quick else 12], repeat=k)]
    short = [s for s in strs if len(s) <= 2]
    # every (rule, path) pair: rule up to 2 symbols, path up to n symbols
    for v in short:
        for p in strs:
            if len(p) > 3:
                continue
            for nc in (0, 1):
                lines.append("sfx %d %s %s" % (nc, hx(p), hx(v)))
                lines.append("kpfx %d %s %s" % (nc, hx(p), hx(v)))
    for p in strs:
        lines.append("lcs " + hx(p))
    words = [b"/secret/", b"/Secret", b".php", b".PHP", b"~", b"", b".inc", b"/a", b"/A/b", b"x.txt", b".TXT",
             b"/secret/key.html", b"html", b"/", b".Php", b"@home", b"`home", b"[1]", b"{1}"]
    paths = FILES + [f.upper() for f in FILES] + [b"/", b"", b"/a", b"/secret", b"/SECRET/KEY.HTML/", b"/app.PHP",
                                                   b"/x@HOME", b"/x`home", b"/q[1]", b"/q{1}", b"/A/B/c"]
    for _ in range(6000 if ctx.quick else 60000):
        k = rng.randint(0, 4)
        vs = rng.sample(words, k)
        p = rng.choice(paths)
        if rng.random() < 0.3:
            p = t_case(rng, p)
        op = rng.choice(["sfx", "vpfx", "kpfx", "ksfx", "poe", "chk"])
        if op in ("kpfx", "ksfx", "poe"):
            # array keys are unique up to ASCII case
            uniq = []
            for v in vs:
                if lower(v) not in [lower(u) for u in uniq]:
                    uniq.append(v)
            vs, k = uniq, len(uniq)
        if op == "poe":
            lines.append(("poe %s %s" % (hx(p), " ".join(hx(v) for v in vs))).rstrip())
        elif op == "chk":
            na = rng.randint(0, k)
            lines.append(("chk %d %s %d %s" % (rng.randint(0, 1), hx(p), na, " ".join(hx(v) for v in vs))).rstrip())
        else:
            lines.append(("%s %d %s %s" % (op, rng.randint(0, 1), hx(p), " ".join(hx(v) for v in vs))).rstrip())
    return lines


def lower(b):
    return bytes(c | 0x20 if 65 <= c <= 90 else c for c in b)


def match_oracle(line, out):
    t = line.split(" ")
    if t[0] in ("sfx", "ksfx", "vpfx", "kpfx"):
        nc = t[1] == "1"
        p = unhx(t[2])
        vs = [unhx(x) for x in t[3:]]
        if nc:
            p, vs = lower(p), [lower(v) for v in vs]
        f = (lambda v: p.endswith(v)) if t[0] in ("sfx", "ksfx") else (lambda v: p.startswith(v))
        want = next((i for i, v in enumerate(vs) if f(v)), -1)
        if out != str(want):
            return verdict("array_match_%s: not the first (case-folded) %s match" % (t[0], "suffix" if "sfx" in t[0] else "prefix"),
                           "%s -> %s, property says %d" % (line, out, want))
    elif t[0] == "chk":
        lc = t[1] == "1"
        p = unhx(t[2])
        na = int(t[3])
        vs = [unhx(x) for x in t[4:]]
        allow, deny = vs[:na], vs[na:]
        if lc:
            p, allow, deny = lower(p), [lower(v) for v in allow], [lower(v) for v in deny]
        if allow:
            want = any(p.endswith(v) for v in allow)
        else:
            want = not any(p.endswith(v) for v in deny)
        if out != ("1" if want else "0"):
            return verdict("mod_access_check: decision differs from the allow/deny suffix rule",
                           "%s -> %s, property says %d" % (line, out, want))
    elif t[0] == "lcs":
        if unhx(out) != lower(unhx(t[1])):
            return verdict("lower-casing differs from ASCII tolower", line)
    return None


def match_classify(line, out):
    t = line.split(" ")
    if t[0] == "lcs":
        return "lcs:" + ("same" if out == t[1] else "chg")
    nc = t[1] if t[0] != "poe" else "-"
    return "%s:%s:%s:n%d" % (t[0], nc, out if out in ("-1", "0", "1") else "k", min(len(t) - 3, 3))


ADDR_SAMPLES = [b"1.2.3.4", b"255.255.255.255", b"256.1.1.1", b"1.2.3", b"1.2", b"1", b"01.2.3.4", b"1.2.3.04",
                b"0.0.0.0", b"1.2.3.4.", b".1.2.3.4", b"1..2.3", b"0x7f.1", b"0x7f.0.0.1", b"0177.0.0.1", b"08.1.1.1",
                b"4294967295", b"4294967296", b"1.16777215", b"1.16777216", b"1.2.65535", b"1.2.65536", b"",
                b"::", b"::1", b"1::", b"1::2", b"::ffff:1.2.3.4", b"1:2:3:4:5:6:7:8", b"1:2:3:4:5:6:7::", b"1:2:3:4:5:6:7:8:9",
                b"::1:2:3:4:5:6:7", b"1:2:3:4:5:6:7::8", b":::", b"1:::2", b":1", b"1:", b"12345::", b"g::", b"::1.2.3.4",
                b"1:2:3:4:5:6:1.2.3.4", b"1:2:3:4:5:6:7:1.2.3.4", b"::1.2.3", b"::1.2.3.4.5", b"2001:DB8::a", b"fe80::1%eth0",
                b"::ffff:01.2.3.4", b"1.2.3.4:80", b"[::1]", b"abc", b"0x", b"0", b"00", b"0.0", b"1.2.3.4 ", b" 1.2.3.4",
                b"1::2::3", b"::0:0:0:0:0:0:0:0", b"0:0:0:0:0:0:0:0::", b"ffff:ffff:ffff:ffff:ffff:ffff:255.255.255.255",
                b"1.2.3.4::", b"::1.", b"a.b.c.d", b"1.2.3.a", b"0X1.2.3.4", b"1.0x", b"0x1g", b"1e1", b"+1.2.3.4", b"-1"]
ADDR_ALPHA = [b"1", b"0", b"9", b"a", b"f", b":", b".", b"x", b"::", b"255", b"256", b"08", b"%", b"g"]


def addr_lines(ctx):
    rng = ctx.rng
    lines = []
    for s in ADDR_SAMPLES:
        lines.append("pton " + hx(s))
        if b"%" not in s:          # (scope ids depend on the interfaces of the machine)
            lines.append("gai " + hx(s))
    n = 4 if ctx.quick else 5
    for k in range(1, n + 1):
        for t in itertools.product(ADDR_ALPHA[:9], repeat=k):
            s = b"".join(t)
            lines.append("pton " + hx(s))
            if k <= n - 1:
                lines.append("gai " + hx(s))
    for _ in range(4000 if ctx.quick else 40000):
        s = mutate(rng, rng.choice(ADDR_SAMPLES + CHAIN_IPS), ADDR_ALPHA)
        if b"\x00" in s or b"%" in s:
            continue
        lines.append("%s %s" % (rng.choice(["pton", "gai"]), hx(s)))
    return lines


U8_ALPHA = [0x41, 0x7f, 0x80, 0x8f, 0x90, 0x9f, 0xa0, 0xbf, 0xc0, 0xc1, 0xc2, 0xdf, 0xe0, 0xe1, 0xec, 0xed, 0xee, 0xef,
            0xf0, 0xf1, 0xf3, 0xf4, 0xf5, 0xf7, 0xf8, 0xfb, 0xfc, 0xff]


def utf8_lines(ctx):
    """is a URL visible to PCRE2 (UTF mode) conditions?  every string over the boundary bytes of
    RFC 3629 up to length 3 (quick) / 4, plus random longer ones"""
    rng = ctx.rng
    lines = []
    for k in range(0, (3 if ctx.quick else 4) + 1):
        for t in itertools.product(U8_ALPHA, repeat=k):
            lines.append("utf8 " + hx(bytes(t)))
    good = ["a", "\u00e9", "\u20ac", "\U0001f600", "\u07ff", "\u0800", "\ud7ff", "\ue000", "\U0010ffff", "/"]
    for _ in range(5000 if ctx.quick else 50000):
        s = "".join(rng.choice(good) for _ in range(rng.randint(1, 6))).encode("utf-8")
        if rng.random() < 0.7:
            s = mutate(rng, s, [bytes([c]) for c in U8_ALPHA])
        if b"\x00" not in s:
            lines.append("utf8 " + hx(s))
    return lines


def addr_oracle(line, out):
    t = line.split(" ")
    if t[0] == "utf8":
        try:
            unhx(t[1]).decode("utf-8")
            want = "1"
        except UnicodeDecodeError:
            want = "0"
        if out != want:
            return verdict("PCRE2 UTF check differs from RFC 3629 well-formedness", "%s -> %s" % (line, out))
        return None
    t = line.split(" ")
    s = unhx(t[1])
    if t[0] == "pton":
        # independent statement: inet_pton accepts exactly the canonical textual forms
        try:
            a = ipaddress.ip_address(s.decode("ascii"))
            ok = True
            if a.version == 4 and re.search(rb"(^|\.)0\d", s):
                ok = False
        except (ValueError, UnicodeDecodeError):
            ok, a = False, None
        if b"%" in s:
            return None
        if ok and a.version == 6 and re.search(rb"(^|[:.])0\d*\.|\.0\d", s):
            return None            # (python and glibc differ on zero-padded embedded IPv4)
        if ok and out != "%d %s" % (a.version, a.packed.hex()):
            return verdict("inet_pton: wrong address", "%r -> %s, expected %s" % (s, out, a.packed.hex()))
        if not ok and out != "none" and a is None:
            return verdict("inet_pton: accepts a non-canonical literal", "%r -> %s" % (s, out))
    return None


def addr_classify(line, out):
    t = line.split(" ")
    if t[0] == "utf8":
        return "utf8:%s:len%d" % (out, min(len(t[1]) // 2, 5))
    s = unhx(t[1])
    return "%s:%s:%s" % (t[0], out.split(" ")[0], "v6" if b":" in s else ("dots%d" % min(s.count(b"."), 4)))


def fwd_tok(fwd):
    return ",".join("%s=%s" % (hx(k), hx(v)) for k, v in fwd) if fwd else "-"


_xff_cases = {}


def xff_lines(ctx):
    rng = ctx.rng
    lines = []
    alpha = [b"1", b"a", b"g", b":", b".", b",", b" ", b"F"]
    n = 5 if ctx.quick else 6
    for k in range(0, n + 1):
        for t in itertools.product(alpha, repeat=k):
            lines.append("xfa " + hx(b"".join(t)))
    for fwd in FWD_SETS:
        for ip in CHAIN_IPS + GARBAGE + PEERS:
            if ip and b"\x00" not in ip:
                lines.append("trust %s %s" % (fwd_tok(fwd), hx(ip)))
                lines.append("trust %s %s" % (fwd_tok(fwd), hx(ip.upper())))
    # exhaustive short Forwarded values from a trusted peer
    f1 = [(b"10.0.0.1", b"trust")]
    small = [b"for=", b"7", b",", b";", b'"', b"\\", b" ", b"10.0.0.1", b"=", b"[", b"]", b":", b"_", b"by"]
    m = 4 if ctx.quick else 5
    for k in range(0, m + 1):
        for t in itertools.product(small[:11 if ctx.quick else 14], repeat=k):
            v = b"".join(t)
            line = "xff %s %s %s %s:%s" % (fwd_tok(f1), hx(b"Forwarded"), hx(b"10.0.0.1"), hx(b"Forwarded"), hx(v))
            if v:
                lines.append(line)
                _xff_cases[line] = (f1, [b"Forwarded"], b"10.0.0.1", [(b"Forwarded", v)])
    for _ in range(60000 if ctx.quick else 600000):
        fwd = rng.choice(FWD_SETS + [None])
        pool = trusted_pool(fwd)
        hdrs = rng.choice([None, None, [b"Forwarded"], [b"Forwarded", b"X-Forwarded-For"], [b"X-Real-IP", b"Forwarded"]])
        peer = rng.choice(pool) if pool and rng.random() < 0.6 else rng.choice(PEERS)
        fields = [rand_chain_header(rng, pool)]
        if rng.random() < 0.2:
            fields.append(rand_chain_header(rng, pool))
        if rng.random() < 0.1:
            k, v = fields[0]
            fields[0] = (k, mutate(rng, v, FWD_ALPHA))
        fields = [(k, v.replace(b"\x00", b"")) for k, v in fields if v.replace(b"\x00", b"").strip(b" \t")]
        if not fields:
            continue
        line = "xff %s %s %s %s" % (fwd_tok(fwd), ",".join(hx(h) for h in hdrs) if hdrs else "-", hx(peer),
                                    ";".join("%s:%s" % (hx(k), hx(v)) for k, v in fields))
        _xff_cases[line] = (fwd, hdrs, peer, fields)
        lines.append(line)
    # well-formed Forwarded headers near the capacity of offsets[]: 400 or the reference address
    for _ in range(4000 if ctx.quick else 40000):
        fwd = rng.choice(FWD_SETS)
        pool = trusted_pool(fwd)
        peer = rng.choice(pool) if pool else rng.choice(PEERS)
        fields = [heavy_forwarded(rng, pool)]
        line = "xff %s %s %s %s" % (fwd_tok(fwd), hx(b"Forwarded"), hx(peer),
                                    ";".join("%s:%s" % (hx(k), hx(v)) for k, v in fields))
        _xff_cases[line] = (fwd, [b"Forwarded"], peer, fields)
        lines.append(line)
    # long Forwarded headers around the offsets[] limit
    for npar in (60, 62, 63, 64, 65, 70, 126, 127, 128, 250, 252, 253, 254, 255, 256, 260):
        for sep in (b";", b","):
            v = sep.join([b"for=10.0.0.1"] * npar)
            for lead in (b"for=9.9.9.9" + sep, b""):
                line = "xff %s %s %s %s:%s" % (fwd_tok(f1), hx(b"Forwarded"), hx(b"10.0.0.1"), hx(b"Forwarded"), hx(lead + v))
                lines.append(line)
    return lines


def xff_oracle(line, out):
    t = line.split(" ")
    if t[0] == "xfa":
        s = unhx(t[1])
        toks = [unhx(x) for x in out.split(",")] if out != "-" else []
        # property: tokens are exactly the maximal runs of [0-9a-fA-F:.] that start with a hex digit or ':'
        want = [m.group(0) for m in re.finditer(rb"[0-9a-fA-F:][0-9a-fA-F:.]*", s)]
        if toks != want:
            return verdict("extract_forward_array: tokens are not the maximal address-character runs",
                           "%r -> %r, property says %r" % (s, toks, want))
        return None
    if t[0] != "xff" or line not in _xff_cases or out in ("config-error", "bad-op", "bad-peer"):
        return None
    fwd, hdrs, peer, fields = _xff_cases[line]
    o = out.split(" ")
    addr = unhx(o[2]) if o[2] != "=" else None
    cfg = Config([Block(Scope("G"), fwd=fwd, fhdrs=hdrs)], [], False)
    rq = Request(2, peer, b"/", b"h", fields)
    want, exact, may400 = ref_addr(cfg, rq, b"/")
    got = addr if addr is not None else peer
    if o[1] == "400":
        if addr is not None:
            return verdict("mod_extforward: 400 but the address was changed", line)
        return None
    if exact and got != want:
        return verdict("mod_extforward: address used is not the reference address (TCP peer, or right-most "
                       "untrusted hop behind a trusted forwarder)",
                       "used %r, reference %r, forwarder %r, peer %r, fields %r" % (got, want, fwd, peer, fields))
    if addr is not None:
        if fwd is None or not ref_peer_trusted(fwd, peer):
            return verdict("mod_extforward: address taken from a header of an untrusted peer",
                           "used %r, forwarder %r, peer %r, fields %r" % (addr, fwd, peer, fields))
        if not any(addr in v for _, v in fields):
            return verdict("mod_extforward: address does not occur in the header", "used %r, fields %r" % (addr, fields))
    return None


def xff_classify(line, out):
    t = line.split(" ")
    if t[0] == "xfa":
        return "xfa:n%d" % (0 if out == "-" else min(out.count(",") + 1, 4))
    if t[0] == "trust":
        return "trust:%s:%s" % (out, "cidr" if "2f" in t[1] else "exact")
    ent = _xff_cases.get(line)
    o = out.split(" ")
    if ent is None or len(o) < 3:
        return "xff:long:" + out[:12]
    fwd, hdrs, peer, fields = ent
    tr = "nofwd" if fwd is None else ("trusted" if ref_peer_trusted(fwd, peer) else "untrusted")
    hn = fields[0][0].lower().decode()
    return "xff:%s:%s:%s:%s" % (tr, hn, o[1], "same" if o[2] == "=" else ("peer" if unhx(o[2]) == peer else "chg"))


# ----------------------------------------------------------------------------------------------
# known design limits of lighttpd that ARE violations of C03 as stated (listed in
# known_findings.json): one fixed scenario each, reported under the signatures known:L1- / L2- / L3-
# ----------------------------------------------------------------------------------------------
def known_scenarios(root):
    """[(signature, what, config, canonical request, bypass request, file)]"""
    peer = b"203.0.113.9"
    return [
        ("known:L1-pcre-utf-pathinfo",
         'auth.require inside `$HTTP["url"] =~ "(?i)^/secret/"` (PCRE2_UTF): GET /secret/key.html -> 401, but '
         "GET /secret/key.html/%80 (path-info that is not UTF-8: the regex does not match) -> 200 with the file",
         Config([Block(Scope("G")), Block(Scope("R", rkind="cp", val=b"/secret/"), auth=[b"/secret/"])], [], False),
         Request(1, peer, b"/secret/key.html"), Request(1, peer, b"/secret/key.html/%80"), b"/secret/key.html"),
        ("known:L2-urlcond-case-forcelowercase",
         '`$HTTP["url"] =^ "/secret/" { url.access-deny = ("") }` with server.force-lowercase-filenames: '
         "GET /secret/key.html -> 403, but GET /SECRET/key.html -> 200 with the same file",
         Config([Block(Scope("G")), Block(Scope("U", op="p", val=b"/secret/"), deny=[b""])], [], True),
         Request(1, peer, b"/secret/key.html"), Request(1, peer, b"/SECRET/key.html"), b"/secret/key.html"),
        ("known:L3-auth-before-pathinfo-split",
         'auth.require inside `$HTTP["url"] =$ ".php"`: GET /app.php -> 401, but GET /app.php/x (mod_auth runs '
         "before the path-info split only) -> 200 with the file",
         Config([Block(Scope("G")), Block(Scope("U", op="s", val=b".php"), auth=[b"/"])], [], False),
         Request(1, peer, b"/app.php"), Request(1, peer, b"/app.php/x"), b"/app.php"),
        ("known:L3-auth-before-pathinfo-split:rule-order",
         'auth.require = ("/secret/key.html/pub" => valid-user, "/secret/" => user=admin): user alice gets 401 for '
         "/secret/key.html, but /secret/key.html/pub is guarded by the earlier, weaker rule (first prefix match on "
         "the path before the path-info split) -> 200 with the file",
         Config([Block(Scope("G"), auth=[b"/secret/key.html/pub", (b"/secret/", [b"admin"])])], [], False),
         Request(1, peer, b"/secret/key.html", fields=[(b"Authorization", GOOD_CRED)]),
         Request(1, peer, b"/secret/key.html/pub", fields=[(b"Authorization", GOOD_CRED)]), b"/secret/key.html"),
    ]


def known_line(root, sc):
    sig, what, cfg, ra, rb, f = sc
    return cfg.head(root) + " " + ra.tok() + " " + rb.tok()


def known_witnessed(sc, out):
    """does the implementation output show the bypass of this scenario?"""
    sig, what, cfg, ra, rb, f = sc
    o = out.split(" ")
    if len(o) != 4:
        return False
    a, b = o[2].split(","), o[3].split(",")
    return a[0] in ("401", "403") and b[0] == "200" and b[4] == hx(f)


def run_known(ctx, exe, root):
    scs = known_scenarios(root)
    lines = [known_line(root, sc) for sc in scs]
    ctx.differential("srv(known findings L1-L3, fixed scenarios)", [exe], "access", lines, None,
                     lambda l, o: "known:" + ",".join(x.split(",")[0] for x in o.split(" ")[2:]))
    impl, rc, err = C.run_lines([exe], lines)
    for sc, line, out in zip(scs, lines, impl + [""] * (len(lines) - len(impl))):
        if known_witnessed(sc, out):
            ctx.violation(sc[0], sc[1], {"property": ctx.pid, "kind": "property-oracle", "known": sc[0],
                                         "correspondence": "srv(known findings L1-L3, fixed scenarios)",
                                         "input": line, "impl_obs": out, "oracle_verdict": sc[1],
                                         "conf": sc[2].text().decode()}, found=True)
        else:
            ctx.notes.append("%s: not witnessed on this tree (%s)" % (sc[0], out[:120]))


# ----------------------------------------------------------------------------------------------
# end to end (thorough tier): the same generated configurations and requests against the REAL server
# (sockets, h1.c / h2.c, connections.c, dlopen()ed modules); status and file sent vs the model
# ----------------------------------------------------------------------------------------------
def e2e_conf_body(cfg, root):
    t = ""
    if cfg.lc:
        t += 'server.force-lowercase-filenames = "enable"\n'
    t += profile_text(cfg.profile)
    t += 'auth.backend = "plain"\nauth.backend.plain.userfile = "%s"\n' % os.path.join(root, "users.txt")
    t += conf_blocks(cfg.blocks)
    return t


def e2e_h1(E, port, rq):
    t = rq.target
    if rq.absolute is not None:
        t = b"http://" + rq.absolute + t
    hdrs = b""
    if rq.host is not None:
        hdrs += b"Host: " + rq.host + b"\r\n"
    for k, v in rq.fields:
        hdrs += k + b": " + v + b"\r\n"
    raw = b"GET " + t + b" HTTP/1.1\r\n" + hdrs + b"Connection: close\r\n\r\n"
    buf, closed = E.h1_exchange(port, [raw], read_timeout=5.0)
    try:
        rs = [r for r in E.parse_responses(buf, closed=True) if r["status"] >= 200]
    except E.RespParseError as ex:
        return "unparsable:%s" % ex, None
    if len(rs) != 1:
        return "responses:%d" % len(rs), None
    return str(rs[0]["status"]), rs[0]["body"]


def e2e_h2(E, port, rq):
    c = E.H2Conn(port)
    try:
        c.request(1, "GET", rq.target, rq.host or b"www.example", [(k.lower(), v) for k, v in rq.fields])
        c.pump(3.0, until=lambda fr: any((f[0] in (0, 1) and f[2] == 1 and f[1] & 1) or f[0] in (3, 7) for f in fr))
        st = E.h2_collect(c.frames, c.hp).get(1)
    except Exception as ex:              # (malformed header block for the encoder etc.)
        return "client:%s" % type(ex).__name__, None
    finally:
        c.close()
    if not st or not st["headers"]:
        return "no-response", None
    code = dict(st["headers"]).get(b":status", b"?").decode()
    return code, st["body"]


def run_e2e(ctx, root):
    from .. import e2e as E
    bd, err = E.build_server()
    if bd is None:
        ctx.broken.append({"kind": "server-build", "names": ["lighttpd"], "log": (err or "")[-3000:]})
        return
    rng = ctx.rng
    peer = b"127.0.0.1"
    fwd_sets = [[(b"127.0.0.1", b"trust")], [(b"127.0.0.0/8", b"trust"), (b"10.0.0.1", b"trust")],
                [(b"10.0.0.1", b"trust")], [(b"all", b"trust")], None]
    ncfg, nreq = 60, 40
    cases = []
    for ci in range(ncfg):
        lc = rng.random() < 0.4
        blocks = rand_blocks(rng, lc)
        blocks[0].fwd = rng.choice(fwd_sets)
        cfg = Config(blocks, rng.choice(PROFILES), lc)
        base = rng.choice(FILES)
        reqs = []
        while len(reqs) < nreq:
            rq = rand_request(rng, cfg, base if len(reqs) % 2 == 0 else None)
            rq.peer = peer
            t = rq.target
            # keep to request-targets both clients can put on the wire as one token
            if any(c <= 32 or c >= 127 for c in t) or not t.startswith(b"/"):
                continue
            if any(any(c < 32 or c >= 127 for c in v) for _, v in rq.fields):
                continue
            reqs.append(rq)
        cases.append((cfg, reqs))
    lines = [cfg.head(root) + " " + " ".join(r.tok() for r in reqs) for cfg, reqs in cases]
    mo, rc, merr = C.run_lines([C.ltmodel_path(), "access"], lines)
    if rc != 0 or len(mo) != len(lines):
        ctx.broken.append({"kind": "model-run", "names": ["access e2e"], "log": merr[-2000:]})
        return
    ndis = nhit = n = 0
    for (cfg, reqs), line, m in zip(cases, lines, mo):
        if m in ("bad-op", "config-error"):
            ctx.broken.append({"kind": "model-run", "names": ["access e2e: " + m], "log": line[:400]})
            return
        srv = E.Server(bd, e2e_conf_body(cfg, root), root=root,
                       modules=("mod_access", "mod_auth", "mod_authn_file", "mod_extforward"))
        try:
            srv.start()
            obs = [(e2e_h1 if rq.kind == 1 else e2e_h2)(E, srv.port, rq) for rq in reqs]
        finally:
            srv.stop()
        rep = srv.sanitizer_report()
        if rep:
            ctx.violation("crash:e2e:" + rep[:60], "server crashed / sanitizer report in the e2e stream",
                          {"property": ctx.pid, "kind": "sanitizer-or-crash", "correspondence": "e2e",
                           "input": line, "stderr": rep[-4000:]}, found=False)
            return
        for rq, (st, body), mob in zip(reqs, obs, m.split(" ")[2:]):
            n += 1
            ctx.evaluations += 1
            mst, muri, mpi, maddr, mf = mob.split(",")
            ctx.keys["e2e:%d:%s:%s" % (rq.kind, st, "file" if st == "200" else "-")] += 1
            sent = body if st == "200" and body in FILES else None
            if sent is not None:
                addr, exact, _ = ref_addr(cfg, rq, unhx(muri) if muri != "-" else b"")
                if not exact:
                    # header outside the reference grammar: the address is not observable here; take the
                    # model's (validated against the implementation by the in-process streams)
                    addr = unhx(maddr)
                why = ref_authorised(cfg, rq, sent, addr)
                if why:
                    nhit += 1
                    ctx.violation("oracle:e2e:" + why, verdict("protected file sent (real server): " + why,
                                  "file %r, target %r (HTTP/%d), fields %r, config:\n%s"
                                  % (sent, rq.target, rq.kind, rq.fields, cfg.text().decode())),
                                  {"property": ctx.pid, "kind": "property-oracle", "correspondence": "e2e",
                                   "input": line, "request": rq.tok(), "impl_obs": "%s %r" % (st, body[:80]),
                                   "oracle_verdict": why}, found=True)
            want_file = unhx(mf) if mf != "-" else None
            if st != mst or (st == "200" and sent != want_file):
                ndis += 1
                if ndis <= 3:
                    ctx.violation("corr:e2e:%s" % ("status" if st != mst else "file"),
                                  "real server and model disagree (status %s vs %s)" % (st, mst),
                                  {"property": ctx.pid, "kind": "correspondence", "correspondence": "e2e",
                                   "input": line, "request": rq.tok(), "impl_obs": "%s %r" % (st, (body or b"")[:80]),
                                   "model_obs": mob, "conf": cfg.text().decode()}, found=False)
    ctx.streams.append({"name": "e2e(real lighttpd: h1 and h2 clients)", "cases": n, "disagreements": ndis,
                        "oracle_hits": nhit, "configs": ncfg})


def run(ctx):
    exe, err = build()
    if exe is None:
        ctx.broken.append({"kind": "harness-build", "names": ["h_access"], "log": (err or "")[-3000:]})
        return
    root = make_root()
    env = {"LTV_C03_ROOT": root}
    os.environ["LTV_C03_ROOT"] = root          # (parallel_lines() has no env parameter)
    q = ctx.quick
    ctx.differential("match(array_match_*, mod_access_check)", [exe], "access", match_lines(ctx),
                     match_oracle, match_classify)
    ctx.differential("addr(inet_pton, getaddrinfo numeric; PCRE2 UTF-8 check)", [exe], "access",
                     addr_lines(ctx) + utf8_lines(ctx), addr_oracle, addr_classify)
    ctx.differential("xff(extract, trust, X-Forwarded-For/Forwarded walk)", [exe], "access", xff_lines(ctx),
                     xff_oracle, xff_classify)
    lines = closure_lines(ctx, root, 4 if q else 7, 5 if q else 12)
    ctx.differential("srv(closure of respellings of protected resources)", [exe], "access", lines,
                     srv_oracle, srv_classify)
    lines = srv_lines(ctx, root, 6000 if q else 60000, 16)
    nreq = 16 * len(lines)
    ctx.differential("srv(random configurations)", [exe], "access", lines, srv_oracle, srv_classify)
    # the two constructions lighttpd does not make robust: differential only (no oracle); the Lean
    # counterexamples c03_url_cond_case_sensitive / c03_auth_suffix_cond_pathinfo state them
    run_known(ctx, exe, root)
    lines = srv_lines(ctx, root, 800 if q else 8000, 16, limits=True)
    ctx.differential("srv(known design limits, differential only)", [exe], "access", lines, None, srv_classify)
    if not q:
        run_e2e(ctx, root)
    ctx.exhaustive = False
    ctx.rule = ("cases: building-block calls (rule list, path), textual addresses, (forwarder set, peer, header "
                "fields), and whole requests = (generated lighttpd.conf parsed by the real parser, request "
                "spelling, entry protocol, peer, forwarded chain, credentials) run through the real plugin "
                "dispatch; distinct = (stream, parse options, lowercase flag, scope kinds, mechanisms, set of "
                "statuses) / (op, flags, outcome class) tuples observed")
    ctx.notes.append("every srv case is one generated configuration with 16-24 requests (%d requests in the random "
                     "stream); `evaluations` counts cases" % nreq)
    ctx.notes.append("protected-resource closure: 10 hand-written protections x %d parse-option profiles x "
                     "respellings composed to depth %d, both HTTP/1.x head and HTTP/2 pseudo-header entry"
                     % (len(PROFILES), 4 if q else 7))
    ctx.assumptions += [
        "header values are NUL-free (request parser: C01); libc inet_pton/getaddrinfo and PCRE2 are external",
        "auth.require credential checking is C16's; the condition cache is C14's (the reset after the "
        "path-info split and after mod_extforward's address change are exercised here through the real code)",
        "extforward.params (host=, remote_user=) and hap-PROXY are not enabled",
        "url conditions are case-sensitive and are not re-evaluated for mod_auth after the path-info split "
        "(design limits, stated as theorems and witnessed by the limits stream)"]


def parse_case(line):
    """rebuild (Config, [Request]) from an `srv` line (for replays: the oracle needs them)"""
    t = line.split(" ")
    sep = t.index("/")
    flags, lc = int(t[3]), t[4] == "1"

    def lst(x):
        return None if x == "~" else ([] if x == "." else [unhx(v) for v in x.split(",")])
    def atom(sc):
        if sc == "G":
            return Scope("G")
        if sc[0] in "UH":
            return Scope(sc[0], op=sc[1], val=unhx(sc.split(":")[1]))
        if sc[0] in "RQJ":
            _, rk, lit = sc.split(":")
            return Scope(sc[0], rkind=rk, val=unhx(lit), neg=sc[1] == "1")
        _, fam, a, bits = sc.split(":")
        net = str(ipaddress.ip_address(bytes.fromhex(a)))
        return Scope("I", neg=sc[1] == "1", net=net + ("/" + bits if bits != "0" else ""))

    def rules(x):
        if x in ("~", "."):
            return None if x == "~" else []
        out = []
        for r in x.split(","):
            if "@" in r:
                p_, us = r.split("@")
                out.append((unhx(p_), [unhx(u) for u in us.split("+")]))
            else:
                out.append(unhx(r))
        return out
    blocks = []
    for bt in t[6:sep]:
        sc, al, dn, au, ex, fw, fh, np_ = bt.split("|")
        fwd = None if fw == "~" else ([] if fw == "-" else [tuple(unhx(x) for x in e.split("=")) for e in fw.split(",")])
        blk = Block(Scope("G"), lst(al), lst(dn), rules(au), lst(ex), fwd, lst(fh), None if np_ == "~" else np_ == "1")
        prts = [(a_.startswith("!"), atom(a_.lstrip("!"))) for a_ in sc.split("&")]
        blk.parts = (lambda pr: (lambda: pr))(prts)
        blocks.append(blk)
    cfg = Config(blocks, [], lc)
    cfg.flags = flags
    cfg.text = lambda: unhx(t[1])
    reqs = []
    for rt in t[sep + 1:]:
        f = rt.split(",")
        if f[0] == "1":
            head = unhx(f[2])
            ls = head.split(b"\r\n")
            target = ls[0].split(b" ")[1]
            absolute = None
            m = re.match(rb"(?i)https?://([^/]*)(/.*)", target)
            if m:
                absolute, target = m.group(1), m.group(2)
            fields = [tuple(x.split(b": ", 1)) for x in ls[1:] if b": " in x]
            host = next((v for k, v in fields if k.lower() == b"host"), None)
            reqs.append(Request(1, unhx(f[1]), target, host, [(k, v) for k, v in fields if k.lower() != b"host"], absolute))
        else:
            fields = [] if f[5] == "-" else [tuple(unhx(x) for x in e.split(":")) for e in f[5].split(";")]
            reqs.append(Request(2, unhx(f[1]), unhx(f[3]), unhx(f[4]), fields))
    return cfg, reqs


def replay_line(ctx, rep):
    exe, err = build()
    root = make_root()
    env = {"LTV_C03_ROOT": root}
    line = rep["input"]
    # the docroot of the recorded run no longer exists: re-target the case at this run's tree
    t = line.split(" ")
    if t[0] == "srv" and len(t) > 2:
        t[2] = hx(os.path.join(root, "docroot"))
        line = " ".join(t)
    o, rc, e = C.run_lines([exe], [line], env=env)
    m, _, _ = C.run_model("access", [line])
    print("input:", line[:2000])
    print("impl :", o, rc)
    print("model:", m)
    if rc != 0:
        print(e[-3000:])
    if rep.get("known"):
        for sc in known_scenarios(root):
            if sc[0] == rep["known"] and o and known_witnessed(sc, o[0]):
                print("witnessed:", sc[1])
                if not ctx.violation(sc[0], sc[1], rep):
                    print("KNOWN-FINDING: property=%s %s" % (ctx.pid, ctx.known_hits[-1]["what"]))
                    return 0
                print("VIOLATION property=%s replay=%s" % (ctx.pid, "(replayed)"))
                return 1
    v = None
    if o and line.startswith("srv ") and not rep.get("known"):
        try:
            _cases[line] = parse_case(line)
            v = srv_oracle(line, o[0])
        except (ValueError, IndexError) as ex:
            print("(case not reconstructed for the oracle: %s)" % ex)
    elif o:
        op = line.split(" ")[0]
        if op in ("sfx", "vpfx", "kpfx", "ksfx", "poe", "chk", "lcs"):
            v = match_oracle(line, o[0])
        elif op in ("pton", "gai", "utf8"):
            v = addr_oracle(line, o[0])
        elif op in ("xfa", "xff"):
            if op == "xff":
                t = line.split(" ")
                fwd = None if t[1] == "-" else [tuple(unhx(x) for x in e.split("=")) for e in t[1].split(",")]
                hdrs = None if t[2] == "-" else [unhx(x) for x in t[2].split(",")]
                fields = [tuple(unhx(x) for x in e.split(":")) for e in t[4].split(";")]
                _xff_cases[line] = (fwd, hdrs, unhx(t[3]), fields)
            v = xff_oracle(line, o[0])
    print("oracle:", v)
    if o != m or rc != 0 or v:
        print("VIOLATION property=%s replay=%s" % (ctx.pid, "(replayed)"))
        return 1
    return 0
