"""C04 — every HTTP/1.x response is well-formed, correctly delimited and byte-exact."""
import itertools, json, os, random, re, shutil, signal, socket, subprocess, sys, time, zlib
from concurrent.futures import ThreadPoolExecutor
from .. import common as C
from .. import e2e

MANIFEST = dict(
    text="Lean 4 theorems over executable models of http_response_write_prepare (framing decision), "
         "h1_send_headers (keep-alive/Connection, serialisation), the response header store, the http_chunk.c "
         "encoder, buffer_append_string_encoded (extracted encoded_chars_* tables) and the socket writer "
         "(network_write.c + chunkqueue_mark_written) under arbitrary write-result schedules, and of the end of a "
         "response on the connection (connections.c: connection_handle_response_end_state, connection_handle_shutdown / "
         "connection_close, re-entry of connection_state_machine_loop for the next pipelined request). PROVED over the model, "
         "for every well-behaved response descriptor: a client written from RFC 9112 (wireDecode: reads the "
         "header-section BYTES, every field line, sections 6.3/7.1, independent chunked decoder) recovers status "
         "and exactly the intended body and is left with exactly the next response's bytes, or the message is "
         "close-delimited with keep-alive off (c04_wire_decode_exact; list-level c04_framing_sound); the header "
         "store never holds two entries of one name (c04_store_names_unique); HEAD/204/205/304 carry no body and "
         "no-length-no-chunking implies the keep-alive flag is cleared, both unconditionally; chunked round trip "
         "through an independent decoder; a short read that would falsify an announced chunk length is "
         "reported as an error; the bytes accepted by the socket are always a prefix of the queued message for "
         "EVERY schedule, retryable results (EINTR/EAGAIN/short) never abort, a cooperative socket drains the "
         "queue (progress), composed with the response message (c04_response_reaches_socket); URL/HTML encoders "
         "emit no CR/LF/NUL, directory-redirect Location and decoded paths are clean; the header section splits "
         "into exactly its CR-terminated lines, also with repeated fields; the connection goes on to the next request "
         "exactly after an HTTP/1.x exchange with keep-alive on, request body read and no write error, and is otherwise "
         "shut down (FIN) or closed, for every state (c04_response_end_really_closes); for EVERY pipeline the bytes on "
         "the connection are the responses of a prefix of the requests, once each, in request order, all but the last "
         "complete, nothing behind the first response that ends the connection (c04_once_per_request_in_order); a "
         "response with neither length nor chunking is the last thing on the wire and the connection is shut down or "
         "closed behind it (c04_undelimited_really_closes) - these three over an ABSTRACT pipeline: which request yields "
         "which response descriptor (READ / HANDLE_REQUEST states) is not modelled. TESTED ONLY (correspondence / "
         "end-to-end, not proved): that the C equals the models (in-process harness with scripted "
         "write/writev/sendfile faults, exhaustive decision table, fault-injected short reads; h_h1conn: the real "
         "connection_handle_response_end_state on real sockets, end-of-stream observed by the peer, every input "
         "combination exhaustively, pipelines <= 3 exhaustively); on the real server: responses once "
         "per request and in request order, the connection really being closed, streaming modes, client read "
         "pace, static files of every boundary size x backend, error handlers, CGI producers with declared "
         "Content-Length and dribbling write schedules, and an LD_PRELOAD shim making the real server's socket "
         "writes short/EAGAIN/EINTR - every response parsed by an independent strict parser and compared "
         "byte-for-byte",
    note="claimed partial. trusted: Lean kernel (+propext, Quot.sound, Classical.choice; decide +kernel on tables), "
         "hand-written models as far as the h_h1resp correspondence and the end-to-end stream reach, "
         "tables/constants regenerated from buffer.c/http_kv.c/network_write.c/chunk.h each run. Outside the "
         "proofs: the READ / HANDLE_REQUEST part of the connection state machine (the pipeline theorem takes the "
         "per-request response and keep-alive flag as given; that the real server feeds it request by request is "
         "end-to-end only), the lingering close (C13), r->keep_alive < 0; "
         "stream-response-body and read pace are not model parameters; which module-generated header values "
         "are request-derived beyond the directory redirect (mod_redirect/rewrite: C20; others not "
         "enumerated); Range rewriting (C15), backend pass-through of chunking/trailers and truncated backend "
         "bodies (C10), filter plugins between the status switch and the framing choice; files truncated while "
         "queued; kernel behaviour of write/writev/sendfile beyond return values; TLS; mmap write path (not "
         "compiled on this platform)",
    tech="Lean 4 proof over hand-written model (incl. an RFC 9112 wire-level reference decoder) + differential "
         "correspondence (in-process C harness with fault schedules) + end-to-end real server with fault shim",
    ref="6/C04")

LEVEL = "proof"
EXPLANATION = ("claimed partial: clauses proved over the model = message well-formed and self-delimiting at byte level, "
               "declared length true, chunked framing, no body for HEAD/204/205/304 and 1xx, no-length => keep-alive flag "
               "cleared, partial/interrupted writes exact + progress, no CR/LF from the URL encoders / directory redirect, "
               "connection continues only after a complete keep-alive exchange and is otherwise shut down/closed, responses "
               "once per request in request order over an abstract pipeline; "
               "clauses covered by correspondence or end-to-end only = model equals C, request parsing/dispatch feeding the "
               "pipeline on the real server, static-file body for every size/backend/streaming mode/read pace, error "
               "handlers, backend producers; outside = other request-derived header sinks, C10/C15 territory, TLS, kernel")

DATE_T = 784111777
DATE_S = b"Sun, 06 Nov 1994 08:49:37 GMT"


# ------------------------------------------------------------------ shared data pattern
_base = b""
_shift = {}


def pat(seed, n, start=0):
    """byte i of the pattern `seed` is (seed*131 + i*7 + i/251) mod 256 (same in h_h1resp.c and the Lean driver)"""
    global _base
    if len(_base) < start + n:
        m = max(start + n, 1 << 17, 2 * len(_base))
        _base = bytes(((i * 7 + i // 251) & 0xff) for i in range(m))
    k = (seed * 131) & 0xff
    t = _shift.get(k)
    if t is None:
        t = _shift[k] = bytes(((b + k) & 0xff) for b in range(256))
    return _base[start:start + n].translate(t)


def adler(b):
    return "%08x" % (zlib.adler32(b) & 0xffffffff)


# ------------------------------------------------------------------ nw: write path
def chunk_bytes(tok):
    k = tok[0]
    a = [int(x) for x in tok[1:].split(".")]
    if k == "m":
        return pat(a[0], a[1] - a[2], a[2]) if a[1] > a[2] else b""
    return pat(a[0], min(a[1], a[3]) - a[2], a[2]) if min(a[1], a[3]) > a[2] else b""


def oracle_nw(t, out):
    if out in ("bad-op", "<crash>"):
        return None
    o = dict(x.split("=", 1) for x in out.split(" "))
    want = b"".join(chunk_bytes(c) for c in t[4:])
    n, h = o["acc"].split(":")
    n = int(n)
    if n > len(want):
        return "socket accepted more bytes than were queued"
    if adler(want[:n]) != h:
        return "bytes accepted by the socket are not a prefix of the queued message"
    if int(o["out"]) != n:
        return "bytes_out differs from the number of bytes the socket accepted"
    rest = 0 if o["q"] == "-" else sum(int(x[1:]) for x in o["q"].split("."))
    if rest != len(want) - n:
        return "queue holds %d bytes after the socket accepted %d of %d" % (rest, n, len(want))
    if o["q"] == "-" and n != len(want):
        return "queue empty but not every byte was accepted"
    # EINTR, EAGAIN and short (non-zero) counts are all "try again": a schedule made only of them must
    # never end the response, and unless the schedule itself runs out the whole message is delivered
    sched = [] if t[3] == "-" else t[3].split(",")
    if all((x.isdigit() and int(x) > 0) or x in ("A", "I") for x in sched):
        if o["rc"] != "0":
            return "write path gave up (rc=%s) although every socket result was retryable (EINTR/EAGAIN/short)" % o["rc"]
        nsys = 0 if o["sys"] == "-" else len(o["sys"].split(","))
        if nsys < len(sched) and o["q"] != "-":
            return "writer stopped with data queued although retryable results remained"
    return None


def classify_nw(t, out):
    o = dict(x.split("=", 1) for x in out.split(" ")) if "=" in out else {}
    sys_ = o.get("sys", "-")
    kinds = "".join(sorted(set(x[0] for x in sys_.split(",")))) if sys_ != "-" else "-"
    return "nw:%s:rc%s:%s:%s:ff%d" % (t[1], o.get("rc"), "drained" if o.get("q") == "-" else "partial",
                                       kinds, min(int(o.get("ff", 0)), 4))


def gen_nw(ctx):
    rng = ctx.rng
    lines = []
    SZ = [0, 1, 2, 3, 5, 100, 1023, 4095, 4096, 4097, 8191, 8192, 16383, 16384, 16385, 20000, 32767, 32768,
          32769, 65535, 65536, 65537]
    RES = ["A", "I", "P", "R", "V", "X", "N"]

    def rchunk(small):
        k = rng.random()
        if k < 0.55:
            ln = rng.choice(SZ[:8]) if small or rng.random() < 0.6 else rng.choice(SZ[:16])
            off = rng.choice([0, 0, 0, 1, ln // 2, ln]) if ln else 0
            return "m%d.%d.%d" % (rng.randint(0, 250), ln, min(off, ln))
        fl = rng.choice(SZ[1:12]) if small else rng.choice(SZ[1:])
        off = rng.choice([0, 0, 1, fl // 3])
        end = rng.choice([fl, fl, fl, max(off, fl - 1), min(fl, off + 1)])
        return "%s%d.%d.%d.%d" % (rng.choice("fF"), rng.randint(0, 250), fl, min(off, end), end)

    n = 6000 if ctx.quick else 250000
    for _ in range(n):
        small = rng.random() < 0.5
        q = [rchunk(small) for _ in range(rng.choice([1, 1, 2, 3, 4, 6]))]
        if rng.random() < 0.05:     # around the 32-entry iovec limit
            q = ["m%d.%d.0" % (rng.randint(0, 250), rng.choice([0, 1, 2, 3])) for _ in range(rng.choice([31, 32, 33, 40, 65]))] + q
        total = sum(len(chunk_bytes(c)) for c in q)
        sched = []
        for _ in range(rng.choice([1, 2, 3, 5, 8, 20])):
            r = rng.random()
            if r < 0.2:
                sched.append(rng.choice(RES))
            elif r < 0.35:
                sched.append(str(rng.choice([0, 1, 2, 7])))
            elif r < 0.7:
                sched.append(str(rng.choice(SZ[1:]) + rng.choice([-1, 0, 0, 1])))
            else:
                sched.append(str(1 << 30))
        if rng.random() < 0.4:
            sched += [str(1 << 30)] * 40
        mx = rng.choice([262144, 262144, 262144, 1, 7, 100, 16384, 16385, 20000, 65536, max(1, total - 1), max(1, total)])
        lines.append("nw %s %d %s %s" % (rng.choice("ws"), mx, ",".join(sched) or "-", " ".join(q)))
    # every position of a short write / EAGAIN / EINTR in fixed small messages
    fixed = [["m1.5.0", "f2.9.2.8", "m3.4.1"], ["f4.40.0.40"], ["m5.3.0", "m6.0.0", "m7.2.0", "F8.10.3.10", "m9.1.0"],
             ["m1.16390.0", "f2.16390.0.16390"]]
    for q in fixed:
        total = sum(len(chunk_bytes(c)) for c in q)
        step = 1 if total < 200 else 97
        for be in "ws":
            for mx in (262144, 7, total):
                for k in list(range(0, total + 1, step)) + [total]:
                    for fault in ("A", "I", "0"):
                        lines.append("nw %s %d %d,%s,%s %s" % (be, mx, k, fault, ",".join(["1073741824"] * 12), " ".join(q)))
    # retryable-only schedules (EINTR / EAGAIN / short at random places): must always end with the message delivered
    for _ in range(1500 if ctx.quick else 30000):
        q = [rchunk(True) for _ in range(rng.choice([1, 2, 3, 5]))]
        sc = []
        for _ in range(rng.randint(1, 25)):
            r = rng.random()
            sc.append("I" if r < 0.3 else "A" if r < 0.5 else str(rng.choice([1, 2, 3, 50, 4096, 16383, 16384, 1 << 30])))
        sc += [str(1 << 30)] * rng.choice([0, 3, 60])
        lines.append("nw %s %d %s %s" % (rng.choice("ws"), rng.choice([262144, 262144, 5, 16384]), ",".join(sc), " ".join(q)))
    # exhaustive: all schedules of length <= 3 (quick) / 4 over a small alphabet on a 3-chunk message
    alpha = ["0", "1", "3", "4", "6", "100", "A", "I", "V", "P", "N"]
    depth = 3 if ctx.quick else 4
    q = ["m1.3.0", "f2.6.1.5", "m3.2.0"]
    for be in "ws":
        for mx in (262144, 4):
            for d in range(0, depth + 1):
                for sc in itertools.product(alpha, repeat=d):
                    lines.append("nw %s %d %s %s" % (be, mx, ",".join(sc) or "-", " ".join(q)))
    return lines


# ------------------------------------------------------------------ prep: framing decision table
H_CT = ("Content-Type", "text/plain")
ERRPAGE = re.compile(rb"<!DOCTYPE html>\n<html lang=\"en\">\n <head>\n  <meta charset=\"UTF-8\" />\n  <title>(\d{3} [^<]*)"
                     rb"</title>\n </head>\n <body>\n  <h1>\1</h1>\n </body>\n</html>\n")


def hdr_tok(hs):
    return ",".join("%s:%s:%s" % (op, C.hx(k), C.hx(v)) for op, k, v in hs) or "-"


def parse_prep(t):
    d = dict(status=int(t[1]), meth=t[2], ver=int(t[3]), fin=int(t[4]), ka=int(t[5]), flags=int(t[6]))
    hs = []
    if t[7] != "-":
        for x in t[7].split(","):
            op, k, v = x.split(":")
            hs.append((op, C.unhx(k), C.unhx(v)))
    d["hdrs"] = hs
    d["queued"] = C.unhx(t[8])
    d["pieces"] = [C.unhx(x) for x in t[9:]]
    return d


def oracle_prep(t, out):
    """RFC 9112 / property statement on the serialised message, independent of the model"""
    if not out.startswith("ka="):
        return None
    d = parse_prep(t)
    o = dict(x.split("=", 1) for x in out.split(" "))
    wire = C.unhx(o["wire"])
    ka = o["ka"] == "1"
    status, flags = d["status"], d["flags"]
    names = [k.lower() for _, k, v in d["hdrs"] if v]
    # outside the property's domain (recorded as assumptions)
    if b"transfer-encoding" in names or b"upgrade" in names:
        return None
    if status < 200 or (d["meth"] == "C" and status == 200):
        return None
    if any(b"\r" in k + v or b"\n" in k + v or not k for _, k, v in d["hdrs"]):
        return None
    if names.count(b"content-length") > 1:
        return None
    is_head = d["meth"] == "H"
    saved = 65535 if flags & 128 else (404 if flags & 256 else 0)
    errdoc = 400 <= status < 600 and ((saved < 65535) if not (flags & 1) else bool(flags & 2) and not saved)
    bodiless = is_head or status in (204, 205, 304)
    streamed = not d["fin"] and not bodiless and not errdoc
    intended = b"" if bodiless else (None if errdoc else d["queued"] + (b"".join(d["pieces"]) if streamed else b""))
    cl_decl = [v for _, k, v in d["hdrs"] if k.lower() == b"content-length" and v]
    if cl_decl and not bodiless and not errdoc:
        if not cl_decl[-1].isdigit() or int(cl_decl[-1]) != len(intended):
            return None          # the handler lied about its own length: not this property
    if streamed and not (flags & 64):
        # aborted stream: the message must not look complete unless the connection is then closed
        try:
            rs = e2e.parse_responses(wire, head_for=[is_head], closed=False)
        except e2e.RespParseError:
            return None
        if ka and rs and rs[0]["framing"] == "chunked":
            return "aborted streamed body is a complete chunked message"
        return None
    try:
        rs = e2e.parse_responses(wire, head_for=[is_head], closed=not ka)
    except e2e.RespParseError as ex:
        return "response is not a well-formed self-delimiting message: %s" % re.sub(r" b'.*| at \d+|\(.*", "", str(ex))[:60]
    if len(rs) != 1:
        return "%d messages on the wire for one response" % len(rs)
    r = rs[0]
    if r["status"] != status:
        return "status line carries %d for status %d" % (r["status"], status)
    if r["version"] != (b"1.1" if d["ver"] else b"1.0"):
        return "wrong HTTP version in status line"
    if intended is None:
        if not ERRPAGE.fullmatch(r["body"]):
            return "built-in error page expected"
    elif r["body"] != intended:
        return "body on the wire (%d bytes, %s) differs from the body the handler produced (%d bytes)" % (
            len(r["body"]), r["framing"], len(intended))
    cl = e2e.hdr(r, "content-length")
    if cl is not None and not bodiless and int(cl) != len(r["body"]):
        return "Content-Length differs from body length"
    if status == 204 and cl is not None:
        return "204 with Content-Length"
    if bodiless and len(wire) != int(o["hlen"]):
        return "bodiless response carries body bytes"
    if r["framing"] == "close" and ka:
        return "close-delimited response with keep-alive"
    if r["framing"] == "chunked" and not d["ver"]:
        return "chunked response to an HTTP/1.0 request"
    conn = e2e.hdr(r, "connection")
    if not ka and conn != b"close":
        return "connection will close but no 'Connection: close'"
    if ka and conn == b"close":
        return "'Connection: close' sent but keep-alive retained"
    if ka and not d["ver"] and conn != b"keep-alive":
        return "HTTP/1.0 keep-alive without 'Connection: keep-alive'"
    if ka and not d["ka"]:
        return "keep-alive switched on by the response path"
    if e2e.hdr(r, "date") is None:
        return "no Date field"
    return None


def classify_prep(t, out):
    if not out.startswith("ka="):
        return "prep:" + out[:16]
    o = dict(x.split("=", 1) for x in out.split(" "))
    wire = C.unhx(o["wire"])
    head = wire[:int(o["hlen"])].lower()
    fr = "te" if b"\r\ntransfer-encoding:" in head else ("cl" if b"\r\ncontent-length:" in head else "none")
    return "prep:%s:%s:v%s:fin%s>%s:ka%s>%s:fl%s:%s:%s" % (t[1], t[2], t[3], t[4], o["fin"], t[5], o["ka"], t[6], fr,
                                                         "body" if len(wire) > int(o["hlen"]) else "nobody")


def gen_prep(ctx):
    rng = ctx.rng
    lines = []
    statuses = [100, 101, 200, 204, 205, 206, 301, 304, 400, 401, 404, 416, 500, 599]
    hsets = [[], [("s",) + H_CT], [("s", "Content-Length", "5")], [("s", "content-length", "10")],
             [("s", "Transfer-Encoding", "chunked")], [("s", "Upgrade", "websocket")],
             [("s", "Connection", "keep-alive")], [("s", "WWW-Authenticate", "Basic realm=\"x\""), ("s",) + H_CT],
             [("s", "Date", "x"), ("s", "Server", "y"), ("s", "X-Sendfile", "/etc/passwd"), ("s", "X-LIGHTTPD-send-file", "z"),
              ("s", "X-Powered-By", "p")],
             [("i", "Set-Cookie", "a=1"), ("i", "set-cookie", "b=2"), ("s", "Content-Encoding", "gzip")],
             [("s", "Content-Length", ""), ("s", "X-Empty", "")]]
    hsets = [[(op, k.encode(), v.encode()) for op, k, v in hs] for hs in hsets]
    flagsets = [1 | 64, 0 | 64, 1 | 2 | 64, 1 | 4 | 64, 1 | 8 | 64, 1 | 16 | 64, 1 | 32 | 64, 1, 64 | 128, 64 | 256, 1 | 2 | 64 | 256,
                1 | 2 | 64 | 128]
    bodies = [(b"", []), (b"hello", []), (b"hello", [b"world"]), (b"", [b"a", b"", b"bc"]), (b"0123456789", [b"x" * 17])]
    for st, m, v, fin, ka in itertools.product(statuses, "GHPC", (0, 1), (0, 1), (0, 1)):
        for fl in flagsets:
            for hs in (hsets if not ctx.quick else hsets[:6] + [rng.choice(hsets[6:])]):
                for qb, ps in (bodies if not ctx.quick else [bodies[0], rng.choice(bodies[1:3]), rng.choice(bodies[3:])]):
                    lines.append("prep %d %s %d %d %d %d %s %s %s" % (st, m, v, fin, ka, fl, hdr_tok(hs), C.hx(qb),
                                                                     " ".join(C.hx(p) for p in ps)))
    # sizes: chunk-size lines of every digit count, bodies across the 64 KiB temp-file switch
    sizes = [1, 9, 10, 15, 16, 17, 255, 256, 257, 4095, 4096, 4097, 65535, 65536, 65537, 70000]
    for sz in sizes:
        for v in (0, 1):
            for fin in (0, 1):
                body = pat(sz & 0xff, sz)
                lines.append("prep 200 G %d %d 1 65 - %s %s" % (v, fin, C.hx(body[:sz // 2]), C.hx(body[sz // 2:])))
                lines.append("prep 200 G %d %d 1 65 - - %s %s" % (v, fin, C.hx(body), C.hx(body[:7])))
    n = 3000 if ctx.quick else 300000
    for _ in range(n):
        hs = list(rng.choice(hsets))
        if rng.random() < 0.3:
            hs.append(("s", rng.choice([b"X-A", b"Location", b"ETag", b"Last-Modified", b"x-lighttpd-foo"]),
                       bytes(rng.choice(b"ab /%:,;=\"") for _ in range(rng.randint(0, 12)))))
        qb = bytes(rng.randint(0, 255) for _ in range(rng.choice([0, 0, 1, 5, 40, 300])))
        ps = [bytes(rng.randint(0, 255) for _ in range(rng.choice([0, 1, 2, 15, 16, 17, 255, 256, 1000])))
              for _ in range(rng.choice([0, 1, 2, 4]))]
        lines.append("prep %d %s %d %d %d %d %s %s %s" % (
            rng.choice(statuses + [200] * 6), rng.choice("GGGHPC"), rng.randint(0, 1), rng.randint(0, 1), rng.randint(0, 1),
            rng.choice(flagsets + [rng.randint(0, 511)]), hdr_tok(hs), C.hx(qb), " ".join(C.hx(p) for p in ps)))
    return lines


# ------------------------------------------------------------------ enc / redir / clen
def dechunk_strict(b):
    """RFC 9112 7.1 (no extensions, no trailers): returns the decoded body or None"""
    i, out = 0, b""
    while True:
        j = b.find(b"\r\n", i)
        if j < 0 or not re.fullmatch(rb"[0-9a-fA-F]+", b[i:j]):
            return None
        n = int(b[i:j], 16)
        i = j + 2
        if n == 0:
            return out if b[i:] == b"\r\n" else None
        if b[i + n:i + n + 2] != b"\r\n":
            return None
        out += b[i:i + n]
        i += n + 2


def oracle_enc(t, out):
    if out in ("bad-op", "<crash>"):
        return None
    if t[0] == "cshort":
        o = out.split(" ")
        if len(o) != 2:
            return None
        flen, claimed = int(t[3]), int(t[4])
        got = C.unhx(o[1])
        if o[0] == "0":
            # success reported: what was queued must be a true chunk of the size the caller believes
            if claimed and dechunk_strict(got + b"0\r\n\r\n") != pat(int(t[2]), claimed):
                return "http_chunk_append_file_* reported success but the chunk queued is not the %d-byte file" % claimed
            if flen < claimed:
                return "short read of a shrunken file not reported: the announced chunk length is false"
        elif flen >= claimed:
            return "http_chunk_append_file_* failed on a complete file"
        return None
    if t[0] == "s1xx":
        o = out.split(" ")
        if len(o) != 2:
            return None
        hs = [] if t[2] == "-" else [x.split(":") for x in t[2].split(",")]
        if any(b"\r" in C.unhx(k) + C.unhx(v) or b"\n" in C.unhx(k) + C.unhx(v) or not C.unhx(k) for _, k, v in hs):
            return None
        if any(C.unhx(k).lower() in (b"content-length", b"transfer-encoding") for _, k, v in hs):
            return None         # a backend's own framing fields in its 1xx are relayed as they are (C10)
        try:
            rs = e2e.parse_responses(C.unhx(o[1]), closed=False)
        except e2e.RespParseError as ex:
            return "interim response is not a well-formed header section: %s" % re.sub(r" b'.*| at \d+", "", str(ex))[:50]
        if len(rs) != 1 or rs[0]["status"] != int(t[1]) or rs[0]["body"]:
            return "interim response is not exactly one bodiless 1xx message"
        return None
    if t[0] == "cfile":
        o = out.split(" ")
        if len(o) != 2 or o[0] != "0":
            return "http_chunk_append_file_* failed on a readable file"
        api, chunked, seed, flen, off, ln = t[1], int(t[2]), int(t[3]), int(t[4]), int(t[5]), int(t[6])
        full = pat(seed, flen)
        want = full if api in "dr" else full[off:off + ln]
        got = C.unhx(o[1])
        if chunked:
            if not want and api != "D":
                return None if got == b"" else "framing bytes queued for an empty file range"
            got = dechunk_strict(got + b"0\r\n\r\n")
            if got is None:
                return "file range is not framed as a well-formed chunk"
        if got != want:
            return "queued bytes differ from the file range (%d vs %d bytes)" % (len(got), len(want))
        return None
    if t[0] == "clen":
        m = re.fullmatch(r"([0-9a-f]*)(<file>)?([0-9a-f]*)", out)
        if not m:
            return "malformed chunk framing"
        line = C.unhx(m.group(1) or "-")
        n = int(t[1])
        want = (b"%x\r\n" % n) + (b"\r\n" if n == 0 else b"")
        if not re.fullmatch(rb"0*" + (b"%x" % n) + rb"\r\n" + (b"\r\n" if n == 0 else b""), line, re.I) or line != want:
            return "chunk-size line %r for a %d-byte chunk" % (line, n)
        if n and C.unhx(m.group(3) or "-") != b"\r\n":
            return "chunk data not followed by CRLF"
        return None
    if t[0] == "enc":
        src, res = C.unhx(t[2]), C.unhx(out)
        if any(c in res for c in b"\r\n\x00"):
            return "buffer_append_string_encoded output contains CR/LF/NUL"
        e = int(t[1])
        if e <= 1:
            dec = re.sub(rb"%([0-9A-F]{2})", lambda m: bytes([int(m.group(1), 16)]), res)
            if dec != src and b"%" not in src.replace(b"%", b""):
                pass
            # decoding the escapes must give back the input ('%' itself is always escaped)
            if dec != src:
                return "percent-encoding does not decode back to the input"
            if any(c < 0x21 or c >= 0x7f for c in res):
                return "percent-encoded output contains a control/space/non-ASCII byte"
        else:
            if any(c < 0x20 or c == 0x7f for c in res):
                return "entity-encoded output contains a control byte"
        return None
    if t[0] == "redir":
        if out == "err":
            return None
        res = C.unhx(out.split(" ")[1]) if out.split(" ")[1] != "none" else b""
        tainted = C.unhx(t[4]) + C.unhx(t[6])     # authority and query are validated elsewhere (C01/C02)
        if not any(c in tainted for c in b"\r\n\x00") and any(c in res for c in b"\r\n\x00"):
            return "redirect Location contains CR/LF/NUL taken from the request path"
        path = C.unhx(t[5])
        if not any(c in tainted for c in b"\r\n\x00 "):
            m = re.fullmatch(rb"(?:[a-z]+://[^/]*)?(/[^?]*)/(?:\?(.*))?", res, re.S)
            if path.startswith(b"/") and b"?" not in C.unhx(t[4]):
                if not m:
                    return "redirect Location is not <path>/[?query]"
                dec = re.sub(rb"%([0-9A-F]{2})", lambda mm: bytes([int(mm.group(1), 16)]), m.group(1))
                if dec != path:
                    return "redirect Location path does not decode to the request path"
    return None


def classify_enc(t, out):
    if t[0] == "cshort":
        return "cshort:%s:%s:%s" % (t[1], out.split(" ")[0], "short" if int(t[3]) < int(t[4]) else "full")
    if t[0] == "s1xx":
        return "s1xx:%s:%d" % (t[1], min(len(out) // 40, 6))
    if t[0] == "cfile":
        fl = int(t[4])
        return "cfile:%s:%s:%s" % (t[1], t[2], "0" if fl == 0 else ("small" if fl <= 32768 else "large"))
    if t[0] == "enc":
        return "enc:%s:%s" % (t[1], "same" if out == t[2] else "escaped")
    if t[0] == "redir":
        return "redir:%s:%s:%s" % (t[1], t[2], out.split(" ")[0])
    return "clen:%d" % len(out)


def gen_enc(ctx):
    rng = ctx.rng
    lines = []
    for e in range(4):
        for b in range(256):
            lines.append("enc %d %02x" % (e, b))
            lines.append("enc %d 61%02x62" % (e, b))
        for a, b in itertools.product([0, 10, 13, 32, 37, 47, 63, 127, 128, 255, 97], repeat=2):
            lines.append("enc %d %02x%02x" % (e, a, b))
    tricky = [b"/dir", b"/a b", b"/a\r\nSet-Cookie: x=1", b"/a%0d%0aX: y", b"/\r\n\r\nHTTP/1.1 200 OK\r\n\r\n", b"/a?b", b"/a#b",
              b"/\x00", b"/\xc3\xa9", b"/a/b/c", b"/%", b"/~u", b"/a+b&c=d", b"/\x7f\x80\xff", b"/_", b"/a\nb", b"/a\rb"]
    for p in tricky:
        for q in (b"", b"x=1", b"a=%0d%0a", b"?"):
            for ab in (0, 1):
                for st in (301, 308, 0):
                    lines.append("redir %d %d %s %s %s %s" % (ab, st, C.hx(rng.choice([b"http", b"https"])),
                                                             C.hx(rng.choice([b"a.b", b"a.b:8080", b"[::1]:81"])), C.hx(p), C.hx(q)))
    n = 3000 if ctx.quick else 150000
    for _ in range(n):
        s = bytes(rng.choice([rng.randint(0, 255), rng.choice(b"/%?#\r\n \x00ab~.")]) for _ in range(rng.randint(1, 24)))
        lines.append("enc %d %s" % (rng.randint(0, 3), C.hx(s)))
        s = s.replace(b"\x00", b"_")
        lines.append("redir %d 301 %s %s %s %s" % (rng.randint(0, 1), C.hx(b"http"), C.hx(b"h.example"), C.hx(b"/" + s),
                                                  C.hx(rng.choice([b"", b"q=1", b"a=b&c=%0a"]))))
    for st in (100, 102, 103, 199):
        for hs in [[], [("s", b"Link", b"</style.css>; rel=preload")], [("i", b"Link", b"<a>"), ("i", b"link", b"<b>"), ("s", b"X-E", b"")],
                   [("s", b"Content-Length", b"5"), ("s", b"X-Sendfile", b"/x")]]:
            lines.append("s1xx %d %s" % (st, hdr_tok(hs)))
    # fault-injected short read: the file shrinks after it was sized (read-into-memory path of chunked responses)
    for claimed in [1, 2, 16, 17, 255, 4096, 8193, 32767, 32768]:
        for flen in sorted(set([0, 1, claimed // 2, claimed - 1, claimed])):
            if flen <= claimed:
                for api in "dr":
                    lines.append("cshort %s %d %d %d" % (api, rng.randint(0, 250), flen, claimed))
    fsz = [0, 1, 2, 15, 16, 17, 255, 256, 4095, 4096, 32767, 32768, 32769, 65535, 65536, 65537, 100000]
    for fl in fsz:
        for ch in (0, 1):
            for api in "dr":
                lines.append("cfile %s %d %d %d 0 0" % (api, ch, rng.randint(0, 250), fl))
            for _ in range(4 if ctx.quick else 12):
                off = rng.choice([0, 0, 1, fl // 2, max(0, fl - 1), fl])
                ln = rng.choice([1, 2, 16, fl, fl + 5, max(1, fl - off), 32768, 32769])
                lines.append("cfile R %d %d %d %d %d" % (ch, rng.randint(0, 250), fl, off, ln))
                if fl:
                    off = rng.randrange(fl)
                    lines.append("cfile D %d %d %d %d %d" % (ch, rng.randint(0, 250), fl, off, rng.randint(1, fl - off)))
    for k in list(range(0, 70)) + [255, 256, 4095, 4096, 65535, 65536, 1048575, 1048576, 1048577, (1 << 31) - 1, 1 << 31,
                                   (1 << 32) + 5, (1 << 40) + 7, (1 << 62) + 1]:
        lines.append("clen %d" % k)
    return lines


# ------------------------------------------------------------------ end-to-end stream (real server)
BOUNDS = (4096, 16384, 32768, 65536, 131072, 524288, 1048576)
SIZES = sorted(set([0, 1] + [b + d for b in BOUNDS for d in (-1, 0, 1)]))
DIRS = ["dir", "d ir", "d\"q<r>", "dé", "d__X-Injected: y", "d%41", "d;a=b&c"]

CONF = """
server.network-backend = "%(backend)s"
server.stream-response-body = %(stream)d
server.max-keep-alive-idle = %(kaidle)d
server.max-keep-alive-requests = %(kareq)d
server.max-read-idle = 10
server.max-write-idle = 20
server.max-connections = 64
cgi.assign = (".sh" => "/bin/sh", ".py" => "%(python)s")
%(errhandler)s
%(parseopts)s
%(errdoc)s
%(extra)s
"""

CGI = {
    "s_two.sh": ("printf 'Content-Type: application/octet-stream\\r\\n\\r\\n'\nprintf 'first-piece;'\nsleep 0.15\nprintf 'second-piece'\n",
                 200, b"first-piece;second-piece", None),
    "s_big.sh": ("printf 'Content-Type: application/octet-stream\\r\\n\\r\\n'\ncat \"$DOCUMENT_ROOT/f_5.bin\"\nsleep 0.1\n"
                 "cat \"$DOCUMENT_ROOT/f_16.bin\"\nsleep 0.05\ncat \"$DOCUMENT_ROOT/f_10.bin\"\n", 200, ("files", [5, 16, 10]), None),
    "s_cl.sh": ("printf 'Content-Type: text/plain\\r\\nContent-Length: 11\\r\\n\\r\\n'\nprintf 'hello '\nsleep 0.1\nprintf 'world'\n",
                200, b"hello world", 11),
    "s_empty.sh": ("printf 'Content-Type: text/plain\\r\\n\\r\\n'\n", 200, b"", None),
    "s_204.sh": ("printf 'Status: 204\\r\\nContent-Type: text/plain\\r\\n\\r\\n'\nprintf 'must not be sent'\n", 204, b"", None),
    "s_304.sh": ("printf 'Status: 304\\r\\nETag: \"x\"\\r\\n\\r\\n'\nprintf 'must not be sent'\n", 304, b"", None),
    "s_500.sh": ("printf 'Status: 500\\r\\nContent-Type: text/plain\\r\\n\\r\\n'\nprintf 'oops'\n", 500, b"oops", None),
    "s_echo.sh": ("printf 'Content-Type: application/octet-stream\\r\\n\\r\\n'\ncat\n", 200, "echo", None),
}


ERRDOC_404 = b"<html><body>custom 404 page " + pat(9, 20000) .replace(b"<", b"(") + b"</body></html>\n"


EH_CONF = """
$HTTP["url"] =~ "^/e1/" { server.error-handler-404 = "/eh.html" }
$HTTP["url"] =~ "^/e2/" { server.error-handler-404 = "/eh.sh" }
$HTTP["url"] =~ "^/e3/" { server.error-handler = "/eh.html" }
$HTTP["url"] =~ "^/e4/" { server.error-handler = "/eh.sh" }
$HTTP["url"] =~ "^/e5/" { server.error-handler = "/eh404.sh" }
$HTTP["url"] =~ "^/e6/" { server.error-handler-404 = "/eh404.sh" }
"""
EH_STATIC = b"<html>static error handler page " + pat(3, 300).hex().encode() + b"</html>\n"
EH_CGI = b"<html><body>custom error page from CGI</body></html>\n"
EH_BODY = {"e1": EH_STATIC, "e2": EH_CGI, "e3": EH_STATIC, "e4": EH_CGI, "e5": EH_CGI, "e6": EH_CGI}

# a backend whose write schedule is taken from the query string: burst, dribble, pauses
PRODUCER = r'''import os, sys, time
q = dict(x.split("=", 1) for x in os.environ.get("QUERY_STRING", "").split("&") if "=" in x)
seed, total = int(q.get("seed", "1")), int(q.get("total", "0"))
data = bytes(((seed * 131 + i * 7 + i // 251) & 0xff) for i in range(total))
def out(b):
    while b:
        n = os.write(1, b)
        b = b[n:]
head = "Content-Type: application/octet-stream\r\n"
if q.get("te") == "1":
    # chunked backend response: chunk sizes from `chunks`, one flush point inside the encoded body,
    # optional Content-Length before (order=ct) or after (order=tc) Transfer-Encoding
    enc = b""
    off = 0
    for c in [int(x) for x in q.get("chunks", "").split(".") if x] + [total]:
        n = min(c, total - off)
        if n <= 0:
            continue
        enc += b"%x\r\n" % n + data[off:off + n] + b"\r\n"
        off += n
    enc += b"0\r\n\r\n"
    clv = q.get("clv", "")
    te = "Transfer-Encoding: chunked\r\n"
    cl = ("Content-Length: %s\r\n" % clv) if clv else ""
    head += (cl + te) if q.get("order") == "ct" else (te + cl)
    fl = min(int(q.get("flush", "0")), len(enc))
    out((head + "\r\n").encode() + enc[:fl])
    time.sleep(int(q.get("fgap", "60")) / 1000.0)
    out(enc[fl:])
    sys.exit(0)
if q.get("cl") == "1":
    head += "Content-Length: %d\r\n" % total
out((head + "\r\n").encode())
if q.get("hgap"):
    time.sleep(int(q["hgap"]) / 1000.0)
off = 0
for tok in [t for t in q.get("sched", "").split(".") if t]:
    if tok[0] == "s":
        time.sleep(int(tok[1:]) / 1000.0)
    elif tok[0] == "w":
        n = min(int(tok[1:]), total - off)
        out(data[off:off + n]); off += n
    elif tok[0] == "r":
        size, rest = tok[1:].split("x")
        count, gap = rest.split("g")
        for _ in range(int(count)):
            n = min(int(size), total - off)
            if n <= 0:
                break
            out(data[off:off + n]); off += n
            if int(gap):
                time.sleep(int(gap) / 1000.0)
out(data[off:])
'''

# (total, schedule, declares Content-Length)
PROFILES = [(200000, "w100000.r1000x100g10", 1), (150000, "w65536.r2000x20g5", 1), (140000, "w65537.r1x300g0", 1),
            (100000, "w70000.s20.r7x200g1", 1), (200000, "w131072.s10.r8191x8g5", 1), (90000, "w60000.r500x60g3", 1),
            (66000, "w65000.s30.r100x10g20", 1), (70000, "r1500x47g2", 1), (150000, "w100000.r1000x50g5", 0),
            (80000, "w1.s20.w70000.s20.r333x30g4", 1), (300000, "w70000.s5.w70000.s5.r4000x30g2", 1)]


def producer_req(rng, prof, ver=1, meth="GET", fins=(0, 1), ka10=False):
    total, sched, cl = prof
    seed = rng.randint(0, 250)
    hgap = rng.choice([0, 0, 30])
    t = "/prod.py?seed=%d&total=%d&cl=%d&hgap=%d&sched=%s" % (seed, total, cl, hgap, sched)
    ka = 1 if ver else (1 if ka10 else 0)
    head = meth == "HEAD"
    q = Req(req_bytes(meth, t, ver, ["Connection: keep-alive"] if ka10 else []), 200, b"" if head else pat(seed, total), head=head,
            ver=ver, ka=ka, kind="producer-%s-cl%d" % (meth, cl),
            model=[mline(200, "H" if head else "G", ver, f, ka, 1 | 64, total if cl else None, total) for f in fins],
            cl=total if cl else None)
    if not ver and ka10 and not cl:
        q.adaptive = True
    return q


def file_bytes(idx):
    return pat(idx + 1, SIZES[idx])


class Req:
    """one request of an exchange with what the property and the model expect for its response"""

    def __init__(self, raw, status, body, head=False, ver=1, ka=1, kind="", model=None, loc=None, cl=None, extra=None):
        self.raw, self.status, self.body, self.head, self.ver, self.ka = raw, status, body, head, ver, ka
        self.kind, self.model, self.loc, self.cl, self.extra = kind, model, loc, cl, extra


def req_bytes(meth, target, ver=1, hdrs=(), close=False, body=b""):
    h = [b"Host: localhost"] if ver else []
    h += [x if isinstance(x, bytes) else x.encode() for x in hdrs]
    if close:
        h.append(b"Connection: close")
    t = target if isinstance(target, bytes) else target.encode()
    return meth.encode() + b" " + t + (b" HTTP/1.1" if ver else b" HTTP/1.0") + b"\r\n" + b"".join(x + b"\r\n" for x in h) + b"\r\n" + body


def up_esc(b):
    """burl_normalize() upper-cases the hex digits of percent escapes"""
    return re.sub(rb"%[0-9a-fA-F]{2}", lambda m: m.group(0).upper(), b)


def mline(status, meth, ver, fin, ka, flags, cl, blen):
    return "e2e %d %s %d %d %d %d %s %d" % (status, meth, ver, fin, ka, flags, "-" if cl is None else str(cl), blen)


def static_req(idx, meth="GET", ver=1, close=False, ka10=False, hdrs=(), kareq=False):
    size = SIZES[idx]
    ka = 0 if close else (1 if ver else (1 if ka10 else 0))
    hh = list(hdrs) + (["Connection: keep-alive"] if ka10 else [])
    raw = req_bytes(meth, "/f_%d.bin" % idx, ver, hh, close)
    head = meth == "HEAD"
    fl = 64 | (4 if kareq else 0)
    return Req(raw, 200, b"" if head else file_bytes(idx), head=head, ver=ver, ka=ka, kind="static-%s-v%d" % (meth, ver),
               model=[mline(200, "H" if head else "G", ver, 1, ka, fl, size, size)], cl=size)


def client(port, data, sched=None, total_timeout=30.0, segs=None, patience=25.0):
    """send `data` (optionally in segments with pauses), read to close; sched = (rcvbuf, delay, chunk, pause).
    patience = seconds without a single octet before the client gives up; it is longer than the server's
    own server.max-write-idle (20 s), so a connection that is still open when the client gives up means a
    starved or hung server, not a slow one"""
    s = socket.socket()
    if sched and sched[0]:
        s.setsockopt(socket.SOL_SOCKET, socket.SO_RCVBUF, sched[0])
    s.settimeout(5)
    s.connect(("127.0.0.1", port))
    s.setsockopt(socket.IPPROTO_TCP, socket.TCP_NODELAY, 1)
    buf = bytearray()
    closed = False
    try:
        if segs:
            for seg, gap in segs:
                try:
                    s.sendall(seg)
                except OSError:
                    break               # the server has closed: keep what it sent
                if gap == "wait100":
                    s.settimeout(1.0)
                    try:
                        while b"\r\n\r\n" not in buf:
                            d = s.recv(65536)
                            if not d:
                                break
                            buf += d
                    except socket.timeout:
                        pass
                elif gap:
                    time.sleep(gap)
        else:
            s.sendall(data)
        if sched and sched[1]:
            time.sleep(sched[1])
        chunk = sched[2] if sched else 262144
        pause = sched[3] if sched else 0
        # progress-based: the read ends when the server closes or nothing arrives for `patience` s; the hard cap
        # only guards against an endless trickle (an absolute deadline made slow-reader cases fail on a
        # loaded machine: a transfer that was still progressing looked like a truncated response)
        end = time.time() + max(300.0, total_timeout * 10)
        s.settimeout(patience)
        while time.time() < end:
            try:
                d = s.recv(chunk)
            except socket.timeout:
                break
            except OSError:
                closed = True
                break
            if not d:
                closed = True
                break
            buf += d
            if pause:
                time.sleep(pause)
    finally:
        s.close()
    return bytes(buf), closed


def parse_multipart(body, ctype):
    m = re.search(rb"boundary=([^\s;]+)", ctype)
    if not m:
        return None
    b = m.group(1)
    parts = []
    if body.startswith(b"--" + b):
        body = b"\r\n" + body
    segs = body.split(b"\r\n--" + b)
    if segs[0] != b"" or not segs[-1].startswith(b"--"):
        return None
    for sgm in segs[1:-1]:
        if not sgm.startswith(b"\r\n"):
            return None
        hd, _, data = sgm[2:].partition(b"\r\n\r\n")
        mm = re.search(rb"Content-Range: bytes (\d+)-(\d+)/(\d+)", hd)
        if not mm:
            return None
        parts.append((int(mm.group(1)), int(mm.group(2)), int(mm.group(3)), data))
    return parts


def check_exchange(reqs, data, closed):
    """property oracle on one connection's byte stream; returns (violation message | None, observations)"""
    finals_head = [r.head for r in reqs]
    try:
        rs = e2e.parse_responses(data, head_for=finals_head, closed=closed)
    except e2e.RespParseError as ex:
        return "response stream is not a sequence of well-formed self-delimiting messages: %s" % str(ex)[:80], []
    interim = [r for r in rs if 100 <= r["status"] < 200 and r["status"] != 101]
    rs = [r for r in rs if not (100 <= r["status"] < 200 and r["status"] != 101)]
    for r in interim:
        if r["body"]:
            return "1xx response with a body", []
    # responses after a 'Connection: close' response / fewer or more responses than requests
    n_exp = len(reqs)
    for i, q in enumerate(reqs):
        if not q.ka:
            n_exp = i + 1
            break
    if len(rs) != n_exp:
        return "%d responses for %d requests (expected %d before the connection closes)" % (len(rs), len(reqs), n_exp), []
    if not closed:
        return "connection not closed after a response without keep-alive", []
    obs = []
    for i, (q, r) in enumerate(zip(reqs, rs)):
        w = "response %d (%s): " % (i, q.kind)
        if r["status"] not in (q.status if isinstance(q.status, tuple) else (q.status,)):
            return w + "status %d, expected %s (out of order or wrong response?)" % (r["status"], q.status), []
        if r["version"] != (b"1.1" if q.ver else b"1.0"):
            return w + "HTTP version %r in status line" % r["version"], []
        cl = e2e.hdr(r, "content-length")
        te = e2e.hdr(r, "transfer-encoding")
        conn = e2e.hdr(r, "connection")
        names = [k for k, _ in r["headers"]]
        for nm in (b"content-length", b"transfer-encoding", b"date", b"connection", b"location", b"content-type"):
            if names.count(nm) > 1:
                return w + "field %s repeated" % nm.decode(), []
        if b"date" not in names:
            return w + "no Date field", []
        body = q.body
        if body == "errpage":
            if not ERRPAGE.fullmatch(r["body"]) and not q.head:
                return w + "built-in error page expected", []
        elif isinstance(body, tuple) and body[0] == "multipart":
            parts = parse_multipart(r["body"], e2e.hdr(r, "content-type") or b"")
            full = body[1]
            if parts is None:
                return w + "malformed multipart/byteranges body", []
            if [(a, b2) for a, b2, _, _ in parts] != body[2]:
                return w + "multipart ranges %r, expected %r" % ([(a, b2) for a, b2, _, _ in parts], body[2]), []
            for a, b2, tot, dd in parts:
                if dd != full[a:b2 + 1] or tot != len(full):
                    return w + "multipart part %d-%d differs from the file" % (a, b2), []
        elif r["body"] != body:
            k = next((j for j in range(min(len(body), len(r["body"]))) if body[j] != r["body"][j]), min(len(body), len(r["body"])))
            return w + "body differs from the expected bytes (got %d bytes, expected %d, first difference at %d, %s)" % (
                len(r["body"]), len(body), k, r["framing"]), []
        if cl is not None:
            if q.head or r["status"] == 304:
                if q.cl is not None and int(cl) != q.cl:
                    return w + "Content-Length %s on a bodiless response differs from the entity length %d" % (cl.decode(), q.cl), []
            elif int(cl) != len(r["body"]):
                return w + "Content-Length differs from the body", []
        if r["status"] == 204 and cl is not None:
            return w + "204 with Content-Length", []
        if te is not None and not q.ver:
            return w + "Transfer-Encoding in a response to HTTP/1.0", []
        last = i == len(rs) - 1
        if r["framing"] == "close" and not last:
            return w + "close-delimited response followed by another", []
        if last and conn != b"close" and not getattr(q, "lenient_close", False):
            return w + "connection closed without 'Connection: close'", []
        if not last and conn == b"close":
            return w + "'Connection: close' but the connection kept serving", []
        if not last and not q.ver and conn != b"keep-alive":
            return w + "HTTP/1.0 keep-alive response without 'Connection: keep-alive'", []
        if q.loc is not None:
            loc = e2e.hdr(r, "location")
            if loc is None:
                return w + "redirect without Location", []
            dec = re.sub(rb"%([0-9A-Fa-f]{2})", lambda mm: bytes([int(mm.group(1), 16)]), loc.split(b"?")[0])
            if dec != q.loc[0] + b"/" or (b"?" in loc) != bool(q.loc[1]) or (q.loc[1] and loc.split(b"?", 1)[1] != q.loc[1]):
                return w + "Location %r does not denote %r" % (loc, q.loc[0] + b"/"), []
            if any(c < 0x21 or c > 0x7e for c in loc):
                return w + "Location contains a raw control/space/non-ASCII byte", []
        if q.extra:
            for nm, val in q.extra.items():
                if e2e.hdr(r, nm) != val:
                    return w + "field %s is %r, expected %r" % (nm, e2e.hdr(r, nm), val), []
        o = "cl=%s te=%d conn=%s ka=%d" % (cl.decode() if cl is not None else "-", 1 if te is not None else 0,
                                          C.hx(conn) if conn is not None else "-", 0 if last else 1)
        wl = None if te is not None else len(r["body"])
        obs.append((q, o, wl, e2e.hdr(r, "location")))
    return None, obs


def build_docroot(srv):
    for i in range(len(SIZES)):
        with open(os.path.join(srv.docroot, "f_%d.bin" % i), "wb") as f:
            f.write(file_bytes(i))
    for d in DIRS:
        os.makedirs(os.path.join(srv.docroot.encode(), d.encode("utf-8")), exist_ok=True)
    for name, (script, _, _, _) in CGI.items():
        with open(os.path.join(srv.docroot, name), "w") as f:
            f.write("#!/bin/sh\n" + script)
    with open(os.path.join(srv.docroot, "prod.py"), "w") as f:
        f.write(PRODUCER)
    with open(os.path.join(srv.docroot, "eh.html"), "wb") as f:
        f.write(EH_STATIC)
    with open(os.path.join(srv.docroot, "eh.sh"), "w") as f:
        f.write("#!/bin/sh\nprintf 'Content-Type: text/html\\r\\n\\r\\n'\nprintf '%s'\n" % EH_CGI.decode().replace("\n", "\\n"))
    with open(os.path.join(srv.docroot, "eh404.sh"), "w") as f:
        f.write("#!/bin/sh\nprintf 'Status: 404\\r\\nContent-Type: text/html\\r\\n\\r\\n'\nsleep 0.05\nprintf '%s'\n"
                % EH_CGI.decode().replace("\n", "\\n"))
    os.makedirs(os.path.join(srv.root, "errdocs"), exist_ok=True)
    with open(os.path.join(srv.root, "errdocs", "status-404.html"), "wb") as f:
        f.write(ERRDOC_404)


def cgi_body(name):
    b = CGI[name][2]
    if isinstance(b, tuple):
        return b"".join(file_bytes(i) for i in b[1])
    return b


def e2e_cases(ctx, variant, rng):
    """list of (name, reqs, sched, segs) for one server variant"""
    cases = []
    nsz = len(SIZES)
    big = [i for i in range(nsz) if SIZES[i] >= 65535]
    kareq = variant["kareq"]
    if variant.get("proxy"):
        # a backend that answers before the request body is complete (server.stream-request-body 1/2): the rest of the
        # body must never be answered as if it were new requests - responses <= requests, then the connection ends
        smug = b"GET /f_1.bin HTTP/1.1\r\nHost: localhost\r\n\r\n"
        def early(kind, head, first, rest):
            q = Req(head + first, 200, b"early", ka=0, kind="proxy-early-" + kind, model=None)
            q.lenient_close = True
            return ("proxy-early-" + kind, [q], None, [(head + first, 0.5), (rest, 0.3)])
        for k in range(3 if ctx.quick else 8):
            first = pat(k, rng.choice([1, 5, 60]))
            hd = b"POST /px/early?%d HTTP/1.1\r\nHost: localhost\r\nTransfer-Encoding: chunked\r\n\r\n" % k
            cases.append(early("chunked", hd, b"%x\r\n" % len(first) + first + b"\r\n",
                               b"%x\r\n" % len(smug) + smug + b"\r\n" + b"%x\r\n" % len(smug) + smug + b"\r\n0\r\n\r\n"))
            total = 200 + k
            hd = b"POST /px/early?%d HTTP/1.1\r\nHost: localhost\r\nContent-Length: %d\r\n\r\n" % (k, total)
            cases.append(early("cl", hd, first, (smug * 8)[:total - len(first)]))
        # the normal case through the same proxy: complete bodies, keep-alive continues
        body = pat(5, 3000)
        for k in range(2):
            q1 = Req(req_bytes("POST", "/px/full", 1, ["Content-Length: %d" % len(body)], body=body), 200, b"len=%d" % len(body),
                     kind="proxy-full-cl", model=None)
            ch = b"".join(b"%x\r\n" % len(body[i:i + 700]) + body[i:i + 700] + b"\r\n" for i in range(0, len(body), 700)) + b"0\r\n\r\n"
            q2 = Req(req_bytes("POST", "/px/full", 1, ["Transfer-Encoding: chunked"], body=ch), 200, b"len=%d" % len(body),
                     kind="proxy-full-chunked", model=None)
            cases.append(("proxy-full", [q1, q2, static_req(1), static_req(2, close=True)], None, None))
        return cases
    if variant.get("eh"):
        # error handlers (static file / CGI; error-handler and error-handler-404) x HEAD/GET/POST x pipelining:
        # a HEAD response has no body octets and the next response starts right behind its header section
        def ehreq(meth, e, ver=1, close=False, ka10=False):
            hd, body = [], b""
            if meth == "POST":
                hd, body = ["Content-Length: 10"], b"0123456789"
            if ka10:
                hd.append("Connection: keep-alive")
            close = close or meth == "POST"      # (an unread request body ends keep-alive on some of these paths)
            ka = 0 if close else (1 if ver else int(ka10))
            q = Req(req_bytes(meth, "/%s/missing-%d" % (e, rng.randrange(1000)), ver, hd, close, body), (200, 404),
                    b"" if meth == "HEAD" else EH_BODY[e], head=meth == "HEAD", ver=ver, ka=ka, kind="errhandler-%s-%s" % (e, meth),
                    model=None)
            if not ver and ka and EH_BODY[e] is EH_CGI:
                q.adaptive = True       # a streamed CGI body to HTTP/1.0 is close-delimited
            return q
        es = sorted(EH_BODY)
        for e in es:
            cases.append(("eh-%s" % e, [ehreq("HEAD", e), static_req(1), ehreq("GET", e), ehreq("HEAD", e), static_req(2, "HEAD"),
                                        ehreq("GET", e, close=True)], None, None))
            cases.append(("eh10-%s" % e, [ehreq("HEAD", e, 0, ka10=True), ehreq("GET", e, 0, ka10=True), ehreq("HEAD", e, 0)], None, None))
            cases.append(("ehpost-%s" % e, [ehreq("HEAD", e), ehreq("POST", e)], None, None))
        mix = []
        for _ in range(16 if ctx.quick else 60):
            mix.append(ehreq(rng.choice(["HEAD", "HEAD", "GET"]), rng.choice(es)))
            if rng.random() < 0.3:
                mix.append(static_req(rng.randrange(6), rng.choice(["GET", "HEAD"])))
        mix.append(static_req(0, close=True))
        cases.append(("eh-pipeline-mix", mix, None, None))
        cases.append(("eh-pipeline-mix-slow", mix, (2048, 0.2, 500, 0.0005), None))
        return cases
    if variant.get("kaidle") == 0:
        # keep-alive switched off by configuration: every response closes the connection
        for i in (0, 1, 5, 12):
            q = static_req(i)
            q.ka = 0
            q.model = [mline(200, "G", 1, 1, 1, 64 | 8, SIZES[i], SIZES[i])]
            cases.append(("kaidle0-%d" % SIZES[i], [q, static_req(1)], None, None))
        q = Req(req_bytes("GET", "/nope"), 404, "errpage", ka=0, kind="404-kaidle0", model=[mline(404, "G", 1, 1, 1, 64 | 8, None, 0)])
        cases.append(("kaidle0-404", [q], None, None))
        q = static_req(2, ver=0, ka10=True)
        q.ka = 0
        q.model = [mline(200, "G", 0, 1, 1, 64 | 8, SIZES[2], SIZES[2])]
        cases.append(("kaidle0-1.0", [q], None, None))
        return cases
    if kareq < 100:
        # custom error document (server.errorfile-prefix): body is that file, Content-Length exact
        reqs = [Req(req_bytes("GET", "/missing"), 404, ERRDOC_404, kind="404-errorfile", model=None),
                Req(req_bytes("HEAD", "/missing"), 404, b"", head=True, kind="404-errorfile-head", model=None, cl=len(ERRDOC_404)),
                Req(req_bytes("GET", "/missing", 0), 404, ERRDOC_404, ver=0, ka=0, kind="404-errorfile-1.0", model=None)]
        cases.append(("errorfile", reqs, None, None))
        # keep-alive request limit: the (kareq+1)-th response closes the connection
        reqs = []
        for j in range(kareq + 3):
            q = static_req(rng.randrange(6), ver=1, kareq=(j + 1 > kareq))
            if j + 1 > kareq:
                q.ka = 0
                q.model = [mline(200, "G", 1, 1, 1, 64 | 4, SIZES[int(re.search(rb"f_(\d+)", q.raw).group(1))],
                                 SIZES[int(re.search(rb"f_(\d+)", q.raw).group(1))])]
            reqs.append(q)
        cases.append(("ka-limit", reqs, None, None))
        reqs = [static_req(1, ver=0, ka10=True), static_req(2, ver=0, ka10=True), static_req(3, ver=0, ka10=True, kareq=True)]
        reqs[-1].ka = 0
        reqs[-1].model = [mline(200, "G", 0, 1, 1, 64 | 4, SIZES[3], SIZES[3])]
        cases.append(("ka-limit-1.0", reqs, None, None))
        return cases
    for i in range(nsz):
        size = SIZES[i]
        full = file_bytes(i)
        # exchange 1: GET, HEAD, GET+close on one connection
        cases.append(("static-%d" % size, [static_req(i), static_req(i, "HEAD"), static_req(i, close=True)], None, None))
        # HTTP/1.0 keep-alive then plain 1.0
        cases.append(("static10-%d" % size, [static_req(i, ver=0, ka10=True), static_req(i, "HEAD", ver=0, ka10=True),
                                             static_req(i, ver=0)], None, None))
        # ranges / conditionals (validators are fetched first by the runner: placeholders @ETAG@ / @LM@)
        reqs = [Req(req_bytes("GET", "/f_%d.bin" % i, 1, [b"If-None-Match: @ETAG@"]), 304, b"", kind="304-inm", cl=None,
                    model=[mline(304, "G", 1, 1, 1, 64, None, 0)]),
                Req(req_bytes("HEAD", "/f_%d.bin" % i, 1, [b"If-Modified-Since: @LM@"]), 304, b"", head=True, kind="304-ims-head",
                    model=[mline(304, "H", 1, 1, 1, 64, None, 0)])]
        if size > 0:
            a = rng.randrange(size)
            b = rng.randrange(a, size)
            pts = sorted(set([0, size - 1, min(size - 1, 4096), min(size - 1, size // 2)]))
            for (x, y, spec) in [(a, b, "%d-%d" % (a, b)), (0, 0, "0-0"), (size - 1, size - 1, "-1"),
                                 (max(0, size - 4097), size - 1, "%d-" % max(0, size - 4097)), (0, size - 1, "0-%d" % (size + 5))]:
                reqs.append(Req(req_bytes("GET", "/f_%d.bin" % i, 1, ["Range: bytes=" + spec]), 206, full[x:y + 1], kind="206",
                                model=[mline(206, "G", 1, 1, 1, 64, y - x + 1, y - x + 1)],
                                extra={"content-range": b"bytes %d-%d/%d" % (x, y, size)}))
            reqs.append(Req(req_bytes("HEAD", "/f_%d.bin" % i, 1, ["Range: bytes=0-0"]), 200, b"", head=True, kind="head-range",
                            model=[mline(200, "H", 1, 1, 1, 64, size, size)], cl=size))
            reqs.append(Req(req_bytes("GET", "/f_%d.bin" % i, 1, ["Range: bytes=%d-" % size]), 416, "errpage", kind="416",
                            model=[mline(416, "G", 1, 1, 1, 64, None, 0)]))
            if size >= 3:
                m1, m2 = size // 3, 2 * size // 3
                rr = [(0, 0), (m1, m1 + min(100, size - m1 - 1) if m1 + 1 < m2 else m1), (size - 1, size - 1)]
                rr = [(x, y) for x, y in rr]
                if rr[1][1] + 81 < rr[2][0] and rr[0][1] + 81 < rr[1][0]:
                    reqs.append(Req(req_bytes("GET", "/f_%d.bin" % i, 1, ["Range: bytes=" + ",".join("%d-%d" % p for p in rr)]), 206,
                                    ("multipart", full, rr), kind="206-multi", model=None))
            reqs.append(Req(req_bytes("GET", "/f_%d.bin" % i, 0, ["Range: bytes=0-0"]), 200, full, ver=0, ka=0, kind="range-on-1.0",
                            model=[mline(200, "G", 0, 1, 0, 64, size, size)], cl=size))
        else:
            reqs.append(static_req(i, close=True))
        if reqs[-1].ka:
            reqs.append(static_req(i, close=True))
        cases.append(("cond-range-%d" % size, reqs, None, "validators:%d" % i))
    # slow / paced readers on the large files
    scheds = [(2048, 0.4, 1000, 0), (4096, 0.25, 16384, 0.002), (2048, 0.0, 700, 0.0005), (0, 0.3, 65536, 0.001),
              (8192, 0.5, 262144, 0)]
    for i in big:
        k = 2 if ctx.quick else len(scheds)
        for sc in rng.sample(scheds, k):
            cases.append(("slow-%d" % SIZES[i], [static_req(i), static_req(rng.choice(big)), static_req(i, close=True)], sc, None))
    # several MiB outstanding while the client does not read: the socket buffers fill up, so that
    # write/writev/sendfile return short or EAGAIN in the real server
    bigs = [static_req(rng.choice(big[-6:])) for _ in range(7 if ctx.quick else 14)] + [static_req(big[-1], close=True)]
    cases.append(("pipeline-big-stalled", bigs, (2048, 0.6, 65536, 0), None))
    cases.append(("pipeline-big-trickle", bigs, (2048, 0.3, 30000, 0.0004), None))
    # one long pipeline mixing everything small
    mix = []
    for _ in range(12 if ctx.quick else 40):
        j = rng.randrange(nsz if rng.random() < 0.3 else 8)
        mix.append(static_req(j, rng.choice(["GET", "GET", "HEAD"]), ver=1))
        if rng.random() < 0.3:
            mix.append(Req(req_bytes("GET", "/nonexistent-%d" % rng.randrange(99)), 404, "errpage", kind="404",
                           model=[mline(404, "G", 1, 1, 1, 64, None, 0)]))
    mix.append(static_req(2, close=True))
    cases.append(("pipeline-mix", mix, None, None))
    cases.append(("pipeline-mix-slow", mix, (2048, 0.3, 3000, 0.0005), None))
    # 404 / 400 / directory redirects with CR LF tricks
    lenient = variant["ctrls"]            # url-ctrls-reject disabled: %0d%0a decode to "__" instead of a 400
    reqs = []
    for t, ctl in [("/nope", 0), ("/nope%0d%0aX-Injected:%20y", 1), ("/f_1.bin%00", 1), ("/%0d%0a%0d%0aHTTP/1.1%20200%20OK%0d%0a%0d%0a", 1),
                   ("/dir/none", 0), ("/nope%7f", 1), ("/f_1.bin?%0d%0aX:%20y", 1)]:
        if ctl and not lenient:
            for m in ("GET", "HEAD"):
                cases.append(("ctl-400", [Req(req_bytes(m, t), 400, b"" if m == "HEAD" else "errpage", head=m == "HEAD", ka=0, kind="400-ctl",
                                              model=[mline(400, m[0], 1, 1, 0, 64, None, 0)])], None, None))
            continue
        if "?" in t:
            reqs.append(static_req(1))
            reqs[-1].raw = req_bytes("GET", t)
            continue
        reqs.append(Req(req_bytes("GET", t), 404, "errpage", kind="404", model=[mline(404, "G", 1, 1, 1, 64, None, 0)]))
        reqs.append(Req(req_bytes("HEAD", t), 404, b"", head=True, kind="404-head", model=[mline(404, "H", 1, 1, 1, 64, None, 0)]))
    for d, t, qs, ctl in [("dir", "/dir", "", 0), ("dir", "/dir", "a=1&b=%0d%0aSet-Cookie:x", 1), ("d ir", "/d%20ir", "", 0),
                          ("d\"q<r>", "/d%22q%3Cr%3E", "q", 0), ("dé", "/d%c3%a9", "", 0), ("d__X-Injected: y", "/d%0d%0aX-Injected:%20y", "", 1),
                          ("d__X-Injected: y", "/d%0D%0aX-Injected:%20y", "z=%0a", 1), ("d%41", "/d%2541", "", 0), ("d;a=b&c", "/d;a=b&c", "", 0),
                          ("dir", "/./x/../dir", "", 0), ("dir", "//dir", "", 0)]:
        tt = t + ("?" + qs if qs else "")
        if ctl and not lenient:
            cases.append(("ctl-400", [Req(req_bytes("GET", tt), 400, "errpage", ka=0, kind="400-ctl",
                                          model=[mline(400, "G", 1, 1, 0, 64, None, 0)])], None, None))
            continue
        reqs.append(Req(req_bytes("GET", tt, 1), 301, b"", kind="301-dir", model=[mline(301, "G", 1, 1, 1, 64, None, 0)],
                        loc=(("/" + d).encode("utf-8"), up_esc(qs.encode()))))
        cases.append(("redirect-1.0", [Req(req_bytes("GET", tt, 0), 301, b"", ver=0, ka=0, kind="301-dir-1.0",
                                           model=[mline(301, "G", 0, 1, 0, 64, None, 0)], loc=(("/" + d).encode("utf-8"), up_esc(qs.encode())))], None, None))
    reqs.append(static_req(0, close=True))
    cases.append(("errors-redirects", reqs, None, None))
    # CGI: streamed / buffered dynamic responses
    stream = variant["stream"]
    for name, (_, status, _, dcl) in CGI.items():
        if name == "s_echo.sh":
            continue
        body = cgi_body(name)
        for ver, meth in ((1, "GET"), (0, "GET"), (1, "HEAD")):
            head = meth == "HEAD"
            m = "H" if head else "G"
            fins = [1] if stream == 0 else [0, 1]
            # first on a kept-alive connection, then a static file to prove the delimitation, then close
            ka = 1 if ver else 0
            fl = 1 | 64
            md = [mline(status, m, ver, f, ka, fl, dcl, len(body)) for f in fins]
            q = Req(req_bytes(meth, "/" + name, ver), status, b"" if head else body, head=head, ver=ver, ka=ka, kind="cgi-" + name,
                    model=md, cl=dcl)
            # a streamed body to HTTP/1.0 is close-delimited: the model clears keep-alive
            q.ka_model_decides = True
            if ver:
                cases.append(("cgi-%s-%s" % (name, meth), [q, static_req(1), static_req(3, close=True)], None, None))
            else:
                cases.append(("cgi10-%s" % name, [q], None, None))
    # backend producers: declared Content-Length (or none) x write schedules (burst across the 64 KiB spill to a temp
    # file, dribbles of 1..8191 bytes, pauses): the body must arrive byte-exact and as long as declared
    profs = list(PROFILES)
    for _ in range(2 if ctx.quick else 25):
        total = rng.choice([66000, 100000, 180000, 262145])
        burst = rng.choice([0, 1, 30000, 65535, 65536, 65537, 90000, 131073])
        piece = rng.choice([1, 2, 13, 100, 999, 1000, 2000, 4096, 8191, 8192, 9000])
        cnt = min(300, max(1, (total - burst) // piece)) if piece < 50 else rng.randint(5, 60)
        profs.append((total, "w%d.s%d.r%dx%dg%d" % (burst, rng.choice([0, 5, 40]), piece, cnt, rng.choice([0, 1, 3, 10])), rng.choice([1, 1, 1, 0])))
    fins_p = [1] if stream == 0 else [0, 1]
    for k, prof in enumerate(profs):
        q = producer_req(rng, prof, fins=fins_p)
        cases.append(("producer-%d" % k, [q, static_req(1), static_req(3, close=True)], None if k % 3 else (4096, 0.05, 3000, 0.0003), None))
    cases.append(("producer-head", [producer_req(rng, profs[0], meth="HEAD", fins=fins_p), static_req(1, close=True)], None, None))
    cases.append(("producer-1.0", [producer_req(rng, profs[1], ver=0, fins=fins_p)], None, None))
    cases.append(("producer-1.0-ka", [producer_req(rng, profs[2], ver=0, fins=fins_p, ka10=True), static_req(1, ver=0)], None, None))
    cases.append(("producer-1.0-ka-nocl", [producer_req(rng, profs[8], ver=0, fins=fins_p, ka10=True), static_req(1, ver=0)], None, None))
    two = [producer_req(rng, profs[5], fins=fins_p), producer_req(rng, profs[6], fins=fins_p), static_req(2, close=True)]
    cases.append(("producer-pipeline", two, None, None))
    # chunked backend responses: the first flush (header + part of the encoded body) ends at EVERY octet position of
    # the first chunks; Content-Length next to Transfer-Encoding in both field orders (the client must get one
    # self-delimiting message with exactly the decoded body)
    def chunked_req(flush, chunks="5.7.1", total=40, clv="", order="tc", ver=1, meth="GET"):
        seed = rng.randint(0, 250)
        t = "/prod.py?seed=%d&total=%d&te=1&chunks=%s&flush=%d&fgap=%d&clv=%s&order=%s" % (
            seed, total, chunks, flush, rng.choice([40, 70]), clv, order)
        head = meth == "HEAD"
        return Req(req_bytes(meth, t, ver), 200, b"" if head else pat(seed, total), head=head, ver=ver, ka=1 if ver else 0,
                   kind="backend-chunked-%s%s" % (meth, "-cl" + order if clv else ""), model=None)
    enc_len = (3 + 5 + 2) + (3 + 7 + 2) + (3 + 1 + 2) + 4
    sweep = list(range(0, enc_len + 1)) if (stream or not ctx.quick) else list(range(0, enc_len + 1, 3))
    for fl in sweep:
        cases.append(("backend-chunked-flush", [chunked_req(fl), static_req(1), static_req(3, close=True)], None, None))
    for fl in (0, 3, 8, 9, 10, 13):
        cases.append(("backend-chunked-flush-1.0", [chunked_req(fl, ver=0)], None, None))
    for order in ("ct", "tc"):
        for clv in ("40", "66", "0", "7"):
            for fl in (0, 8, 200):
                cases.append(("backend-cl-and-te", [chunked_req(fl, clv=clv, order=order), static_req(1), static_req(2, close=True)],
                              None, None))
    cases.append(("backend-chunked-big", [chunked_req(70000, chunks="65536.1.70000", total=200000), static_req(1, close=True)], None, None))
    cases.append(("backend-chunked-head", [chunked_req(8, meth="HEAD"), static_req(1, close=True)], None, None))
    # Expect: 100-continue, body echoed by a CGI
    payload = pat(77, 3000)
    hdr = req_bytes("POST", "/s_echo.sh", 1, ["Content-Length: %d" % len(payload), "Expect: 100-continue"])
    fins = [1] if stream == 0 else [0, 1]
    q = Req(hdr + payload, 200, payload, kind="expect-100", model=[mline(200, "P", 1, f, 1, 1 | 64, None, len(payload)) for f in fins])
    for _ in range(12 if variant.get("shim") else 1):
        cases.append(("expect-100", [q, static_req(2, close=True)], None, [(hdr, "wait100"), (payload + static_req(2, close=True).raw, 0)]))
    # HTTP/1.0 keep-alive request for a streamed body: the response path must switch keep-alive off
    for name in ("s_two.sh", "s_big.sh", "s_empty.sh"):
        body = cgi_body(name)
        md = [mline(200, "G", 0, f, 1, 1 | 64, None, len(body)) for f in fins]
        q = Req(req_bytes("GET", "/" + name, 0, ["Connection: keep-alive"]), 200, body, ver=0, ka=1, kind="cgi10ka-" + name, model=md)
        q.adaptive = True
        cases.append(("cgi10-keepalive-%s" % name, [q, static_req(1, ver=0, ka10=True), static_req(2, ver=0)], None, None))
    return cases


class EarlyBackend:
    """HTTP/1.1 origin behind mod_proxy: /px/early answers as soon as it has the request head (before the request
    body is complete), /px/full reads the whole body first and reports its length"""

    def __init__(self):
        self.s = socket.socket()
        self.s.setsockopt(socket.SOL_SOCKET, socket.SO_REUSEADDR, 1)
        self.s.bind(("127.0.0.1", 0))
        self.s.listen(32)
        self.port = self.s.getsockname()[1]
        self.stop = False
        import threading
        self.t = threading.Thread(target=self.loop, daemon=True)
        self.t.start()

    def loop(self):
        import threading
        self.s.settimeout(0.5)
        while not self.stop:
            try:
                c, _ = self.s.accept()
            except socket.timeout:
                continue
            except OSError:
                break
            threading.Thread(target=self.handle, args=(c,), daemon=True).start()

    def handle(self, c):
        try:
            c.settimeout(5)
            buf = b""
            while b"\r\n\r\n" not in buf:
                d = c.recv(65536)
                if not d:
                    return
                buf += d
            head, _, body = buf.partition(b"\r\n\r\n")
            if b"/px/early" in head.split(b"\r\n")[0]:
                c.sendall(b"HTTP/1.1 200 OK\r\nContent-Type: text/plain\r\nContent-Length: 5\r\nConnection: close\r\n\r\nearly")
                c.settimeout(1.5)
                try:
                    while c.recv(65536):
                        pass
                except OSError:
                    pass
                return
            m = re.search(rb"(?i)content-length: *(\d+)", head)
            if m:
                n = int(m.group(1))
                while len(body) < n:
                    d = c.recv(65536)
                    if not d:
                        break
                    body += d
                ln = len(body)
            else:
                while not body.endswith(b"0\r\n\r\n"):
                    d = c.recv(65536)
                    if not d:
                        break
                    body += d
                dec = dechunk_strict(body)
                ln = -1 if dec is None else len(dec)
            msg = b"len=%d" % ln
            c.sendall(b"HTTP/1.1 200 OK\r\nContent-Type: text/plain\r\nContent-Length: %d\r\n\r\n%s" % (len(msg), msg))
        except OSError:
            pass
        finally:
            try:
                c.close()
            except OSError:
                pass

    def close(self):
        self.stop = True
        try:
            self.s.close()
        except OSError:
            pass


def vname_of(v):
    return "%(backend)s/stream%(stream)d/kareq%(kareq)d/ctrls%(ctrls)d" % v + ("/kaidle0" if v.get("kaidle") == 0 else "") \
        + ("/errhandler" if v.get("eh") else "") + ("/proxy-srb%d" % v["srb"] if v.get("proxy") else "") \
        + ("/faultshim" if v.get("shim") else "")


def run_variant(ctx, bd, variant, rng, results):
    env = None
    shim_log = None
    if variant.get("shim"):
        so = build_shim()
        if so:
            shim_log = os.path.join(C.scratch_dir("shimlog"), "counts")
            env = {"LD_PRELOAD": so, "LTV_FAULT_SEED": str(variant["shim"]), "LTV_FAULT_LOG": shim_log,
                   "ASAN_OPTIONS": "detect_leaks=0:abort_on_error=1:handle_abort=1:verify_asan_link_order=0"}
    backend = None
    if variant.get("proxy"):
        backend = EarlyBackend()
        variant = dict(variant)
        variant["extra"] = ('server.stream-request-body = %d\n$HTTP["url"] =~ "^/px/" { proxy.server = ("" => (("host" => '
                            '"127.0.0.1", "port" => %d))) }' % (variant["srb"], backend.port))
    srv = e2e.Server(bd, CONF % variant, modules=("mod_cgi", "mod_proxy") if backend else ("mod_cgi",), env=env)
    build_docroot(srv)
    cases = e2e_cases(ctx, variant, rng)
    vname = vname_of(variant)
    validators = {}

    stalls = [0]       # exchanges of this server in which the client's patience ran out (connection still open)

    def one(case, patience=None):
        name, reqs, sched, extra = case
        segs = None
        if patience is None:
            # a server that keeps connections open systematically (a broken close path) is established after
            # three such exchanges; the remaining cases need not each wait the full patience to say so again
            patience = 25.0 if stalls[0] < 3 else 4.0
        if isinstance(extra, str) and extra.startswith("validators:"):
            i = int(extra.split(":")[1])
            if i not in validators:
                d0, c0 = client(srv.port, req_bytes("HEAD", "/f_%d.bin" % i, 1, close=True))
                try:
                    r0 = e2e.parse_responses(d0, head_for=[True], closed=c0)[0]
                    validators[i] = (e2e.hdr(r0, "etag") or b"\"none\"", e2e.hdr(r0, "last-modified") or b"x")
                except (e2e.RespParseError, IndexError):
                    validators[i] = (b"\"none\"", b"x")
            et, lm = validators[i]
            for q in reqs:
                q.raw = q.raw.replace(b"@ETAG@", et).replace(b"@LM@", lm)
        elif isinstance(extra, list):
            segs = extra
        data = b"".join(q.raw for q in reqs)
        t0 = time.time()
        try:
            got, closed = client(srv.port, data, sched, segs=segs, patience=patience)
        except OSError as ex:
            return (vname, name, reqs, sched, "client I/O error: %s" % ex, [], b"")
        if not closed:
            stalls[0] += 1
        # the model decides whether a streamed CGI response keeps the connection: expected count follows observation
        msg, obs = check_exchange_adaptive(reqs, got, closed)
        return (vname, name, reqs, sched, msg, obs, got)

    faults = None
    started = False
    transient = []
    for attempt in range(3):            # a loaded machine may need more than one try; never an alarm by itself
        try:
            srv.start(timeout=20 + 20 * attempt)
            started = True
            break
        except RuntimeError as ex:
            srv.stop()
            last_err = str(ex)[-400:]
            time.sleep(1 + attempt)
    if not started:
        results.append((vname, [], None, True, "", ("skipped", last_err)))
        return
    try:
        tracer = None
        if variant.get("strace") and shutil.which("strace"):
            tf = os.path.join(srv.root, "strace.out")
            try:
                tracer = subprocess.Popen(["strace", "-f", "-qq", "-e", "trace=write,writev,sendfile", "-o", tf, "-p",
                                           str(srv.proc.pid)], stdout=subprocess.DEVNULL, stderr=subprocess.DEVNULL)
                time.sleep(0.5)
            except OSError:
                tracer = None
        with ThreadPoolExecutor(4) as ex:
            out = list(ex.map(one, cases))
        # Confirmation of every oracle hit.  The first pass runs 4 clients per server and a dozen sanitized
        # servers at once; on a starved machine a transfer can stall long enough to look truncated.  A defect
        # of the server is a property of the (request bytes, read schedule) and shows again when the same
        # case is run alone against the same server with a patient client; an artefact of load does not.
        # A hit counts iff it recurs at least once (fault-shim servers draw a new fault schedule per
        # connection, so they get more attempts).  Hits that never recur are listed in the evidence notes.
        tries = 4 if variant.get("shim") else 2
        confirmed = 0
        for idx in range(len(out)):
            if not out[idx][4] or not srv.alive():
                continue
            if confirmed >= 5:
                continue        # five confirmed hits on this server: systematic; the rest stand as observed
            recurred = None
            for _ in range(tries):
                r2 = one(cases[idx], patience=60.0 if confirmed == 0 else 30.0)
                if r2[4]:
                    recurred = r2
                    break
                if not srv.alive():
                    break
            if recurred is not None:
                out[idx] = recurred
                confirmed += 1
            elif srv.alive():
                transient.append("%s/%s: '%s' seen once under the parallel first pass, not in %d serial repeats of the "
                                 "same case (load artefact, not reported)" % (vname, out[idx][1], out[idx][4][:90], tries))
                out[idx] = r2
        if tracer is not None:
            tracer.send_signal(signal.SIGINT)
            try:
                tracer.wait(10)
            except subprocess.TimeoutExpired:
                tracer.kill()
            try:
                faults = count_write_faults(open(tf, errors="replace").read())
            except OSError:
                faults = None
        rep = srv.sanitizer_report()
        alive = srv.alive()
    finally:
        srv.stop()
        if backend:
            backend.close()
    if shim_log:
        try:
            c = [int(x) for x in open(shim_log).read().split()]
            faults = ("shim", c[0], c[1], c[2], c[3])
        except (OSError, ValueError, IndexError):
            faults = ("shim", 0, 0, 0, 0)
    for t in transient:
        ctx.notes.append("e2e transient: " + t)
    results.append((vname, out, rep, alive, srv.logs()[-1500:] if (rep or not alive) else "", faults))


SHIM_SRC = r"""
/* LD_PRELOAD fault shim for the real server: write()/writev()/sendfile() on sockets are made to
 * return short counts, EAGAIN or EINTR following a seeded pseudo-random schedule */
#define _GNU_SOURCE
#include <dlfcn.h>
#include <errno.h>
#include <fcntl.h>
#include <stdio.h>
#include <stdlib.h>
#include <string.h>
#include <sys/sendfile.h>
#include <sys/stat.h>
#include <sys/uio.h>
#include <unistd.h>
static ssize_t (*real_write)(int, const void *, size_t);
static ssize_t (*real_writev)(int, const struct iovec *, int);
static ssize_t (*real_sendfile)(int, int, off_t *, size_t);
static ssize_t (*real_sendfile64)(int, int, off_t *, size_t);
static unsigned long long st = 88172645463325252ULL;
static long n_calls, n_short, n_again, n_intr;
static const char *logp;
static unsigned rnd(void) { st = st * 6364136223846793005ULL + 1442695040888963407ULL; return (unsigned)(st >> 33); }
static int is_sock(int fd) { struct stat s; return 0 == fstat(fd, &s) && S_ISSOCK(s.st_mode); }
static void flush_counts(void) {
    if (!logp || !real_write) return;
    int fd = open(logp, O_WRONLY | O_CREAT | O_TRUNC, 0644);
    if (fd < 0) return;
    char b[128];
    int l = snprintf(b, sizeof(b), "%ld %ld %ld %ld\n", n_calls, n_short, n_again, n_intr);
    if (real_write(fd, b, (size_t)l)) {}
    close(fd);
}
__attribute__((constructor)) static void init(void) {
    real_write = dlsym(RTLD_NEXT, "write");
    real_writev = dlsym(RTLD_NEXT, "writev");
    real_sendfile = dlsym(RTLD_NEXT, "sendfile");
    real_sendfile64 = dlsym(RTLD_NEXT, "sendfile64");
    const char *s = getenv("LTV_FAULT_SEED");
    if (s) st ^= strtoull(s, NULL, 10) * 0x9E3779B97F4A7C15ULL;
    logp = getenv("LTV_FAULT_LOG");
}
__attribute__((destructor)) static void fini(void) { flush_counts(); }
/* 0 = pass through, 1 = short (*n reduced), 2 = EAGAIN, 3 = EINTR */
static int decide(size_t *n) {
    ++n_calls;
    unsigned r = rnd();
    int k = 0;
    switch (r & 7) {
      case 0: case 1:
        if (*n > 1) {
            unsigned m = rnd();
            size_t cut = (m & 3) == 0 ? 1 : (m & 3) == 1 ? *n - 1 : 1 + (size_t)(rnd() % (*n - 1));
            *n = cut; ++n_short; k = 1;
        }
        break;
      case 2: ++n_again; k = 2; break;
      case 3: if ((r >> 3) & 1) { ++n_intr; k = 3; } break;
      default: break;
    }
    if (k && 0 == ((n_short + n_again + n_intr) & 31)) flush_counts();
    return k;
}
ssize_t write(int fd, const void *buf, size_t n) {
    if (!real_write) init();
    if (n && is_sock(fd)) {
        switch (decide(&n)) { case 2: errno = EAGAIN; return -1; case 3: errno = EINTR; return -1; default: break; }
    }
    return real_write(fd, buf, n);
}
ssize_t writev(int fd, const struct iovec *iov, int cnt) {
    if (!real_writev) init();
    if (cnt > 0 && is_sock(fd)) {
        size_t total = 0;
        for (int i = 0; i < cnt; ++i) total += iov[i].iov_len;
        size_t n = total;
        if (n) switch (decide(&n)) { case 2: errno = EAGAIN; return -1; case 3: errno = EINTR; return -1; default: break; }
        if (n < total) {
            struct iovec v[64];
            int m = 0;
            for (int i = 0; i < cnt && i < 64 && n; ++i) {
                v[m] = iov[i];
                if (v[m].iov_len > n) v[m].iov_len = n;
                n -= v[m].iov_len;
                ++m;
            }
            return real_writev(fd, v, m);
        }
    }
    return real_writev(fd, iov, cnt);
}
ssize_t sendfile(int out, int in, off_t *off, size_t n) {
    if (!real_sendfile) init();
    if (n && is_sock(out)) {
        switch (decide(&n)) { case 2: errno = EAGAIN; return -1; case 3: errno = EINTR; return -1; default: break; }
    }
    return real_sendfile(out, in, off, n);
}
/* (x86-64: off_t is 64 bits; the server is built with _FILE_OFFSET_BITS=64 and calls sendfile64) */
ssize_t sendfile64(int out, int in, off_t *off, size_t n) {
    if (!real_sendfile64) init();
    if (n && is_sock(out)) {
        switch (decide(&n)) { case 2: errno = EAGAIN; return -1; case 3: errno = EINTR; return -1; default: break; }
    }
    return (real_sendfile64 ? real_sendfile64 : real_sendfile)(out, in, off, n);
}
"""

_shim = [None]


def build_shim():
    """compile the fault shim into a scratch directory; returns the .so path or None"""
    if _shim[0] is None:
        d = C.scratch_dir("shim")
        src = os.path.join(d, "ltv_faultshim.c")
        with open(src, "w") as f:
            f.write(SHIM_SRC)
        so = os.path.join(d, "ltv_faultshim.so")
        r = C.run(["gcc", "-O1", "-shared", "-fPIC", "-o", so, src, "-ldl"])
        _shim[0] = so if r.returncode == 0 else False
        if r.returncode != 0:
            C.log("fault shim does not compile:\n" + r.stdout[-1500:])
    return _shim[0] or None


def count_write_faults(trace):
    """(EAGAIN/EINTR results, short write()/sendfile() results) of the real server, from an strace log"""
    again = len(re.findall(r"(?:write|writev|sendfile)\(.*= -1 (?:EAGAIN|EINTR)", trace))
    short = 0
    for m in re.finditer(r"(?:write|sendfile)\(\d+, .*, (\d+)\)\s+= (\d+)", trace):
        if int(m.group(2)) < int(m.group(1)):
            short += 1
    return again, short


def check_exchange_adaptive(reqs, got, closed):
    """a response whose keep-alive is decided by the response path (streamed body to HTTP/1.0) may
    legitimately end the connection early: the Lean model's prediction is compared afterwards"""
    msg, obs = check_exchange(reqs, got, closed)
    if msg:
        for i, q in enumerate(reqs):
            if getattr(q, "adaptive", False) and q.ka:
                import copy
                alt = [copy.copy(x) for x in reqs[:i + 1]]
                alt[-1].ka = 0
                msg2, obs2 = check_exchange(alt, got, closed)
                if msg2 is None:
                    return None, obs2
    return msg, obs


def run_e2e(ctx, only=None):
    bd, err = e2e.build_server()
    if bd is None:
        ctx.broken.append({"kind": "e2e-build", "names": ["lighttpd"], "log": (err or "")[-3000:]})
        return
    variants = [dict(backend=b, stream=s, kareq=100, ctrls=int((b == "writev") == (s == 1))) for b in ("writev", "sendfile") for s in (0, 1, 2)]
    variants.append(dict(backend="sendfile", stream=0, kareq=2, ctrls=0))
    variants.append(dict(backend="writev", stream=1, kareq=100, ctrls=0, kaidle=0))
    variants.append(dict(backend="sendfile", stream=0, kareq=100, ctrls=0, eh=1))
    variants.append(dict(backend="writev", stream=1, kareq=100, ctrls=0, eh=1))
    variants.append(dict(backend="sendfile", stream=1, kareq=100, ctrls=0, proxy=1, srb=1))
    variants.append(dict(backend="writev", stream=2, kareq=100, ctrls=0, proxy=1, srb=2))
    variants[5]["strace"] = True          # count the short / EAGAIN socket writes that happen naturally
    # the same server with write/writev/sendfile made to return short / EAGAIN / EINTR (LD_PRELOAD shim)
    variants.append(dict(backend="writev", stream=1, kareq=100, ctrls=0, shim=1 + ctx.seed))
    variants.append(dict(backend="sendfile", stream=0, kareq=100, ctrls=0, shim=101 + ctx.seed))
    if not ctx.quick:
        for k, (b, st) in enumerate([("writev", 0), ("writev", 2), ("sendfile", 1), ("sendfile", 2), ("writev", 1), ("sendfile", 0)]):
            variants.append(dict(backend=b, stream=st, kareq=100, ctrls=k % 2, shim=1000 + 17 * k + ctx.seed))
    for v in variants:
        v.setdefault("kaidle", 4)
        v["python"] = sys.executable
        v.setdefault("extra", "")
        v["errhandler"] = EH_CONF if v.get("eh") else ""
        v["errdoc"] = 'server.errorfile-prefix = "@ROOT@/errdocs/status-"' if v["kareq"] < 100 else ""
        v["parseopts"] = 'server.http-parseopts = ("url-ctrls-reject" => "disable")' if v["ctrls"] else ""
    if only is not None:
        variants = [v for v in variants if vname_of(v) == only] or variants
    results = []
    t0 = time.time()
    seeds = [ctx.rng.randrange(1 << 30) for _ in variants]
    with ThreadPoolExecutor(len(variants)) as ex:
        list(ex.map(lambda a: run_variant(ctx, bd, a[0], random.Random(a[1]), results), zip(variants, seeds)))
    # model predictions for every observed response
    lines, where = [], []
    nresp = 0
    for vname, out, rep, alive, logs, faults in results:
        if faults is not None and faults[0] == "skipped":
            ctx.notes.append("e2e %s SKIPPED: the server did not start (infrastructure): %s" % (vname, faults[1]))
            continue
        if faults is not None and faults[0] == "shim":
            ctx.faults_fired += faults[2] + faults[3] + faults[4]
            ctx.notes.append("e2e %s: fault shim in the real server: %d socket write calls, %d made short, %d EAGAIN, %d EINTR"
                             % (vname, faults[1], faults[2], faults[3], faults[4]))
        elif faults is not None:
            ctx.faults_fired += faults[0] + faults[1]
            ctx.notes.append("e2e %s under strace: %d EAGAIN/EINTR and %d short write()/sendfile() results occurred naturally "
                             "at the real socket" % (vname, faults[0], faults[1]))
        if rep or not alive:
            ctx.violation("e2e:sanitizer:%s" % vname, "server crashed / sanitizer report during the end-to-end stream (%s)" % vname,
                          {"property": ctx.pid, "kind": "e2e-sanitizer", "variant": vname, "report": (rep or "")[-3000:], "logs": logs})
        for (vn, name, reqs, sched, msg, obs, got) in out:
            ctx.evaluations += len(reqs)
            ctx.keys["e2e:%s:%s:%s" % (vn, re.sub(r"\d+", "N", name), "ok" if msg is None else "bad")] += 1
            ctx.dist["e2e:" + re.sub(r"-\d+", "", name)] += 1
            if msg:
                sig = re.sub(r"^response \d+ \([^)]*\): ", "", msg)
                sig = re.sub(r"b'.*", "", re.sub(r"\d+", "N", sig))[:70]
                ctx.violation("e2e:oracle:%s" % sig, msg,
                              {"property": ctx.pid, "kind": "e2e-oracle", "variant": vn, "case": name,
                               "requests": [C.hx(q.raw[:4096]) for q in reqs], "read_schedule": sched,
                               "received_head": C.hx(got[:600]), "received_len": len(got), "oracle_verdict": msg})
                continue
            for q, o, wl, loc in obs:
                nresp += 1
                if q.model:
                    lines.append(q.model)
                    where.append((vn, name, q, o, wl))
                if q.loc is not None and loc is not None:
                    lines.append(["redir 0 301 %s %s %s %s" % (C.hx(b"http"), C.hx(b"localhost"), C.hx(q.loc[0]), C.hx(q.loc[1]))])
                    where.append((vn, name, q, "301 " + C.hx(loc), "loc"))
    flat = [l for alts in lines for l in alts]
    mod, mrc, merr = C.run_model("h1resp", flat) if flat else ([], 0, "")
    if mrc != 0 or len(mod) != len(flat):
        ctx.broken.append({"kind": "model-run", "names": ["h1resp"], "log": merr[-2000:]})
        return
    k = 0
    ndis = 0
    for alts, (vn, name, q, o, wl) in zip(lines, where):
        preds = mod[k:k + len(alts)]
        k += len(alts)
        ok = False
        for p in preds:
            if wl == "loc":
                ok = ok or p == o
                continue
            f = dict(x.split("=", 1) for x in p.split(" "))
            canon = "cl=%s te=%s conn=%s ka=%s" % (f["cl"], f["te"], f["conn"], f["ka"])
            if canon == o and (wl is None or int(f["len"]) == wl):
                ok = True
        if not ok:
            ndis += 1
            if ndis <= 3:
                ctx.violation("e2e:corr:%s" % q.kind, "end-to-end response framing differs from the model's prediction (%s, %s)" % (vn, q.kind),
                              {"property": ctx.pid, "kind": "e2e-correspondence", "variant": vn, "case": name, "request": C.hx(q.raw[:400]),
                               "model_input": alts, "model_obs": preds, "impl_obs": o + " len=%s" % wl}, found=False)
    ctx.streams.append({"name": "e2e(real server: static files x backend x streaming x version x read pace, CGI, redirects)",
                        "cases": sum(len(r[1]) for r in results), "responses": nresp, "model_predictions": len(where),
                        "disagreements": ndis, "wall_s": round(time.time() - t0, 2)})
    ctx.sample({"stream": "e2e", "variant": results[0][0] if results else "", "responses_checked": nresp})


# ------------------------------------------------------------------ conn: the end of a response on the connection
CONN_OPS = ("rend", "pipe")
CONN_PEER = {0: True, 1: False, 2: True, 3: False}


def parse_end(out):
    """'<st> ka=.. done=.. sep=.. fin=.. closed=.. pend=.. eof=..' -> dict"""
    t = out.split(" ")
    d = {"st": t[0]}
    for kv in t[1:]:
        k, _, v = kv.partition("=")
        d[k] = int(v)
    return d


def oracle_end(d, peer, pending, may_continue, what):
    """the property on what connection_handle_response_end_state() left behind (independent of the model)"""
    if d["st"] == "rs":
        if not may_continue:
            return "connection goes on to the next request although %s" % what
        if d["fin"] or d["closed"] or d["eof"]:
            return "connection kept for the next request but shut down / closed (fin=%d closed=%d eof=%d)" % (
                d["fin"], d["closed"], d["eof"])
        if d["pend"] != pending:
            return "pipelined request bytes lost on keep-alive (%d of %d left)" % (d["pend"], pending)
        return None
    if d["st"] not in ("cl", "co"):
        return "unexpected connection state %s after the response" % d["st"]
    if d["fin"] != 1 and d["closed"] != 1:
        return "connection neither shut down nor closed after the last response (fin=%d closed=%d)" % (d["fin"], d["closed"])
    if peer and d["eof"] != 1:
        return "client does not see end-of-stream after a response that ends the connection"
    if d["st"] == "co" and d["pend"] != 0:
        return "closed connection still holds %d request bytes" % d["pend"]
    return None


def oracle_conn(line, out):
    t = line.split(" ")
    if out == "bad-op":
        return None
    try:
        if t[0] == "rend":
            h2, status, rl, ri, err, ka, sep, mode, pending = (int(x) for x in t[1:10])
            d = parse_end(out)
            why = []
            if h2: why.append("the request is not HTTP/1.x")
            if rl != ri: why.append("the request body was not read completely (%d of %d)" % (ri, rl))
            if err: why.append("the write state ended in error")
            if ka <= 0: why.append("keep-alive is off (%d)" % ka)
            return oracle_end(d, CONN_PEER[mode], pending, not why, "; ".join(why))
        if t[0] == "pipe":
            mode = int(t[1])
            wire = b""
            n = 0
            stop = None
            for i, tok in enumerate(t[2:]):
                ln, ka, wrote, rl, ri, status = (int(x) for x in tok.split(","))
                wire += pat(i, ln if wrote < 0 else min(ln, wrote))
                n += 1
                why = []
                if wrote >= 0: why.append("response %d ended in a write error" % i)
                if not ka: why.append("response %d has keep-alive off" % i)
                if rl != ri: why.append("request body %d not read completely" % i)
                if why:
                    stop = "; ".join(why)
                    break
            u = out.split(" ", 2)
            got_n = int(u[0][2:])
            got_len, got_ad = u[1][5:].split(":")
            if got_n != n:
                return "%d responses for a pipeline in which exactly %d requests are to be answered (%s)" % (
                    got_n, n, stop or "all keep-alive")
            if int(got_len) != len(wire) or got_ad != adler(wire):
                return "bytes on the connection are not the responses once each in request order (%s bytes, expected %d)" % (
                    got_len, len(wire))
            if u[2] == "open":
                return None if stop is None else "connection stays open although " + stop
            return oracle_end(parse_end(u[2]), True, len(t) - 2 - n, stop is None, stop or "")
    except (ValueError, IndexError, KeyError):
        return "unparsable harness output: " + out[:200]
    return None


def classify_conn(line, out):
    t = line.split(" ")
    if out == "bad-op":
        return "conn:bad-op"
    if t[0] == "rend":
        return "conn:rend:h2=%s:m%s:%s" % (t[1], t[8], " ".join(x for x in out.split(" ") if not x.startswith("pend=")))
    st = out.split(" ")[2] if len(out.split(" ")) > 2 else "?"
    return "conn:pipe:m%s:n%s/%d:%s" % (t[1], out.split(" ")[0][2:], len(t) - 2, st)


def gen_conn(ctx):
    rng = ctx.rng
    lines = []
    # exhaustive small scope: every combination of the inputs response_end looks at
    bodies = [(0, 0), (10, 10), (10, 4), (-1, 5), (-1, -1)]
    for h2, status, (rl, ri), err, ka, sep, mode, pend in itertools.product(
            (0, 1), (0, 200), bodies, (0, 1), (-1, 0, 1, 2), (0, 1), (0, 1, 2, 3), (0, 3)):
        lines.append("rend %d %d %d %d %d %d %d %d %d" % (h2, status, rl, ri, err, ka, sep, mode, pend))
        ctx.dist["conn:rend:exhaustive"] += 1
    # random, wide value ranges
    for _ in range(1500 if ctx.quick else 15000):
        rl = rng.choice([0, 0, rng.randrange(1, 1 << 20), -1, rng.randrange(1 << 40, 1 << 62), -rng.randrange(2, 100)])
        ri = rl if rng.random() < 0.6 else rng.choice([0, max(rl - 1, 0), rl + 1, rng.randrange(0, 1 << 20)])
        ka = rng.choice([1, 1, 1, 0, -1, 2, rng.randrange(-128, 128)])
        lines.append("rend %d %d %d %d %d %d %d %d %d" % (
            rng.random() < 0.1, rng.choice([0, 100, 200, 204, 304, 404, 500, 599]), rl, ri, rng.random() < 0.15, ka,
            rng.random() < 0.2, rng.choice([0, 0, 1, 2, 3]), rng.choice([0, 1, 17, 4096, rng.randrange(0, 60000)])))
        ctx.dist["conn:rend:random"] += 1
    # malformed: wrong arity, unknown descriptor mode
    for bad in ("rend", "rend 0 200 0 0 0 1 0 0", "rend 0 200 0 0 0 1 0 4 0", "rend 0 200 0 0 0 1 0 9 1 1", "pipe 0", "pipe 1 5,1,-1,0,0,200",
                "pipe 7 5,1,-1,0,0,200"):
        lines.append(bad)
        ctx.dist["conn:malformed"] += 1
    # pipelines: every sequence of <= 3 requests over a 6-letter alphabet, both descriptor modes
    alpha = ["7,1,-1,0,0,200", "7,0,-1,0,0,200", "7,1,-1,9,4,200", "7,1,3,0,0,200", "7,1,0,0,0,200", "0,1,-1,0,0,0"]
    for n in (1, 2, 3):
        for seq in itertools.product(alpha, repeat=n):
            for mode in (0, 2):
                lines.append("pipe %d %s" % (mode, " ".join(seq)))
                ctx.dist["conn:pipe:exhaustive<=3"] += 1
    sizes = [0, 1, 2, 4095, 4096, 4097, 16384, 65535, 65536, 65537, 131072, 200000]
    for _ in range(600 if ctx.quick else 6000):
        n = rng.randrange(1, 9)
        toks = []
        for i in range(n):
            ln = rng.choice(sizes) if rng.random() < 0.3 else rng.randrange(0, 3000)
            r = rng.random()
            last = (i == n - 1)
            p_stop = 0.5 if last else 0.12
            ka, wrote, rl, ri = 1, -1, 0, 0
            if r < p_stop:
                kind = rng.choice(["close", "err", "unread"])
                if kind == "close": ka = 0
                elif kind == "err": wrote = rng.choice([0, ln // 2, max(ln - 1, 0), ln, ln + 5])
                else: rl = rng.randrange(1, 1 << 20); ri = rng.randrange(0, rl)
                ctx.dist["conn:pipe:req:" + kind] += 1
            else:
                if rng.random() < 0.3: rl = ri = rng.randrange(1, 1 << 20)
                ctx.dist["conn:pipe:req:keep-alive"] += 1
            toks.append("%d,%d,%d,%d,%d,%d" % (ln, ka, wrote, rl, ri, rng.choice([200, 200, 404, 304, 0])))
        lines.append("pipe %d %s" % (rng.choice([0, 0, 2]), " ".join(toks)))
        ctx.dist["conn:pipe:random:len%d" % n] += 1
    return lines


def oracle(line, out):
    t = line.split(" ")
    if t[0] in CONN_OPS:
        return oracle_conn(line, out)
    if t[0] == "nw":
        return oracle_nw(t, out)
    if t[0] == "prep":
        return oracle_prep(t, out)
    return oracle_enc(t, out)


def classify(line, out):
    t = line.split(" ")
    if t[0] in CONN_OPS:
        return classify_conn(line, out)
    if t[0] == "nw":
        return classify_nw(t, out)
    if t[0] == "prep":
        return classify_prep(t, out)
    return classify_enc(t, out)


def run(ctx):
    exe, err = C.build_harness("h_h1resp")
    if exe is None:
        ctx.broken.append({"kind": "harness-build", "names": ["h_h1resp"], "log": err[-3000:]})
        return
    nw = gen_nw(ctx)
    ctx.differential("write-path(h_h1resp nw)", [exe], "h1resp", nw, oracle, classify)
    impl_ff, _, _ = C.parallel_lines([exe], nw[:4000])
    ctx.faults_fired += sum(int(m.group(1)) for o in impl_ff for m in [re.search(r" ff=(\d+)", o)] if m)
    ctx.differential("framing-table(h_h1resp prep)", [exe], "h1resp", gen_prep(ctx), oracle, classify)
    ctx.differential("encoders(h_h1resp enc/redir/clen)", [exe], "h1resp", gen_enc(ctx), oracle, classify)
    exe_c, err = C.build_harness("h_h1conn")
    if exe_c is None:
        ctx.broken.append({"kind": "harness-build", "names": ["h_h1conn"], "log": err[-3000:]})
        return
    ctx.differential("connection-end(h_h1conn rend/pipe)", [exe_c], "h1resp", gen_conn(ctx), oracle, classify)
    run_e2e(ctx)
    ctx.exhaustive = False
    ctx.notes.append("exhaustive sub-scopes: all write-result schedules of length <= %d over an 11-symbol alphabet on a "
                     "3-chunk message (both backends, two max_bytes); every short-write position x {EAGAIN, EINTR, 0} of four "
                     "fixed messages; the full framing table status(14) x method(4) x version x finished x keep-alive x "
                     "flag sets(8) x header sets x bodies; every byte value under each of the 4 encoding tables; every "
                     "input combination of connection_handle_response_end_state (2560) and every pipeline of <= 3 requests "
                     "over 6 request kinds x 2 descriptor modes (516)"
                     % (3 if ctx.quick else 4))
    ctx.assumptions += ["handler-declared Transfer-Encoding / Upgrade, bare 1xx final statuses, successful CONNECT and "
                        "handler-declared Content-Length that disagrees with the handler's own body are outside the "
                        "property oracle (C10 / tunnels); model and C are still compared on them",
                        "file chunks refer to files that are not truncated while queued (CqWF)",
                        "chunk sizes below 2^62 bytes",
                        "HAVE_PREADV2 platform: the mmap variant of the writev backend is not compiled"]
    ctx.rule = ("write path: random chunk layouts x fault schedules, every short-write position of fixed "
                "messages, all schedules <= 3 over an 11-symbol alphabet; framing: full decision table "
                "status x method x version x finished x keep-alive x flags x header sets x bodies; "
                "encoders: every byte under every table; connection end: every combination of version x status x "
                "body accounting x error x keep-alive x 1xx queue x descriptor mode x pipelined bytes, all pipelines "
                "<= 3 over 6 request kinds, random pipelines <= 8; distinct = (stream, class, outcome) tuples")


def replay(ctx, path):
    rep = json.load(open(path))
    print(json.dumps({k: (v if len(str(v)) < 600 else str(v)[:600] + "...") for k, v in rep.items() if k != "log"}, indent=1))
    if str(rep.get("kind", "")).startswith("e2e"):
        # re-run the end-to-end stream of that server variant and report what it finds now
        run_e2e(ctx, only=rep.get("variant"))
        for sig, what, r, found in ctx.violations:
            print("replayed:", what)
        if ctx.violations or ctx.broken:
            print("VIOLATION property=%s replay=(replayed)" % ctx.pid)
            return 1
        print("no violation on the current tree")
        return 0
    if rep.get("kind") in ("correspondence", "property-oracle", "sanitizer-or-crash"):
        ctx.lean(())
        return replay_line(ctx, rep)
    return 0


def replay_line(ctx, rep):
    line = rep["input"]
    exe, err = C.build_harness("h_h1conn" if line.split(" ")[0] in CONN_OPS else "h_h1resp")
    o, rc, e = C.run_lines([exe], [line])
    m, _, _ = C.run_model("h1resp", [line])
    print("input:", line[:2000])
    print("impl :", [x[:2000] for x in o], rc)
    print("model:", [x[:2000] for x in m])
    v = oracle(line, o[0]) if o else "crash"
    print("oracle:", v)
    if v or (o != m):
        print("VIOLATION property=%s replay=(replayed)" % ctx.pid)
        return 1
    return 0
