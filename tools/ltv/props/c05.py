"""C05 — HTTP/2: every emitted frame is legal for the connection and stream state."""
import itertools, re, struct, time
from concurrent.futures import ThreadPoolExecutor
from .. import common as C
from .. import e2e

MANIFEST = dict(
    text="Lean 4 theorems over (1) a byte-level model of the frame reader of h2.c (h2_parse_frames, h2_recv_continuation): "
         "PROVED segmentation independence of the reader for all splits of the octet stream, round trip against a "
         "reference encoder, FRAME_SIZE_ERROR / CONTINUATION / padding errors; (2) a frame-level state machine of h2.c "
         "(dispatch, per-type validation, stream admission / refusal before and after the SETTINGS ack, trailers, "
         "PRIORITY_UPDATE, GOAWAY/RST semantics, response emission by h2_process_streams with the DATA split of "
         "h2_send_cqdata): PROVED over ALL connection histories: stream legality (HEADERS once and before DATA, nothing "
         "but RST_STREAM/WINDOW_UPDATE after END_STREAM/RST_STREAM; monitor over all streams), concurrency bound, "
         "connection errors terminal, peer frame-size limit within the RFC range; PROVED per pass / per frame: every "
         "DATA frame <= the peer's current SETTINGS_MAX_FRAME_SIZE, header-block split (model function, tied to "
         "h2_send_hpack by correspondence), PING echo with the same 8 octets, SETTINGS ack, the RFC-mandated connection "
         "error visible as GOAWAY(code) for each malformed frame class; (1)+(2) composed (a step of octets in any read "
         "segmentation = the frame-level step).  TESTED, not proved: that the chunk-oriented C code equals the models "
         "(in-process correspondence under scripted read segmentations incl. all 2^k cut subsets, per-frame sizes, "
         "event-loop emulation for progress; e2e correspondence against the real server), complete/correct responses "
         "amid noise and progress (independent client-side oracle, STALL detector, PING probe)",
    note="trusted: Lean kernel, hand-written models validated in-process (every segmentation: identical outcome, = model, "
         "per-frame payload sizes) and end-to-end (per quiescence point: control frames, per-stream status/DATA totals/"
         "END_STREAM), nghttp2 HPACK in the e2e client, own HPACK mini-encoder in the in-process stream; HEADERS payloads "
         "abstract (HPACK is C07; response header block lengths are inputs of the split theorem); handlers in scope answer "
         "at once (static files, error pages; scripted producer in-process); time windows of 2 s (half_closed_ts, "
         "rapid-reset heuristic) are not advanced inside a scenario; TLS/ALPN entry not covered; no theorem for "
         "completion/progress (fuel of the scheduler loop) -- tested only",
    tech="Lean 4 proof (prefix stability for segmentation independence; invariant + all-streams monitor over histories) + "
         "in-process and e2e correspondence against the real code",
    ref="6/C05")

CONF = '''
server.feature-flags = ("server.h2proto" => "enable", "server.h2c" => "enable")
server.max-keep-alive-idle = 30
server.max-read-idle = 30
server.max-write-idle = 30
'''
SIZES = [0, 10, 3000, 100000]


def setup_docroot(srv):
    for sz in SIZES:
        with open("%s/f%d.bin" % (srv.docroot, sz), "wb") as f:
            f.write(b"x" * sz)


def measure(port):
    """body sizes of the 404 and 400 error pages of this build"""
    c = e2e.H2Conn(port)
    c.pump(5.0, until=lambda f: any(x[0] == 4 and not (x[1] & 1) for x in f))
    c.request(1, "GET", "/nope")
    c.send(c.headers_frame(3, [(":method", "GET"), (":scheme", "http"), (":authority", "x")]))
    c.pump(10.0, until=lambda f: sum(1 for x in f if x[0] == 0 and x[1] & 1) >= 2)
    st = e2e.h2_collect(c.frames, c.hp)
    c.close()
    return len(st[1]["body"]), len(st[3]["body"])


# ------------------------------------------------------------------ scenario language
def H(sid, status, body, reqlen=0, incr=0, es=1, dep="-", padbad=0, contbad=0, cont=None, file=None, hpad=0):
    """cont: number of CONTINUATION frames the header block is split into (None = at random);
    file: the response body is a file (FILE_CHUNK; default: yes for 200, the static files of the e2e server);
    hpad: octets of an extra response header field (in-process only: large response header block)"""
    if file is None:
        file = 1 if status == 200 else 0
    if not es and status != 400 and reqlen == 0:
        reqlen = -1            # no END_STREAM and no content-length: body length unknown
    if status == 400:
        reqlen = 0             # rejected request: body length forced to 0
        incr = 0               # (rejected at the first regular field -- missing :path -- or at "te": the
                               #  priority field behind it is discarded with the rest of the block)
    t = "H:%d:r%d,%d,%d,%d,%d:%d:%s:%d:%d" % (sid, status, body, reqlen, incr, file, es, dep, padbad, contbad)
    if hpad:
        return t + ":%s:%d" % ("-" if cont is None else cont, hpad)
    return t if cont is None else t + ":%d" % cont


def Z(prid, field, sid=0, ln=None):
    """PRIORITY_UPDATE (RFC 9218): prioritized stream id + Priority field value"""
    field = field.encode() if isinstance(field, str) else field
    return "Z:%d:%d:%d:%s" % (sid, 4 + len(field) if ln is None else ln, prid, field.hex() or "-")


def alphabet(l404, l400):
    """frames for the exhaustive part; stream ids refer to: 1 = opened by the prefix, 3 = next new, 5 = idle/future"""
    A = []
    A += [H(3, 200, 10), H(3, 200, 0), H(3, 200, 100000), H(3, 404, l404), H(3, 400, l400),
          H(3, 200, 3000, reqlen=-1, es=0), H(3, 200, 10, reqlen=3, es=0),
          H(1, 200, 10), H(1, 200, 10, es=0), H(2, 200, 10), H(3, 200, 10, dep="3"), H(3, 200, 10, dep="1"),
          H(3, 200, 10, padbad=1), H(3, 200, 10, contbad=1), "H:3:x:1:-:0:0"]
    A += ["D:1:3:-:0", "D:1:3:-:1", "D:3:3:-:1", "D:0:3:-:0", "D:1:5:9:0", "D:1:5:2:1", "D:1:0:-:1"]
    A += ["S:0:0:-:0", "S:0:0:4=100:0", "S:0:0:4=2147483648:0", "S:0:0:2=2:0", "S:0:0:5=100:0", "S:0:0:5=32768:0",
          "S:0:0:-:5", "S:1:0:-:0", "S:0:1:-:0", "S:1:0:4=1:0"]
    A += ["P:0:0:8", "P:1:0:8", "P:0:0:7", "P:0:1:8"]
    A += ["W:0:4:1000", "W:1:4:1000", "W:0:4:0", "W:1:4:0", "W:0:3:1", "W:5:4:10", "W:0:4:2147483647", "W:1:4:2147483647"]
    A += ["R:1:4:8", "R:0:4:8", "R:1:3:8", "R:5:4:8"]
    A += ["Y:1:5:0", "Y:1:5:1", "Y:0:5:0", "Y:1:4:0", "Y:5:5:5"]
    A += ["G:0:8:0", "G:0:8:2", "G:0:7:0", "G:1:8:0"]
    A += ["C:1", "U:32", "X:1", "O"]
    return A


def gen(ctx, l404, l400, rng=None):
    rng = rng or ctx.rng
    A = alphabet(l404, l400)
    lines = []
    # exhaustive: every sequence of length <= n after a prefix that opens stream 1 (POST without END_STREAM,
    # answered at once, so stream 1 is 'recently closed') -- and without prefix (all streams idle)
    n = 2 if ctx.quick else 2
    prefixes = [[], [H(1, 200, 10, reqlen=-1, es=0), "q"], [H(1, 200, 100000), "q"]]
    for pre in prefixes:
        for k in range(1, n + 1):
            for seq in itertools.product(A, repeat=k):
                if ctx.quick and k == 2 and rng.random() > 0.22:
                    continue
                lines.append("h2 " + " ".join(pre + list(seq) + ["q"]))
    # same frames but each in its own step
    for pre in prefixes[:2]:
        for seq in itertools.product(A, repeat=2):
            if rng.random() < (0.05 if ctx.quick else 0.4):
                lines.append("h2 " + " ".join(pre + [seq[0], "q", seq[1], "q"]))
    # random long sequences with id tracking
    for _ in range(120 if ctx.quick else 1500):
        evs, nxt, opened = [], 1, []
        for _ in range(rng.randint(2, 4)):
            batch = []
            for _ in range(rng.randint(1, 6)):
                r = rng.random()
                if r < 0.4:
                    kind = rng.choice([(200, rng.choice(SIZES)), (404, l404), (400, l400)])
                    es = 1 if rng.random() < 0.7 else 0
                    reqlen = 0 if es else rng.choice([-1, -1, 3, 5])
                    batch.append(H(nxt, kind[0], kind[1], reqlen=reqlen, incr=rng.randint(0, 1), es=es,
                                   file=rng.randint(0, 1) if kind[0] == 200 else 0))
                    opened.append(nxt); nxt += 2
                elif r < 0.55 and opened:
                    batch.append("D:%d:%d:%s:%d" % (rng.choice(opened), rng.choice([0, 3, 5, 100]),
                                                    rng.choice(["-", "-", "1"]), rng.randint(0, 1)))
                elif r < 0.7:
                    batch.append("W:%d:4:%d" % (rng.choice([0] + opened), rng.choice([1, 1000, 65535, 200000])))
                elif r < 0.8 and opened:
                    batch.append("R:%d:4:8" % rng.choice(opened))
                elif r < 0.84:
                    batch.append("P:0:0:8:%016x" % rng.getrandbits(64))
                elif r < 0.88 and opened:
                    batch.append(Z(rng.choice(opened), rng.choice(["u=%d" % rng.randint(0, 7), "i", "u=1, i", "i=?0",
                                                                     "u=5,i=?1", "", "u=9", "x, u=2", "u=2;a, i"])))
                elif r < 0.9:
                    batch.append("S:0:0:5=%d:0" % rng.choice([16384, 16385, 20000, 32768, 65536]))
                else:
                    batch.append(rng.choice(A))
            evs += batch + ["q"]
        lines.append("h2 " + " ".join(evs))
    # concurrency: more than 8 open streams
    for extra in (1, 3):
        evs = [H(1 + 2 * i, 200, 100000, reqlen=-1, es=0) for i in range(8 + extra)]
        lines.append("h2 S:0:0:4=0:0 q " + " ".join(evs) + " q W:0:4:2000000 q")
        lines.append("h2 S:0:0:4=0:0 q " + " ".join(evs[:8]) + " q R:3:4:8 " + " ".join(evs[8:]) + " q")
        # the same deferral (all slots taken, one stream just reset, new HEADERS in the same read) with the
        # new stream's header block forced into HEADERS + 1 / 2 CONTINUATION frames: the merged frame is
        # parsed a second time after the slot has been freed
        for ncont in (1, 2):
            evc = [H(1 + 2 * i, 200, 100000, reqlen=-1, es=0, cont=ncont) for i in range(8, 8 + extra)]
            lines.append("h2 S:0:0:4=0:0 q " + " ".join(evs[:8]) + " q R:3:4:8 " + " ".join(evc) + " q")
            lines.append("h2 S:0:0:4=0:0 q " + " ".join(evs[:8]) + " q R:5:4:8 P:0:0:8 " + " ".join(evc)
                         + " P:0:0:8 q W:0:4:2000000 q")
        # frames in flight for a refused stream, then retries once slots are free again
        last = 1 + 2 * (8 + extra - 1)
        nxt = last + 2
        lines.append("h2 S:0:0:4=0:0 q " + " ".join(evs) + " D:%d:5:-:1 q W:0:4:2000000 q" % last)
        lines.append("h2 S:0:0:4=0:0 q " + " ".join(evs) + " W:%d:4:100 R:%d:4:8 q R:1:4:8 R:3:4:8 q %s %s q"
                     % (last, last, H(nxt, 200, 10, es=1), H(nxt + 2, 404, l404, es=1)))
        lines.append("h2 S:0:0:4=0:0 q " + " ".join(evs) + " q S:0:0:4=65535:0 q W:0:4:2000000 q %s %s %s q"
                     % (H(nxt, 200, 10, es=1), H(nxt + 2, 400, l400, es=1), H(nxt + 4, 200, 3000, es=1)))
    # SETTINGS_INITIAL_WINDOW_SIZE against a live stream whose window the client raised to 2^31-1
    # (stream 3 keeps its full window: the connection window is used up by stream 1): +1 overflows =>
    # connection FLOW_CONTROL_ERROR (RFC 9113 6.9.2); the neighbouring value does not
    two = H(1, 200, 100000) + " q " + H(3, 200, 100000)
    for v in (65536, 65535, 65537, 0):
        lines.append("h2 %s q W:3:4:2147418112 S:0:0:4=%d:0 q P:0:0:8 q" % (two, v))
        lines.append("h2 %s q W:3:4:2147418112 q S:0:0:4=%d:0 %s q" % (two, v, H(5, 200, 10)))
    lines.append("h2 %s q W:3:4:2147418111 S:0:0:4=65536:0 q P:0:0:8 q" % two)
    lines.append("h2 %s %s q W:3:4:2147418112 W:5:4:100 S:0:0:4=65536,5=16384:0 q" % (two, H(5, 404, l404)))
    lines.append("h2 %s q S:0:0:4=2147483647:0 q P:0:0:8 q" % two)
    # DATA for a stream the server has answered and forgotten (not a data sink: graceful GOAWAY) while another
    # stream waits for WINDOW_UPDATE: a second such frame in the same read, or one after an earlier GOAWAY,
    # must not strand the frames behind it (progress)
    act = H(1, 200, 10) + " " + H(3, 200, 100000)
    lines.append("h2 %s q D:1:3:-:0 D:1:3:-:0 W:3:4:100000 W:0:4:100000 q P:0:0:8 q" % act)
    lines.append("h2 %s q D:1:3:-:0 D:1:100:-:1 D:1:5:2:0 P:0:0:8 W:3:4:100000 W:0:4:100000 q P:0:0:8 q" % act)
    lines.append("h2 %s q D:1:3:-:0 q D:1:5:-:0 W:3:4:100000 W:0:4:100000 q P:0:0:8 q" % act)
    lines.append("h2 %s q G:0:8:0 q D:1:3:-:0 W:3:4:100000 W:0:4:100000 P:0:0:8 q P:0:0:8 q" % act)
    # outbound frame size: DATA and header blocks against the client's SETTINGS_MAX_FRAME_SIZE, raised and lowered
    big = "W:0:4:2000000"
    for f in (0, 1):
        lines.append("h2 %s q %s q S:0:0:5=32768:0 %s q S:0:0:5=16384:0 %s q S:0:0:5=16777215:0 %s q" % (
            big, H(1, 200, 100000, file=f), H(3, 200, 100000, file=f), H(5, 200, 100000, file=f), H(7, 200, 100000, file=f)))
        lines.append("h2 %s S:0:0:5=20000,4=1000000:0 %s %s q W:1:4:1 q" % (
            big, H(1, 200, 100000, file=f), H(3, 200, 100000, file=1 - f, incr=1)))
    lines.append("h2 %s q %s q S:0:0:5=32768:0 %s q S:0:0:5=16384:0 %s q" % (
        big, H(1, 200, 10, hpad=40000), H(3, 404, l404, hpad=40000), H(5, 200, 10, hpad=50000)))
    lines.append("h2 %s q %s q" % (big, H(1, 200, 10, hpad=16380)))
    # PING: the 8 octets come back
    lines.append("h2 P:0:0:8:0001020304050607 P:0:0:8:ffffffffffffffff P:1:0:8:1111111111111111 q P:0:0:8:8000000000000000 q")
    # PRIORITY_UPDATE (RFC 9218): reordering of blocked streams, and its three connection errors
    blocked = " ".join([H(1, 200, 100000), "q", H(3, 200, 100000), H(5, 200, 100000), H(7, 200, 100000, incr=1), "q"])
    for zs in ([Z(5, "u=1")], [Z(7, "u=2, i"), Z(3, "u=2")], [Z(5, "u=0, i"), Z(7, "u=7"), Z(3, "i=?1")],
               [Z(3, "u=3"), Z(9, "u=1")], [Z(5, "u=9"), Z(7, "")], [Z(7, "i=?0"), Z(5, "x,u=2;q=1, i")]):
        lines.append("h2 %s %s W:0:4:40000 q W:0:4:40000 q W:0:4:400000 q" % (blocked, " ".join(zs)))
    lines.append("h2 %s q %s P:0:0:8 q" % (H(1, 200, 10), Z(1, "u=1", ln=3)))
    lines.append("h2 %s q %s P:0:0:8 q" % (H(1, 200, 10), Z(1, "u=1", sid=1)))
    lines.append("h2 %s q %s P:0:0:8 q" % (H(1, 200, 10), Z(0, "u=1")))
    lines.append("h2 %s %s P:0:0:8 q" % (Z(1, "u=1"), H(1, 200, 10)))
    # before the client has acknowledged the server's SETTINGS (it cannot know the concurrency limit yet)
    nine = " ".join(H(1 + 2 * i, 200, 100000) for i in range(9))
    lines.append("h2 noack %s q W:0:4:2000000 %s q S:1:0:-:0 q P:0:0:8 q" % (
        nine, " ".join("W:%d:4:200000" % (1 + 2 * i) for i in range(9))))
    lines.append("h2 noack %s q S:1:0:-:0 q" % " ".join(H(1 + 2 * i, 200, 10) for i in range(12)))
    lines.append("h2 noack %s q S:1:0:-:0 %s q" % (" ".join(H(1 + 2 * i, 200, 3000, reqlen=-1, es=0) for i in range(10)),
                                                  H(21, 200, 10)))
    lines.append("h2 noack W:0:4:2000000 %s q P:0:0:8 q" % " ".join(H(1 + 2 * i, 200, 100000, incr=i % 2) for i in range(11)))
    lines.append("h2 noack %s %s q P:0:0:8 q" % (" ".join(H(1 + 2 * i, 200, 100000) for i in range(8)), H(203, 200, 10)))
    lines.append("h2 noack %s D:17:3:-:1 q S:1:0:-:0 S:1:0:-:0 q" % " ".join(
        H(1 + 2 * i, 200, 100000, reqlen=-1, es=0) for i in range(9)))
    for _ in range(6 if ctx.quick else 60):
        base = rng.choice(lines[-400:])
        if " noack " not in base and "B:" not in base:
            toks = base.split(" ")[1:]
            toks.insert(rng.randrange(len(toks) + 1), "S:1:0:-:0")
            lines.append("h2 noack " + " ".join(toks))
    return lines


class MiniHpack:
    """small HPACK encoder written for the in-process stream (no nghttp2 state to carry across
    processes): static-table references, literals without indexing, and literals WITH incremental
    indexing + dynamic-table references for the field names in `index`"""
    STATIC = {(":method", "GET"): 2, (":method", "POST"): 3, (":path", "/"): 4, (":scheme", "http"): 6,
              (":scheme", "https"): 7}
    STATIC_NAME = {":authority": 1, ":method": 2, ":path": 4, ":scheme": 6, "content-length": 28}

    def __init__(self, index=("x-u", "x-v")):
        self.dyn = []              # newest first
        self.size = 0
        self.index = set(index)

    @staticmethod
    def _int(v, bits, first):
        lim = (1 << bits) - 1
        if v < lim:
            return bytes([first | v])
        out = [first | lim]
        v -= lim
        while v >= 128:
            out.append(0x80 | (v & 0x7f)); v >>= 7
        out.append(v)
        return bytes(out)

    def _str(self, b):
        b = b if isinstance(b, bytes) else b.encode()
        return self._int(len(b), 7, 0) + b

    def encode(self, headers):
        out = b""
        for n, v in headers:
            n = n.decode() if isinstance(n, bytes) else n
            v = v.decode() if isinstance(v, bytes) else v
            if (n, v) in self.STATIC:
                out += self._int(self.STATIC[(n, v)], 7, 0x80)
            elif (n, v) in self.dyn:
                out += self._int(62 + self.dyn.index((n, v)), 7, 0x80)
            elif n in self.index:
                out += self._int(self.STATIC_NAME.get(n, 0), 6, 0x40)
                if n not in self.STATIC_NAME:
                    out += self._str(n)
                out += self._str(v)
                self.dyn.insert(0, (n, v))
                self.size += len(n) + len(v) + 32
                while self.size > 4096:
                    en, ev = self.dyn.pop()
                    self.size -= len(en) + len(ev) + 32
            else:
                out += self._int(self.STATIC_NAME.get(n, 0), 4, 0x00)
                if n not in self.STATIC_NAME:
                    out += self._str(n)
                out += self._str(v)
        return out


ERRBODY = 345          # body length the in-process harness gives a request the parser rejected


def build_frames(c, tok, rng, opened=None, inproc=False, table=None):
    """token -> raw bytes for the real server; `opened` = stream ids that already carried HEADERS
    (a further HEADERS frame on them is sent as trailers: no pseudo-header fields).
    inproc: request paths "/r/<status>/<bodylen>" (the scripted producer of h_h2.c) instead of files;
    table: dict filled with header block (hex) -> HdrKind token, the HPACK look-up of model op h2b"""
    a = tok.split(":")
    k = a[0]
    if k == "S":
        pl = b""
        if a[3] != "-":
            for kv in a[3].split(","):
                kk, vv = kv.split("=")
                pl += struct.pack(">HI", int(kk), int(vv) & 0xffffffff)
        pl += b"\0" * int(a[4])
        return e2e.h2_frame(4, int(a[1]), int(a[2]), pl)
    if k == "P":
        return e2e.h2_frame(6, int(a[1]), int(a[2]), bytes.fromhex(a[4]) if len(a) > 4 else b"p" * int(a[3]))
    if k == "Z":
        fld = b"" if a[4] == "-" else bytes.fromhex(a[4])
        pl = struct.pack(">I", int(a[3])) + fld
        ln = int(a[2])
        return e2e.h2_frame(16, 0, int(a[1]), (pl + b"\0" * 8)[:ln] if ln != len(pl) else pl)
    if k == "W":
        pl = struct.pack(">I", int(a[3]) & 0x7fffffff)
        ln = int(a[2])
        return e2e.h2_frame(8, 0, int(a[1]), (pl + b"\0" * 8)[:ln])
    if k == "R":
        return e2e.h2_frame(3, 0, int(a[1]), (struct.pack(">I", int(a[3])) + b"\0" * 8)[:int(a[2])])
    if k == "Y":
        return e2e.h2_frame(2, 0, int(a[1]), (struct.pack(">IB", int(a[3]), 15) + b"\0" * 8)[:int(a[2])])
    if k == "G":
        return e2e.h2_frame(7, 0, int(a[1]), (struct.pack(">II", 0, int(a[3])) + b"dbg" * 8)[:int(a[2])])
    if k == "D":
        ln, pad, es = int(a[2]), a[3], int(a[4])
        fl = es
        if pad != "-":
            fl |= 8
            p = int(pad)
            if inproc and p < ln:
                # data octets 'd', padding octets 'P': the harness checks what reaches the request body
                pl = bytes([p]) + b"d" * (ln - 1 - p) + b"P" * p
            else:
                pl = (bytes([p]) + b"d" * ln)[:ln] if ln else b""
        else:
            pl = b"d" * ln
        return e2e.h2_frame(0, fl, int(a[1]), pl)
    if k == "H":
        sid, kind, es, dep, padbad, contbad = int(a[1]), a[2], int(a[3]), a[4], int(a[5]), int(a[6])
        ncont = int(a[7]) if len(a) > 7 and a[7] != "-" else None
        hpad = int(a[8]) if len(a) > 8 else 0
        if kind == "x":
            blk = b"\xff\xff\xff\xff\xff\xff\xff"
            if table is not None:
                table[blk.hex()] = "x"
        elif opened is not None and sid in opened:
            blk = c.hp.encode([("x-trailer", "t%d" % sid)])
            if table is not None:
                table[blk.hex()] = "r0,0,0,0"
        else:
            status, body, reqlen, incr, isfile = ([int(x) for x in kind[1:].split(",")] + [0])[:5]
            method = "GET" if es else "POST"
            hs = [(":method", method), (":scheme", "http")]
            pad = "/%d" % hpad if hpad else ""
            if status == 200:
                hs.append((":path", "/%s/200/%d%s" % ("f" if isfile else "r", body, pad) if inproc else "/f%d.bin" % body))
            elif status == 404:
                hs.append((":path", "/r/404/%d%s" % (body, pad) if inproc else "/nope"))
            # status 400: no :path, or (every other stream) a forbidden field in mid-block,
            # so that the rest of the block -- with a new dynamic-table entry -- is discarded
            elif (sid // 2) % 2 == 1:
                hs.append((":path", "/nope"))
            hs.append((":authority", "localhost"))
            if status == 400 and (sid // 2) % 2 == 1:
                hs.append(("te", "gzip"))
            if reqlen > 0:
                hs.append(("content-length", str(reqlen)))
            if incr:
                hs.append(("priority", "u=3, i"))
            # a field the client's encoder indexes: three consecutive streams share a value, so
            # blocks the server discards (refused streams, rejected requests, trailers) insert
            # entries that later requests reference -- a decoder that loses them goes out of sync
            hs.append(("x-u", "u%d" % (sid // 6)))
            hs.append(("x-v", "v%d" % (sid // 10)))
            blk = c.hp.encode(hs)
            if table is not None:
                if blk.hex() in table and table[blk.hex()] != kind:
                    raise ValueError("header block %s stands for two request kinds" % blk.hex())
                table[blk.hex()] = kind
        fl = es
        pre = b""
        if dep != "-":
            fl |= 0x20
            pre = struct.pack(">IB", int(dep), 15)
        if padbad:
            fl |= 8
            return e2e.h2_frame(1, fl | 4, sid, bytes([250]) + pre + blk[:3])
        if contbad:
            return e2e.h2_frame(1, fl, sid, pre + blk) + e2e.h2_frame(6, 0, 0, b"12345678")
        # valid: split into CONTINUATION frames as the token says, or sometimes at random
        if ncont is None:
            ncont = rng.randint(1, 2) if len(blk) > 4 and rng.random() < 0.3 else 0
        ncont = min(ncont, len(blk) - 1)
        if ncont > 0:
            cut = sorted(rng.sample(range(1, len(blk)), ncont))
            parts = [blk[i:j] for i, j in zip([0] + cut, cut + [len(blk)])]
            out = e2e.h2_frame(1, fl, sid, pre + parts[0])
            for i, p in enumerate(parts[1:]):
                out += e2e.h2_frame(9, 4 if i == len(parts) - 2 else 0, sid, p)
            return out
        return e2e.h2_frame(1, fl | 4, sid, pre + blk)
    if k == "C":
        return e2e.h2_frame(9, 4, int(a[1]), b"\x82")
    if k == "U":
        return e2e.h2_frame(int(a[1]), 0, 0, b"zz")
    if k == "X":
        return e2e.h2_frame(5, 4, int(a[1]), struct.pack(">I", 2) + b"\x82")
    if k == "O":
        return struct.pack(">I", 16385)[1:] + bytes([6, 0]) + struct.pack(">I", 0)
    if k == "B":
        # raw octets (in-process stream only): B:<hex>
        return bytes.fromhex(a[1])
    raise ValueError(tok)


def canon_frames(frames, hp):
    """real frames of one step -> canonical (control multiset, per-stream summary)"""
    ctl, streams = [], {}
    st = e2e.h2_collect(frames, hp) if any(f[0] in (1, 9) for f in frames) else {}
    for t, fl, sid, pl in frames:
        if t == 4:
            if fl & 1:
                ctl.append("SA")
        elif t == 6:
            if fl & 1:
                ctl.append("PA" + pl[:8].hex())
        elif t == 7:
            ctl.append("G%d,%d" % (int.from_bytes(pl[:4], "big") & 0x7fffffff, int.from_bytes(pl[4:8], "big")))
        elif t == 3:
            ctl.append("R%d,%d" % (sid, int.from_bytes(pl[:4], "big")))
        elif t == 8:
            ctl.append("W%d,%d" % (sid, int.from_bytes(pl[:4], "big")))
        elif t == 0:
            d = streams.setdefault(sid, {"status": None, "data": 0, "end": 0})
            d["data"] += len(pl)
            d["end"] |= fl & 1
        elif t == 1:
            d = streams.setdefault(sid, {"status": None, "data": 0, "end": 0})
            d["end"] |= fl & 1
    for sid, s in st.items():
        for n, v in s["headers"]:
            if n == b":status":
                streams.setdefault(sid, {"status": None, "data": 0, "end": 0})["status"] = int(v)
    return sorted(ctl), {k: (v["status"], v["data"], v["end"]) for k, v in sorted(streams.items())}


def canon_model(step, frames=False):
    """frames: keep the payload size of every DATA frame (in-process comparison) instead of the total"""
    ctl, streams = [], {}
    if step.strip() in ("-", ""):
        return [], {}
    for tok in step.split(" "):
        k = tok[0]
        if tok == "SA" or tok.startswith("PA"):
            ctl.append(tok)
        elif k in "GRW":
            ctl.append(tok)
        elif k == "H":
            sid, status, es = [int(x) for x in tok[1:].split(":")[0].split(",")]
            d = streams.setdefault(sid, [None, 0, 0, []])
            d[0] = status; d[2] |= es
        elif k == "D":
            sid, ln, es = [int(x) for x in tok[1:].split(",")]
            d = streams.setdefault(sid, [None, 0, 0, []])
            d[1] += ln; d[2] |= es
            d[3].append(ln)
    return sorted(ctl), {k: (tuple(v[:3]) + (tuple(v[3]),) if frames else tuple(v[:3])) for k, v in sorted(streams.items())}


# ------------------------------------------------------------------ RFC 9113 monitor (oracle)
def sig_of(verdict):
    """stable signature of an oracle verdict (numbers dropped)"""
    return re.sub(r"\d+", "N", verdict)[:70]


def monitor(sent_tokens_by_step, frames_by_step, raw=False):
    """independent check of the server's frame trace; returns a message or None
    (raw: the client's frames are not known as tokens: only the server-side rules are checked)"""
    client_opened = set()
    hdr_seen, ended, rst_sent = set(), set(), set()
    goaway_err = False
    n_settings = n_ping = 0
    acks = pings = 0
    max_frame = 16384          # the client's SETTINGS_MAX_FRAME_SIZE in force for frames the server sends
    pending_fs = []            # per SETTINGS frame not yet acknowledged: the value it sets (or None)
    ping_payloads = []         # octets of the PINGs the client sent and that are not yet echoed
    open_block = None          # stream whose header block is being continued
    last_goaway = None
    max_sid = 0
    for toks, frames in zip(sent_tokens_by_step, frames_by_step):
        for t in toks:
            a = t.split(":")
            if a[0] == "H":
                client_opened.add(int(a[1]))
                max_sid = max(max_sid, int(a[1]))
            if a[0] == "S" and a[1] == "0" and a[2] == "0":
                n_settings += 1
                v = None
                if a[3] != "-":
                    for kv in a[3].split(","):
                        if kv.startswith("5=") and 16384 <= int(kv[2:]) <= 16777215:
                            v = int(kv[2:])
                pending_fs.append(v)
            if a[0] == "P" and a[1] == "0" and a[2] == "0" and a[3] == "8":
                n_ping += 1
                ping_payloads.append(bytes.fromhex(a[4]) if len(a) > 4 else b"p" * 8)
        for t, fl, sid, pl in frames:
            if len(pl) > max_frame:
                return ("%s frame with %d payload octets exceeds the peer's SETTINGS_MAX_FRAME_SIZE"
                        % (e2e.FT.get(t, t), len(pl)))
            if open_block is not None and (t != 9 or sid != open_block):
                return "frame of type %d inside the header block of stream %d" % (t, open_block)
            if t in (0, 1, 9):
                if goaway_err:
                    return "stream frame (type %d, stream %d) sent after an error GOAWAY" % (t, sid)
                if sid == 0 or sid % 2 == 0 or (sid not in client_opened and not raw):
                    return "%s on stream %d which the client never opened" % (e2e.FT[t], sid)
                if t == 9:
                    if open_block is None:
                        return "CONTINUATION without a preceding HEADERS frame"
                    if fl & 4:
                        open_block = None
                    continue
                if sid in ended:
                    return "%s on stream %d after END_STREAM" % (e2e.FT[t], sid)
                if sid in rst_sent:
                    return "%s on stream %d after the server reset it" % (e2e.FT[t], sid)
                if t == 0 and sid not in hdr_seen:
                    return "DATA before HEADERS on stream %d" % sid
                if t == 1:
                    if sid in hdr_seen:
                        return "second HEADERS block on stream %d" % sid
                    hdr_seen.add(sid)
                    if not fl & 4:
                        open_block = sid
                if t in (0, 1) and fl & 1:
                    ended.add(sid)
            elif t == 3:
                if sid == 0:
                    return "RST_STREAM on stream 0"
                if len(pl) != 4:
                    return "RST_STREAM of length %d" % len(pl)
                if not raw and sid > max_sid:
                    return "RST_STREAM on an idle stream (%d; RFC 9113 6.4)" % sid
                rst_sent.add(sid)
            elif t == 4:
                if sid != 0:
                    return "SETTINGS on stream %d" % sid
                if fl & 1:
                    acks += 1
                    if len(pl):
                        return "SETTINGS ACK with payload"
                    if pending_fs:
                        v = pending_fs.pop(0)
                        if v is not None:
                            max_frame = v
            elif t == 6:
                if len(pl) != 8 or sid != 0:
                    return "malformed PING"
                if fl & 1:
                    pings += 1
                    if not raw:
                        got = bytes(pl[:8])
                        if got not in ping_payloads:
                            return "PING ack carries %s, not the octets of a PING the client sent" % got.hex()
                        ping_payloads.remove(got)
            elif t == 7:
                if sid != 0 or len(pl) < 8:
                    return "malformed GOAWAY"
                last = int.from_bytes(pl[:4], "big") & 0x7fffffff
                if last_goaway is not None and last > last_goaway:
                    return "GOAWAY last-stream-id increased (%d -> %d)" % (last_goaway, last)
                last_goaway = last
                if int.from_bytes(pl[4:8], "big") != 0:
                    goaway_err = True
            elif t == 8:
                if len(pl) != 4 or int.from_bytes(pl, "big") & 0x7fffffff == 0:
                    return "malformed WINDOW_UPDATE"
    if open_block is not None:
        # end of the scenario (the client read until the server went quiet): a header block is still open
        return ("header block of stream %d never terminated: its last frame lacks END_HEADERS and no CONTINUATION "
                "follows (RFC 9113 4.3, 6.10)" % open_block)
    if raw:
        return None
    if acks > n_settings:
        return "more SETTINGS acknowledgements (%d) than SETTINGS received (%d)" % (acks, n_settings)
    if pings > n_ping:
        return "more PING acks (%d) than PINGs received (%d)" % (pings, n_ping)
    return None


# ------------------------------------------------------------------ client-side oracle
# Written from RFC 9113 and the CLIENT's frames only (not from the model): which connection error /
# stream error do the frames the client has sent so far warrant, and which requests are owed a
# complete response.  A GOAWAY with an error code, an RST_STREAM, or a missing / wrong / incomplete
# response that no client frame warrants is a violation of "well-formed requests interleaved with
# noise on other streams still get complete, correct responses".
E_PROTOCOL, E_INTERNAL, E_FLOW, E_CLOSED, E_FSIZE, E_REFUSED, E_COMP, E_CALM = 1, 2, 3, 5, 6, 7, 9, 11
E_NAME = {0: "NO_ERROR", 1: "PROTOCOL_ERROR", 2: "INTERNAL_ERROR", 3: "FLOW_CONTROL_ERROR", 4: "SETTINGS_TIMEOUT",
          5: "STREAM_CLOSED", 6: "FRAME_SIZE_ERROR", 7: "REFUSED_STREAM", 8: "CANCEL", 9: "COMPRESSION_ERROR",
          10: "CONNECT_ERROR", 11: "ENHANCE_YOUR_CALM"}
ADV_MAX_STREAMS = 8            # SETTINGS_MAX_CONCURRENT_STREAMS lighttpd advertises (the monitor checks it is honoured)


class ClientView:
    def __init__(self, noack=False):
        self.acked = not noack     # the client has acknowledged the server's SETTINGS
        self.max_sid = 0
        self.st = {}               # streams the client opened: sid -> dict
        self.conn = set()          # GOAWAY error codes some client frame warrants
        self.serr = {}             # sid -> RST_STREAM codes warranted
        self.refusable = set()
        self.n_headers = 0
        self.win_changed = False
        self.init_win = 65535
        self.conn_credit = 65535
        self.client_goaway = False
        self.resp = {}             # sid -> [status, data, end]
        self.srv_rst = {}          # sid -> codes the server sent
        self.graceful_last = None
        self.err_goaway = False
        self.owed_bytes = 0
        self.must = None           # first client frame that RFC 9113 makes a connection error (MUST)
        self.after_must = set()    # streams the client opened after it
        self.ignorable = set()     # streams opened after a GOAWAY: the server does not track them
        self.data_sent = 0         # DATA octets the server sent so far (all streams)

    def _serr(self, sid, *codes):
        self.serr.setdefault(sid, set()).update(codes)
        self.serr[sid].add(E_CLOSED)       # (frames still in flight on a stream in error: STREAM_CLOSED)
        if sid in self.st:
            self.st[sid]["disturbed"] = True

    def _unfinished(self):
        return sum(1 for sid, s in self.st.items()
                   if not (self.resp.get(sid, [None, 0, 0])[2] or sid in self.srv_rst or s["c_rst"]))

    def _must(self, tok, why):
        if self.must is None:
            self.must = (tok, why)

    def sent(self, tok, step):
        a = tok.split(":")
        k = a[0]
        if k == "H":
            sid, kind, es, dep, padbad, contbad = int(a[1]), a[2], int(a[3]), a[4], int(a[5]), int(a[6])
            self.n_headers += 1
            if sid == 0 or sid % 2 == 0:
                self._must(tok, "HEADERS on stream 0 / an even stream id")
            elif padbad:
                self._must(tok, "padding longer than the frame")
            elif contbad:
                self._must(tok, "header block not continued by a CONTINUATION frame")
            elif kind == "x":
                # RFC 9113 4.3: a decoding error MUST be treated as a connection error (also in a block the
                # server has no use for: the decoder state is the connection's)
                self._must(tok, "header block that cannot be decoded")
            elif self.must is not None and sid > self.max_sid:
                self.after_must.add(sid)
            if self.n_headers > 32:
                self.conn.add(E_CALM)
            if sid == 0 or sid % 2 == 0 or padbad or contbad:
                self.conn.add(E_PROTOCOL)
                return
            if sid > self.max_sid and dep != "-" and int(dep) == sid:
                # a stream cannot depend on itself: stream error (an endpoint may treat it as a connection error)
                self._serr(sid, E_PROTOCOL)
                self.conn.add(E_PROTOCOL)
                self.max_sid = max(self.max_sid, sid)
                return
            if sid > self.max_sid and kind == "x":
                self.conn.add(E_COMP)
                self.max_sid = max(self.max_sid, sid)
                return
            if sid <= self.max_sid:
                s = self.st.get(sid)
                if kind == "x":
                    self.conn.add(E_COMP)
                if s and not s["c_end"] and not s["c_rst"] and es and not s["touched"] and s["step"] == step \
                        and sid not in self.refusable:
                    # trailers on a stream that is still open in both directions
                    s["c_end"] = True
                    if kind == "x":
                        s["disturbed"] = True
                    if s["reqlen"] > 0 and s["recv"] != s["reqlen"]:
                        self._serr(sid, E_PROTOCOL)
                    return
                # anything else on a used id: a frame on a closed stream (the server may have finished and
                # forgotten the stream), a second HEADERS without END_STREAM, an id going backwards
                self._serr(sid, E_PROTOCOL, E_CLOSED)
                self.conn.update((E_PROTOCOL, E_CLOSED))
                return
            self.max_sid = sid
            if not self.acked and sid > 200:
                self.conn.add(E_CALM)              # (lighttpd: > 100 streams before the SETTINGS ack)
            status, body, reqlen, incr = [int(x) for x in kind[1:].split(",")][:4]
            self.st[sid] = {"status": status, "body": body, "reqlen": reqlen, "c_end": bool(es), "c_rst": False,
                            "disturbed": False, "touched": False, "step": step, "recv": 0, "credit": self.init_win,
                            "after_goaway": self.client_goaway or self.graceful_last is not None}
            if self.st[sid]["after_goaway"]:
                self.ignorable.add(sid)
            self.owed_bytes += body        # every response draws on the one connection send window
            if self._unfinished() > ADV_MAX_STREAMS:
                self.refusable.add(sid)
            return
        if k == "D":
            sid, ln, pad, es = int(a[1]), int(a[2]), a[3], int(a[4])
            if sid == 0 or sid % 2 == 0 or sid > self.max_sid:
                self.conn.add(E_PROTOCOL)
                if sid == 0 or sid > self.max_sid:
                    self._must(tok, "DATA on stream 0 / an idle stream")
                return
            s = self.st.get(sid)
            if s:
                s["touched"] = True
            if sid in self.ignorable:
                # (a stream opened after a GOAWAY is not tracked: lighttpd takes its frames for frames on an idle stream)
                self.conn.update((E_PROTOCOL, E_CLOSED))
            if pad != "-" and int(pad) >= ln:
                self.conn.add(E_PROTOCOL)
                self._must(tok, "Pad Length not smaller than the DATA frame")
                return
            if s is None or s["c_end"] or s["c_rst"]:
                self._serr(sid, E_CLOSED)
                self.conn.update((E_CLOSED, E_PROTOCOL))
                return
            s["recv"] += ln - (1 + int(pad) if pad != "-" else 0)
            if s["reqlen"] >= 0 and s["recv"] > s["reqlen"]:
                self._serr(sid, E_PROTOCOL)
            if es:
                s["c_end"] = True
                if s["reqlen"] >= 0 and s["recv"] != s["reqlen"]:
                    self._serr(sid, E_PROTOCOL)
            return
        if k == "W":
            sid, ln, inc = int(a[1]), int(a[2]), int(a[3])
            if ln != 4:
                self.conn.add(E_FSIZE)
                self._must(tok, "WINDOW_UPDATE of a length other than 4")
            elif sid == 0:
                if inc == 0:
                    self.conn.add(E_PROTOCOL)
                    self._must(tok, "WINDOW_UPDATE with increment 0 on stream 0")
                else:
                    self.conn_credit += inc
                    if self.conn_credit > 0x7fffffff:
                        self.conn.add(E_FLOW)
                    if self.conn_credit - self.data_sent > 0x7fffffff:
                        self._must(tok, "connection flow-control window above 2^31-1")
            elif sid % 2 == 0 or sid > self.max_sid:
                self.conn.add(E_PROTOCOL)
            else:
                s = self.st.get(sid)
                if s:
                    s["touched"] = True
                if sid in self.ignorable:
                    self.conn.update((E_PROTOCOL, E_CLOSED))
                if inc == 0:
                    self._serr(sid, E_PROTOCOL)
                    self.conn.add(E_PROTOCOL)
                elif s:
                    s["credit"] += inc
                    if s["credit"] > 0x7fffffff:
                        self._serr(sid, E_FLOW)
            return
        if k == "R":
            sid, ln = int(a[1]), int(a[2])
            if ln != 4:
                self.conn.add(E_FSIZE)
                self._must(tok, "RST_STREAM of a length other than 4")
            elif sid == 0 or sid % 2 == 0 or sid > self.max_sid:
                self.conn.add(E_PROTOCOL)
                if sid == 0 or sid > self.max_sid:
                    self._must(tok, "RST_STREAM on stream 0 / an idle stream")
            elif sid in self.st:
                self.st[sid]["c_rst"] = True
                self.st[sid]["disturbed"] = True
                if sid in self.ignorable:
                    self.conn.update((E_PROTOCOL, E_CLOSED))
            return
        if k == "Y":
            sid, ln, dep = int(a[1]), int(a[2]), int(a[3])
            if ln != 5:
                self.conn.add(E_FSIZE)
                self._serr(sid, E_FSIZE)
            elif sid == 0:
                self.conn.add(E_PROTOCOL)
                self._must(tok, "PRIORITY on stream 0")
            elif dep == sid and sid % 2 == 1 and sid <= self.max_sid:
                # (RFC 7540 5.3.1 stream error, kept by lighttpd for streams that were opened; on an idle
                #  stream RST_STREAM is forbidden, RFC 9113 6.4: nothing is warranted there)
                self._serr(sid, E_PROTOCOL)
            return
        if k == "Z":
            sid, ln, prid = int(a[1]), int(a[2]), int(a[3])
            if ln < 4:
                self.conn.add(E_FSIZE)
                self._must(tok, "PRIORITY_UPDATE shorter than 4 octets")
            elif sid != 0:
                self.conn.add(E_PROTOCOL)
                self._must(tok, "PRIORITY_UPDATE on a stream other than 0")
            elif prid == 0:
                self.conn.add(E_PROTOCOL)
                self._must(tok, "PRIORITY_UPDATE for stream 0")
            return
        if k == "S":
            ack, sid, params, junk = int(a[1]), int(a[2]), a[3], int(a[4])
            if sid != 0:
                self.conn.add(E_PROTOCOL)
                self._must(tok, "SETTINGS on a stream other than 0")
            elif ack:
                if params != "-" or junk:
                    self.conn.add(E_FSIZE)
                    self._must(tok, "SETTINGS ack with a payload")
                elif not self.acked:
                    self.acked = True
                else:
                    self.conn.add(E_PROTOCOL)      # (acknowledges nothing: the server's SETTINGS are acknowledged already)
            else:
                if params != "-":
                    for kv in params.split(","):
                        kk, vv = [int(x) for x in kv.split("=")]
                        if kk == 2 and vv > 1:
                            self.conn.add(E_PROTOCOL)
                            self._must(tok, "SETTINGS_ENABLE_PUSH other than 0 or 1"); break
                        if kk == 4:
                            if vv > 0x7fffffff:
                                self.conn.add(E_FLOW)
                                self._must(tok, "SETTINGS_INITIAL_WINDOW_SIZE above 2^31-1"); break
                            self.win_changed = True
                            stop = False
                            for i2, s2 in self.st.items():
                                s2["credit"] += vv - self.init_win
                                if s2["credit"] > 0x7fffffff:
                                    # RFC 9113 6.9.2: a connection error (of the client's making)
                                    self._serr(i2, E_FLOW)
                                    self.conn.add(E_FLOW)
                                    r2 = self.resp.get(i2, [None, 0, 0])
                                    if not r2[2] and i2 not in self.srv_rst and not s2["c_rst"] and s2["step"] < step \
                                            and s2["credit"] - r2[1] > 0x7fffffff:
                                        # certainly live, certainly out of range: the error is mandatory
                                        self._must(tok, "SETTINGS_INITIAL_WINDOW_SIZE takes the window of stream %d above "
                                                        "2^31-1" % i2)
                                        stop = True
                            self.init_win = vv
                            if stop:
                                break
                        if kk == 5 and not 16384 <= vv <= 16777215:
                            self.conn.add(E_PROTOCOL)
                            self._must(tok, "SETTINGS_MAX_FRAME_SIZE out of range"); break
                if junk % 6:
                    self.conn.add(E_FSIZE)
                    self._must(tok, "SETTINGS payload not a multiple of 6 octets")
            return
        if k == "P":
            if int(a[3]) != 8:
                self.conn.add(E_FSIZE)
                self._must(tok, "PING of a length other than 8")
            elif int(a[2]) != 0:
                self.conn.add(E_PROTOCOL)
                self._must(tok, "PING on a stream other than 0")
            return
        if k == "G":
            sid, ln, code = int(a[1]), int(a[2]), int(a[3])
            if ln < 8:
                self.conn.add(E_FSIZE)
                self._must(tok, "GOAWAY shorter than 8 octets")
            elif sid != 0:
                self.conn.add(E_PROTOCOL)
                self._must(tok, "GOAWAY on a stream other than 0")
            else:
                self.client_goaway = True
                if code:
                    self.conn.update(E_NAME)       # the client reported an error: the server may end as it likes
            return
        if k in ("C", "X"):
            self.conn.add(E_PROTOCOL)
            self._must(tok, "CONTINUATION without HEADERS" if k == "C" else "PUSH_PROMISE from a client")
        elif k == "O":
            self.conn.add(E_FSIZE)
            self._must(tok, "frame larger than the advertised SETTINGS_MAX_FRAME_SIZE")

    def observe(self, ctl, streams, step):
        for t in ctl:
            if t[0] == "G":
                last, code = [int(x) for x in t[1:].split(",")]
                if code:
                    if code not in self.conn:
                        return ("GOAWAY(%s) although no frame the client sent is a connection error of that kind"
                                % E_NAME.get(code, code))
                    self.err_goaway = True
                elif self.graceful_last is None or last < self.graceful_last:
                    self.graceful_last = last
            elif t[0] == "R":
                sid, code = [int(x) for x in t[1:].split(",")]
                self.srv_rst.setdefault(sid, set()).add(code)
        for sid, (status, data, end) in streams.items():
            r = self.resp.setdefault(sid, [None, 0, 0])
            if status is not None:
                r[0] = status
                if sid in self.after_must:
                    return ("a stream opened after a connection error of the client was processed: stream %d, after %s "
                            "(frame %s)" % (sid, self.must[1], self.must[0]))
            r[1] += data
            self.data_sent += data
            r[2] |= end
            s = self.st.get(sid)
            if s and r[0] is not None and r[0] != s["status"]:
                return "request on stream %d answered with status %s, expected %d" % (sid, r[0], s["status"])
            if s and r[1] > s["body"]:
                return "response on stream %d carries %d octets, the resource has %d" % (sid, r[1], s["body"])
        for sid, codes in self.srv_rst.items():
            for code in codes:
                if code == 0:
                    if not self.resp.get(sid, [None, 0, 0])[2]:
                        return "RST_STREAM(NO_ERROR) on stream %d whose response was not finished" % sid
                elif code == E_REFUSED:
                    if sid not in self.refusable:
                        return "RST_STREAM(REFUSED_STREAM) on stream %d below the advertised concurrency limit" % sid
                elif code not in self.serr.get(sid, ()) and not self.conn:
                    return ("RST_STREAM(%s) on stream %d although no frame the client sent warrants it"
                            % (E_NAME.get(code, code), sid))
        # requests that are owed a response by now
        if self.conn:
            return None                # a connection error is warranted: nothing is owed any more
        for sid, s in sorted(self.st.items()):
            if s["status"] not in (200, 404) or s["disturbed"] or not s["c_end"] or sid in self.refusable \
                    or s["after_goaway"] or s.get("checked"):
                continue
            if self.graceful_last is not None and sid > self.graceful_last:
                continue
            s["checked"] = True
            r = self.resp.get(sid, [None, 0, 0])
            if r[0] is None:
                return ("well-formed request on stream %d got no response although no frame the client sent "
                        "warrants an error" % sid)
            if not self.win_changed and s["body"] <= 65535 and self.owed_bytes <= 65535 \
                    and (r[1] != s["body"] or not r[2]):
                return ("well-formed request on stream %d got an incomplete response (%d of %d octets, END_STREAM %d) "
                        "although no frame the client sent warrants an error" % (sid, r[1], s["body"], r[2]))
        return None


def client_oracle(sent_steps, canon_steps, closed=None, noack=False):
    v = ClientView(noack)
    seen_goaway = False
    for i, toks in enumerate(sent_steps):
        if v.err_goaway:
            break
        for t in toks:
            v.sent(t, i)
        ctl, streams = canon_steps[i] if i < len(canon_steps) else ([], {})
        seen_goaway = seen_goaway or any(t[0] == "G" for t in ctl)
        verdict = v.observe(ctl, streams, i)
        if verdict:
            return verdict
    if v.must is not None and not v.err_goaway and closed is False:
        return ("%s is a connection error by RFC 9113, but the server neither sent a GOAWAY with an error code nor "
                "ended the connection (frame %s)" % (v.must[1], v.must[0]))
    if closed and not seen_goaway:
        return "connection ended by the server without GOAWAY"
    return None


class NoAckConn(e2e.H2Conn):
    """a client that does not acknowledge the server's SETTINGS by itself (the scenario does, with S:1:0:-:0)"""
    ACK = e2e.h2_settings(ack=True)

    def send(self, data):
        if data == self.ACK and not getattr(self, "scenario_send", False):
            return True
        return e2e.H2Conn.send(self, data)


def run_scenario(port, line, expect, seed):
    import random
    rng = random.Random(seed)
    toks = line.split(" ")[1:]
    noack = bool(toks) and toks[0] == "noack"
    if noack:
        toks = toks[1:]
    try:
        c = NoAckConn(port) if noack else e2e.H2Conn(port)
    except OSError:
        return None, None, "connect-failed"
    obs, sent_steps, frame_steps = [], [], []
    opened = set()
    try:
        c.pump(5.0, until=lambda f: any(x[0] == 4 and not (x[1] & 1) for x in f))
        time.sleep(0.03)
        c.frames.clear()
        batch, btoks, qi = b"", [], 0
        for t in toks:
            if t != "q":
                batch += build_frames(c, t, rng, opened)
                if t.startswith("H:"):
                    opened.add(int(t.split(":")[1]))
                btoks.append(t)
                continue
            start = len(c.frames)
            if batch:
                c.scenario_send = True
                c.send(batch)
                c.scenario_send = False
            exp = expect[qi] if qi < len(expect) else ([], {})
            qi += 1

            def reached(frames, exp=exp, start=start):
                got = canon_frames(frames[start:], e2e.Hpack()) if False else None
                # cheap test: enough frames of the expected kinds arrived
                ctl, st = exp
                fr = frames[start:]
                nctl = sum(1 for f in fr if f[0] in (3, 7, 8) or (f[0] in (4, 6) and f[1] & 1))
                if nctl < len(ctl):
                    return False
                tot = {}
                for f in fr:
                    if f[0] == 0:
                        tot[f[2]] = tot.get(f[2], 0) + len(f[3])
                for sid, (status, data, end) in st.items():
                    if tot.get(sid, 0) < data:
                        return False
                    if end and not any(f[2] == sid and f[0] in (0, 1) and f[1] & 1 for f in fr):
                        return False
                    if status is not None and not any(f[2] == sid and f[0] == 1 for f in fr):
                        return False
                return True
            c.pump(8.0, until=reached)
            c.pump(0.25)
            fr = c.frames[start:]
            frame_steps.append(fr)
            sent_steps.append(btoks)
            obs.append(fr)
            batch, btoks = b"", []
            if c.closed:
                # remaining steps see nothing
                for t2 in toks[toks.index("q") + 1:]:
                    pass
        # liveness: a connection the server keeps open must still read and answer (progress clause)
        stalled = False
        if not c.closed and not any(f[0] == 7 and int.from_bytes(f[3][4:8], "big") for f in c.frames):
            n0 = len(c.frames)
            c.send(e2e.h2_frame(6, 0, 0, b"livechck"))
            c.pump(20.0, until=lambda f: any((x[0] == 6 and x[1] & 1 and x[3] == b"livechck") or x[0] == 7 for x in f[n0:]))
            stalled = not c.closed and not any((x[0] == 6 and x[1] & 1 and x[3] == b"livechck") or x[0] == 7
                                               for x in c.frames[n0:])
    finally:
        c.close()
    # decode with one HPACK context over the whole connection (dynamic table state!)
    hp = e2e.Hpack()
    canon = []
    try:
        for fr in frame_steps:
            canon.append(canon_frames(fr, hp))
    except Exception as ex:       # undecodable response header block
        return None, "response header block does not decode: %s" % ex, frame_steps
    verdict = monitor(sent_steps, frame_steps) or client_oracle(sent_steps, canon, None if c.closed else False, noack)
    if not verdict and stalled:
        verdict = ("the connection stops making progress: it stays open, but a PING sent after the scenario is not "
                   "answered within 20 s")
    return canon, verdict, frame_steps


def preface_split(port, cuts, gap=0.06, wait=8.0):
    """the client's hello (connection preface + SETTINGS) in len(cuts)+1 TCP writes with pauses, then a GET:
    returns None or what went wrong"""
    try:
        c = e2e.H2Conn(port, send_preface=False)
    except OSError:
        return "connect-failed"
    try:
        hello = e2e.H2_PREFACE + e2e.h2_settings(())
        pos = 0
        for cut in list(cuts) + [len(hello)]:
            c.send(hello[pos:cut]); pos = cut
            time.sleep(gap)
        c.request(1, "GET", "/f10.bin")
        fr = c.pump(wait, until=lambda f: any(x[0] == 7 for x in f) or any(x[0] == 0 and x[1] & 1 for x in f))
        if any(x[0] == 7 for x in fr):
            g = [x for x in fr if x[0] == 7][0]
            return "GOAWAY(%s)" % E_NAME.get(int.from_bytes(g[3][4:8], "big"), "?")
        st = e2e.h2_collect(fr, c.hp)
        if 1 not in st or not st[1]["end"] or len(st[1]["body"]) != 10 or (b":status", b"200") not in st[1]["headers"]:
            return "no complete 200 response (%s)" % ("connection closed" if c.closed else "timeout")
        return None
    finally:
        c.close()


PREFACE_CUTS = [[1], [9], [17], [18], [19], [21], [23], [24], [25], [33], [18, 24], [10, 20, 30]]


# ---- response header blocks whose encoded size sits exactly on a multiple of the peer's SETTINGS_MAX_FRAME_SIZE
# (third wave, C05-c1): the size of the block is driven from the client through a redirect whose Location repeats
# parts of the request path; the trace is judged by `monitor` (incl. "header block never terminated")
HB_CONF = CONF + ('url.redirect = ( "^/r/(X*)/(Z*)$" => "/t/$1$1$1$1$2", '
                  '"^/s/(X*)/(Z*)$" => "/t/$1$1$1$1$1$1$1$1$2" )\n')


def hb_probe(port, path):
    c = e2e.H2Conn(port)
    try:
        c.request(1, "GET", path)
        c.pump(3.0, until=lambda fr: any(t in (1, 9) and sid == 1 and fl & 4 for t, fl, sid, pl in fr))
        c.send(e2e.h2_frame(6, 0, 0, b"hbprobe!"))
        c.pump(2.0, until=lambda fr: any(t == 6 and fl & 1 for t, fl, sid, pl in fr))
        frames = list(c.frames)
    finally:
        c.close()
    return sum(len(pl) for t, fl, sid, pl in frames if t in (1, 9) and sid == 1), frames


def hdrblock_stream(ctx, bd):
    t0 = time.time()
    srv = e2e.Server(bd, HB_CONF, modules=("mod_redirect",))
    reached, cases, hits = [], 0, 0
    try:
        with srv:
            for prefix, mult, target in (("/r/", 4, 16384), ("/s/", 8, 32768), ("/s/", 8, 16384), ("/r/", 4, 8192)):
                n1 = (target - 300) // mult
                l0, _ = hb_probe(srv.port, prefix + "X" * n1 + "/")
                if l0 == 0 or l0 > target:
                    ctx.notes.append("header-block sweep: no usable base block for target %d (got %d)" % (target, l0))
                    continue
                n2 = target - l0
                tried = set()
                for _ in range(6):
                    if n2 < 0 or n2 in tried:
                        break
                    tried.add(n2)
                    l, _ = hb_probe(srv.port, prefix + "X" * n1 + "/" + "Z" * n2)
                    if l == target or l == 0:
                        break
                    n2 += target - l
                for d in (-2, -1, 0, 1, 2):
                    if n2 + d < 0:
                        continue
                    path = prefix + "X" * n1 + "/" + "Z" * (n2 + d)
                    l, frames = hb_probe(srv.port, path)
                    cases += 1
                    ctx.evaluations += 1
                    v = monitor([[]], [frames], raw=True)
                    if v is None and not any(t in (1, 9) and sid == 1 and fl & 4 for t, fl, sid, pl in frames) \
                            and any(t == 1 and sid == 1 for t, fl, sid, pl in frames):
                        v = "response header block of stream 1 never terminated by END_HEADERS"
                    if l == target:
                        reached.append(target)
                    ctx.keys["hdrblock:%d:%s:%s" % (target, "exact" if l == target else ("%+d" % (l - target) if abs(l - target) < 4 else "off"),
                                                   "ok" if v is None else sig_of(v)[:30])] += 1
                    ctx.dist["hdrblock:target-%d" % target] += 1
                    if v:
                        hits += 1
                        ctx.violation("oracle:h2-hdrblock:%s" % sig_of(v), "response header block of %d octets (peer max frame size 16384): %s" % (l, v),
                                      {"property": ctx.pid, "kind": "property-oracle", "correspondence": "e2e-h2-hdrblock",
                                       "input": "GET %s%s/%s  (X x %d, Z x %d)" % (prefix, "X..", "Z..", n1, n2 + d), "block_octets": l,
                                       "frames": [[t, fl, sid, len(pl)] for t, fl, sid, pl in frames][:20], "oracle_verdict": v}, found=True)
            rep = srv.sanitizer_report()
            if rep or not srv.alive():
                ctx.violation("crash:e2e:h2-hdrblock", "server crashed / sanitizer report in the header-block size sweep",
                              {"property": ctx.pid, "kind": "sanitizer-or-crash", "correspondence": "e2e-h2-hdrblock",
                               "input": "hdrblock sweep", "stderr": (rep or srv.logs())[-3000:]}, found=True)
    except (OSError, RuntimeError) as ex:
        ctx.notes.append("header-block sweep skipped (infrastructure): %s" % str(ex)[-200:])
        return
    ctx.notes.append("header-block sweep: encoded block sizes hit exactly: %s" % sorted(set(reached)))
    ctx.streams.append({"name": "e2e-h2-hdrblock(response header block sized to k x SETTINGS_MAX_FRAME_SIZE via redirect Location)",
                        "cases": cases, "disagreements": 0, "oracle_hits": hits, "wall_s": round(time.time() - t0, 2)})


def run(ctx):
    # byte level, in-process: every read segmentation (fast; first)
    import sys
    from . import c05_splits
    c05_splits.run(ctx, sys.modules[__name__])
    bd, err = e2e.build_server()
    if bd is None:
        ctx.broken.append({"kind": "server-build", "names": ["lighttpd"], "log": err[-3000:]})
        return
    hdrblock_stream(ctx, bd)
    srv = e2e.Server(bd, CONF, modules=())
    setup_docroot(srv)
    t0 = time.time()
    with srv:
        l404, l400 = measure(srv.port)
        lines = gen(ctx, l404, l400)
        if not ctx.model_ok:
            return
        mo, rc, merr = C.run_model("h2", lines)
        if rc != 0 or len(mo) != len(lines):
            ctx.broken.append({"kind": "model-run", "names": ["h2"], "log": merr[-2000:]})
            return
        expects = [[canon_model(s) for s in o.split(" / ")] for o in mo]
        with ThreadPoolExecutor(10) as ex:
            res = list(ex.map(lambda a: run_scenario(srv.port, a[1][0], a[1][1], ctx.seed * 100003 + a[0]),
                              enumerate(zip(lines, expects))))
        # the client's hello split across TCP writes (the only segmentation the e2e stream controls)
        for cuts in PREFACE_CUTS:
            v = preface_split(srv.port, cuts)
            if v and "timeout" in v:       # (a loaded machine is not a stalled server: once more, patiently)
                v = preface_split(srv.port, cuts, gap=0.2, wait=30.0)
            ctx.evaluations += 1
            ctx.keys["h2-preface:%s" % ("ok" if v is None else v[:20])] += 1
            if v and v != "connect-failed":
                ctx.violation("oracle:h2:preface-depends-on-read-segmentation",
                              "client connection preface + SETTINGS sent in pieces cut at %s, then a GET: %s; unsplit the "
                              "same octets are answered 200" % (cuts, v),
                              {"property": ctx.pid, "kind": "property-oracle", "correspondence": "e2e-h2-preface",
                               "input": cuts, "impl_obs": v, "oracle_verdict": v}, found=True)
        alive = srv.alive()
    rep = srv.sanitizer_report()
    ndis = 0
    if rep or not alive:
        # find the scenario that kills the server: replay candidates one by one on fresh servers
        cand = [i for i, r_ in enumerate(res) if r_[2] == "connect-failed"]
        first = min(cand) if cand else len(lines)
        culprit = None
        for i in range(max(0, first - 24), min(len(lines), first + 1)):
            s2 = e2e.Server(bd, CONF, modules=())
            setup_docroot(s2)
            with s2:
                try:
                    run_scenario(s2.port, lines[i], expects[i], ctx.seed * 100003 + i)
                except Exception:
                    pass
                time.sleep(0.2)
                dead = not s2.alive()
            if dead or s2.sanitizer_report():
                culprit = (lines[i], s2.sanitizer_report() or s2.logs())
                break
        ctx.violation("crash:h2:" + ((culprit[1] or "")[:60] if culprit else "unknown"),
                      "server crashed / sanitizer report on an HTTP/2 frame scenario",
                      {"property": ctx.pid, "kind": "sanitizer-or-crash", "correspondence": "e2e-h2-frames",
                       "input": culprit[0] if culprit else None,
                       "stderr": ((culprit[1] if culprit else rep) or "")[-4000:]}, found=culprit is not None)
        return
    for line, exp, (canon, verdict, frames) in zip(lines, expects, res):
        ctx.evaluations += 1
        ctx.keys["h2:" + "|".join(",".join(sorted(set(x[0] for x in e[0]))) + ":" + str(len(e[1])) for e in exp)[:60]] += 1
        if verdict:
            ctx.violation("oracle:h2:" + sig_of(verdict)[:40], verdict,
                          {"property": ctx.pid, "kind": "property-oracle", "correspondence": "e2e-h2-frames",
                           "input": line, "impl_obs": [str(c_) for c_ in (canon or [])], "oracle_verdict": verdict},
                          found=True)
            continue
        # steps after the connection was closed produce nothing on either side
        exp_t = [e for e in exp]
        got = canon + [([], {})] * (len(exp_t) - len(canon))
        if got != exp_t:
            ndis += 1
            ctx.violation("corr:h2-frames", "model/implementation correspondence e2e-h2-frames broken",
                          {"property": ctx.pid, "kind": "correspondence", "correspondence": "e2e-h2-frames",
                           "input": line, "impl_obs": [str(g) for g in got], "model_obs": [str(e) for e in exp_t],
                           "oracle_verdict": "trace accepted by the RFC 9113 monitor"}, found=False)
    for i in range(0, len(lines), max(1, len(lines) // 4)):
        ctx.sample({"stream": "e2e-h2-frames", "input": lines[i], "impl": [str(c_) for c_ in (res[i][0] or [])]})
    ctx.streams.append({"name": "e2e-h2-frames", "cases": len(lines), "disagreements": ndis,
                        "wall_s": round(time.time() - t0, 2)})
    ctx.rule = ("client frame sequences: every sequence of length <= 2 over a %d-frame alphabet (valid and invalid "
                "frames of every type on stream 0, open, recently closed, idle and even streams) after three "
                "prefixes, random longer batches, concurrency overflow (also with header blocks forced into "
                "CONTINUATION frames); the same scenarios + byte-level ones as octets under many read segmentations "
                "in-process; distinct = e2e: per-step (control frame kinds, number of responding streams) signatures; "
                "in-process: (segmentation kind, per-step frame kinds, connection ended) triples" % len(alphabet(0, 0)))
    ctx.assumptions += ["e2e: scenario batches are delivered in one TCP segment (loopback, < 64 KiB); every other "
                        "split of the octets across reads is exercised by the in-process stream",
                        "2-second heuristics (recently half-closed, rapid reset) do not expire within a scenario"]


def replay_line(ctx, rep):
    if str(rep.get("correspondence", "")).startswith("inproc-h2-splits"):
        import sys
        from . import c05_splits
        return c05_splits.replay(ctx, sys.modules[__name__], rep)
    bd, err = e2e.build_server()
    if rep.get("correspondence") == "e2e-h2-preface":
        srv = e2e.Server(bd, CONF, modules=())
        setup_docroot(srv)
        with srv:
            v = preface_split(srv.port, rep["input"])
        print("hello cut at", rep["input"], "->", v or "200, complete")
        if v:
            print("VIOLATION property=%s replay=(replayed)" % ctx.pid)
            return 1
        return 0
    line = rep["input"]
    mo, rc, merr = C.run_model("h2", [line])
    exp = [canon_model(s) for s in mo[0].split(" / ")]
    srv = e2e.Server(bd, CONF, modules=())
    setup_docroot(srv)
    with srv:
        canon, verdict, frames = run_scenario(srv.port, line, exp, 1)
    print("input:", line)
    print("impl :", canon)
    print("model:", exp)
    print("oracle:", verdict)
    got = (canon or []) + [([], {})] * (len(exp) - len(canon or []))
    if verdict or got != exp:
        print("VIOLATION property=%s replay=(replayed)" % ctx.pid)
        return 1
    return 0
