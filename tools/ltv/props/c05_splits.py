"""C05, correspondence stream `inproc-h2-splits`: the client byte stream of the C05 frame scenarios,
delivered to the real h2.c (in-process, harness/inproc/h_h2.c) under many read segmentations.

 (a) the canonical outcome is identical for all segmentations of the same byte stream,
 (b) it equals the prediction of the Lean byte-level reader + frame machine (model op `h2b`), which in
     turn equals the frame-level prediction (op `h2`) on the tokens the octets were made from,
 (c) the RFC 9113 monitor and the client-side oracle of c05.py accept it.
"""
import itertools, random, struct, time
from .. import common as C
from .. import e2e

NAME = "inproc-h2-splits"
L404 = 341
HELLO_LEN = 24 + 9 + 9         # client connection preface + SETTINGS + SETTINGS ack


class _Z:
    """payload stand-in of a given length (all zero octets) for the monitor"""

    def __init__(self, n, head=b""):
        self.n, self.head = n, head

    def __len__(self):
        return self.n

    def __getitem__(self, sl):
        b = (self.head + bytes(16))[:min(self.n, 16)]
        return b[sl]


def frame_starts(b):
    """offsets of the frame headers in b (walk by the length fields)"""
    out, i = [], 0
    while i + 9 <= len(b):
        out.append(i)
        i += 9 + int.from_bytes(b[i:i + 3], "big")
    return [o for o in out if o <= len(b)]


def cut_points(b, limit=None):
    """interesting cut positions of one step's octets, most interesting first: header end, frame
    boundary, header end + 1 (Pad Length octet), header end - 1, boundary +- 1, inside the payload"""
    n = len(b)
    starts = frame_starts(b)
    prio = []
    for off in (9, 0, 10, 8, 1, -1, None, 3, 5, 14):
        for f in starts:
            ln = int.from_bytes(b[f:f + 3], "big") if f + 3 <= n else 0
            p = f + 9 + ln // 2 if off is None else f + off
            if 0 < p < n and p not in prio:
                prio.append(p)
    return prio if limit is None else prio[:limit]


def apply_cuts(b, cuts):
    cuts = sorted(set(c for c in cuts if 0 < c < len(b)))
    return [b[i:j] for i, j in zip([0] + cuts, cuts + [len(b)])]


def hexseg(b):
    return b.hex() if b else "-"


class Case:
    """one token scenario turned into octets"""

    def __init__(self, c05, tokline, rng):
        self.tokline = tokline
        toks = tokline.split(" ")[1:]
        self.noack = bool(toks) and toks[0] == "noack"
        if self.noack:
            toks = toks[1:]

        class Cl:
            hp = c05.MiniHpack()
        self.table = {}
        opened = set()
        self.steps, self.step_toks = [], []
        cur, ctoks = b"", []
        for t in toks:
            if t == "q":
                self.steps.append(cur); self.step_toks.append(ctoks)
                cur, ctoks = b"", []
                continue
            cur += c05.build_frames(Cl, t, rng, opened, inproc=True, table=self.table)
            if t.startswith("H:"):
                opened.add(int(t.split(":")[1]))
            ctoks.append(t)
        self.raw = any(t.startswith("B:") for t in toks)
        self.nbytes = sum(len(s) for s in self.steps)

    def tab(self, hello=None):
        t = ";".join("%s=%s" % kv for kv in sorted(self.table.items()))
        if hello and self.noack:
            hello = None
        if hello:
            # (read sizes of the client's hello; an entry the model's table parser drops: "hello" is not hex)
            t = "hello=" + ".".join(str(n) for n in hello) + (";" + t if t else "")
        if self.noack:
            t = "noack" + (";" + t if t else "")
        return t or "-"

    def line(self, segs_per_step, hello=None):
        out = ["h2b", self.tab(hello)]
        for segs in segs_per_step:
            out += [hexseg(s) for s in segs if s] + ["q"]
        return " ".join(out)

    def line_own_steps(self, segs_per_step):
        """every segment a step of its own (the schedule of the real server: streams are served
        between reads); steps of the scenario that stay empty keep their q"""
        out = ["h2b", self.tab()]
        marks = []
        for segs in segs_per_step:
            segs = [s for s in segs if s]
            for s in segs:
                out += [hexseg(s), "q"]
            if not segs:
                out.append("q")
            marks.append(max(1, len(segs)))
        return " ".join(out), marks


def variants(case, rng, quick, exhaustive_k=0):
    """list of (kind, segs_per_step)"""
    steps = case.steps
    out = [("whole", [[s] for s in steps])]
    if case.nbytes <= 3000:
        out.append(("octets", [[s[i:i + 1] for i in range(len(s))] for s in steps]))
    sizes = list(range(2, 18))
    pick = rng.sample(sizes, 3 if quick else 6) + ([9, 10] if not quick else [rng.choice([9, 10])])
    for sz in pick:
        out.append(("chunk%d" % sz, [[s[i:i + sz] for i in range(0, len(s), sz)] for s in steps]))
    for _ in range(2 if quick else 3):
        out.append(("random", [apply_cuts(s, rng.sample(range(1, len(s)), min(len(s) - 1, rng.randint(1, 6))))
                               if len(s) > 1 else [s] for s in steps]))
    # cuts at interesting places: each alone, and a few together
    for _ in range(3 if quick else 4):
        segs = []
        for s in steps:
            pts = cut_points(s)
            segs.append(apply_cuts(s, rng.sample(pts, min(len(pts), rng.randint(1, 4)))) if pts else [s])
        out.append(("points", segs))
    if exhaustive_k:
        # all 2^k subsets of the k most interesting cut points of the step with most frames
        j = max(range(len(steps)), key=lambda i: len(frame_starts(steps[i])))
        pts = cut_points(steps[j], exhaustive_k)
        for r in range(len(pts) + 1):
            for sub in itertools.combinations(pts, r):
                segs = [[s] for s in steps]
                segs[j] = apply_cuts(steps[j], sub)
                out.append(("all-subsets", segs))
    return out


def parse_out(o):
    """harness / model output -> (steps [list of tokens], fin, flags)"""
    flags = []
    if " | " not in o:
        return None, None, ["unparsable"]
    body, tail = o.rsplit(" | ", 1)
    for fl in ("UNDELIVERED", "BODY-CORRUPT", "STALL"):
        if fl in body:
            flags.append(fl); body = body.replace(" " + fl, "")
    if " HELLO-FAILED" in body:
        body, code = body.split(" HELLO-FAILED")
        flags.append("HELLO-FAILED" + code.strip())
    steps = [[] if s.strip() in ("-", "") else s.strip().split(" ") for s in body.split(" / ")]
    return steps, tail.strip() == "fin", flags


def canon_out(c05, o):
    """output line -> comparable form: per step (control multiset, per-stream status / DATA total /
    END_STREAM), connection ended or not, harness flags"""
    steps, fin, flags = parse_out(o)
    if steps is None:
        return o
    return [c05.canon_model(" ".join(s), frames=True) for s in steps], fin, flags


def header_splits(sent, steps):
    """(client's SETTINGS_MAX_FRAME_SIZE in force, block length, payload sizes) of every response header block"""
    out = set()
    cur, pend = 16384, []
    for toks, st in zip(sent, steps):
        for t in toks:
            a = t.split(":")
            if a[0] == "S" and a[1] == "0" and a[2] == "0":
                v = None
                if a[3] != "-":
                    for kv in a[3].split(","):
                        if kv.startswith("5=") and 16384 <= int(kv[2:]) <= 16777215:
                            v = int(kv[2:])
                pend.append(v)
        for t in st:
            if t == "SA" and pend:
                v = pend.pop(0)
                cur = v or cur
            elif t.startswith("H") and ":" in t:
                sizes = tuple(int(x) for x in t.split(":")[1].split("+"))
                out.add((cur, sum(sizes), sizes))
    return out


def pseudo_frames(step):
    """tokens of one step -> (type, flags, sid, payload-like) for the monitor; None for a frame the
    harness could not classify"""
    fr = []
    for t in step:
        k = t[0]
        if t == "SA":
            fr.append((4, 1, 0, b""))
        elif t.startswith("PA"):
            fr.append((6, 1, 0, bytes.fromhex(t[2:]) if len(t) == 18 else bytes(8)))
        elif k == "G":
            a, b = t[1:].split(",")
            fr.append((7, 0, 0, struct.pack(">II", int(a), int(b))))
        elif k == "R":
            a, b = t[1:].split(",")
            fr.append((3, 0, int(a), struct.pack(">I", int(b))))
        elif k == "W":
            a, b = t[1:].split(",")
            fr.append((8, 0, int(a), struct.pack(">I", int(b))))
        elif k == "H":
            a, b, c = t[1:].split(":")[0].split(",")
            sizes = [int(x) for x in t.split(":")[1].split("+")] if ":" in t else [1]
            for i, n in enumerate(sizes):
                fr.append((1 if i == 0 else 9, (int(c) if i == 0 else 0) | (4 if i == len(sizes) - 1 else 0), int(a), _Z(n)))
        elif k == "D":
            a, b, c = t[1:].split(",")
            fr.append((0, int(c), int(a), _Z(int(b))))
        else:
            return None, t
    return fr, None


def special_cases(c05, quick, rng):
    """scenarios added for the byte-level stream (token lines; B:<hex> = raw octets)"""
    H = c05.H

    def fr(ftype, flags, sid, payload=b""):
        return struct.pack(">I", len(payload))[1:] + bytes([ftype, flags]) + struct.pack(">I", sid & 0xffffffff) + payload
    L = []
    # request bodies with a declared length carried by padded DATA frames: a wrong Pad Length (read
    # from the wrong octet) changes the body length -> RST_STREAM(PROTOCOL_ERROR) instead of the response
    for pads in ([0], [2], [1, 3], [0, 0, 5], [7, 1]):
        for dl in (1, 3, 5):
            n = dl * len(pads)
            ds = ["D:1:%d:%d:%d" % (dl + 1 + p, p, 1 if i == len(pads) - 1 else 0) for i, p in enumerate(pads)]
            L.append("h2 " + " ".join([H(1, 200, 10, reqlen=n, es=0)] + ds) + " q")
            L.append("h2 " + " ".join([H(1, 200, 3000, reqlen=n, es=0, cont=1)] + ds + ["P:0:0:8", H(3, 404, L404)]) + " q")
    # padded DATA on streams in every state
    L.append("h2 %s q D:1:6:2:0 D:1:6:2:1 q" % H(1, 200, 10, reqlen=-1, es=0))
    L.append("h2 %s D:1:1:0:0 D:1:2:0:0 D:1:2:1:1 q" % H(1, 200, 10, reqlen=1, es=0))
    L.append("h2 %s D:1:0:0:1 q" % H(1, 200, 10, reqlen=-1, es=0))
    # header blocks in 1..4 CONTINUATION frames, with priority fields, followed by other frames
    for nc in (1, 2, 3, 4):
        L.append("h2 %s P:0:0:8 %s q" % (H(1, 200, 10, cont=nc), H(3, 404, L404, cont=nc, dep="1")))
        L.append("h2 %s D:1:3:-:1 %s q" % (H(1, 200, 10, reqlen=3, es=0, cont=nc), H(3, 400, c05.ERRBODY, cont=nc)))
    # raw octets: things the token language cannot say
    hp = c05.MiniHpack()
    blk = hp.encode([(":method", "GET"), (":scheme", "http"), (":path", "/r/200/10"), (":authority", "localhost")])
    tab = "T:%s=r200,10,0,0" % blk.hex()
    ping = fr(6, 0, 0, b"12345678")

    def raw(*frames, extra_tab=None):
        return "h2 " + (extra_tab or tab) + " B:" + b"".join(frames).hex() + " q"
    # padded HEADERS (padding removed in place when CONTINUATION frames follow)
    for pad in (0, 1, 5):
        L.append(raw(fr(1, 0x0d, 1, bytes([pad]) + blk + bytes(pad)), ping))
        L.append(raw(fr(1, 0x09, 1, bytes([pad]) + blk[:5] + bytes(pad)), fr(9, 4, 1, blk[5:]), ping))
        L.append(raw(fr(1, 0x29, 1, bytes([pad]) + struct.pack(">IB", 0, 9) + blk[:2] + bytes(pad)),
                     fr(9, 0, 1, blk[2:7]), fr(9, 0, 1, b""), fr(9, 4, 1, blk[7:]), ping))
    L.append(raw(fr(1, 0x09, 1, bytes([9]) + blk[:5]), fr(9, 4, 1, blk[5:]), ping))          # pad > length
    L.append(raw(fr(1, 0x08, 1, b""), fr(9, 4, 1, blk), ping))                                 # PADDED, empty
    L.append(raw(fr(1, 0x21, 1, blk[:3]) , fr(9, 4, 1, blk[3:]), ping))                        # PRIORITY cut short
    # CONTINUATION errors: wrong stream, wrong type, reserved bit, interleaved frame, END_HEADERS missing at the end
    L.append(raw(fr(1, 1, 1, blk[:4]), fr(9, 4, 3, blk[4:]), ping))
    L.append(raw(fr(1, 1, 1, blk[:4]), fr(0, 0, 1, b"x"), fr(9, 4, 1, blk[4:])))
    L.append(raw(fr(1, 1, 1, blk[:4]), fr(9, 4, 1 | 0x80000000, blk[4:]), ping))
    L.append(raw(fr(1, 1, 1, blk[:4]), fr(9, 0, 1, blk[4:])) + " B:%s q" % (fr(9, 4, 1, b"") + ping).hex())
    L.append(raw(fr(1, 1, 0x80000001, blk[:4]), fr(9, 4, 1, blk[4:]), ping))
    # reserved bit set in the stream id of ordinary frames: ignored
    L.append(raw(fr(1, 5, 1, blk)[:5] + b"\x80" + fr(1, 5, 1, blk)[6:], fr(6, 0, 0, b"12345678")[:5] + b"\x80" + ping[6:]))
    # frame sizes around the advertised SETTINGS_MAX_FRAME_SIZE, before and after the client raised ITS limit
    big = lambda n: fr(0x20, 0, 0, b"z" * n)
    L.append(raw(big(16384), ping))
    L.append(raw(big(16385), ping))
    L.append(raw(fr(4, 0, 0, struct.pack(">HI", 5, 32768)), big(16384), ping))
    L.append(raw(fr(4, 0, 0, struct.pack(">HI", 5, 32768)), big(16385), ping))
    L.append(raw(fr(4, 0, 0, struct.pack(">HI", 5, 32768)), big(20000), ping))
    L.append(raw(fr(4, 0, 0, struct.pack(">HI", 5, 32768)), fr(1, 1, 1, blk[:4]), fr(9, 4, 1, blk[4:] + bytes(17000)), ping))
    L.append("h2 %s B:%s q B:%s q" % (tab, fr(4, 0, 0, struct.pack(">HI", 5, 32768)).hex(), (big(20000) + ping).hex()))
    # a header block of more than 64 KiB in CONTINUATION frames (thorough: the lines are long)
    if not quick:
        for k in (4, 5):
            L.append(raw(fr(1, 1, 1, blk), *([fr(9, 0, 1, bytes(16000))] * k + [fr(9, 4, 1, b"")]), ping))
    # 31 / 32 / 40 CONTINUATION frames in one block (the 32nd triggers a graceful GOAWAY), then a request
    for k in (31, 32, 40):
        blk2 = MiniHpackBlock(c05, "/r/200/0")
        L.append("h2 T:%s=r200,10,0,0;%s=r200,0,0,0 B:%s q" % (
            blk.hex(), blk2.hex(),
            (fr(1, 1, 1, blk[:1]) + b"".join(fr(9, 0, 1, blk[1 + i:2 + i]) for i in range(k - 1))
             + fr(9, 4, 1, blk[k:]) + ping + fr(1, 5, 3, blk2)).hex()))
    return L


def MiniHpackBlock(c05, path):
    return c05.MiniHpack().encode([(":method", "GET"), (":scheme", "http"), (":path", path), (":authority", "localhost")])


def make_case(c05, tokline, rng):
    """token line (with optional T:<table> token and B:<hex> raw tokens) -> Case"""
    toks = tokline.split(" ")
    tabtok = [t for t in toks if t.startswith("T:")]
    case = Case(c05, " ".join(t for t in toks if not t.startswith("T:")), rng)
    for t in tabtok:
        for e in t[2:].split(";"):
            h, k = e.split("=")
            case.table[h] = k
    return case


def run(ctx, c05):
    t0 = time.time()
    exe, err = C.build_harness("h_h2")
    if exe is None:
        ctx.broken.append({"kind": "harness-build", "names": ["h_h2"], "log": (err or "")[-3000:]})
        return
    rng = random.Random(ctx.seed * 7919 + 11)
    quick = ctx.quick
    toklines = c05.gen(ctx, L404, c05.ERRBODY, rng=rng)
    if quick:
        # the exhaustive pair part is large: thin it further for this stream (the e2e stream keeps its share)
        toklines = [l for l in toklines if l.count(" ") > 12 or rng.random() < 0.45]
    spec = special_cases(c05, quick, rng)
    toklines = spec + toklines
    cases = []
    for tl in toklines:
        try:
            cases.append(make_case(c05, tl, rng))
        except ValueError as ex:
            ctx.notes.append("inproc-h2-splits: case skipped (%s)" % ex)
    # which cases get all 2^k segmentations of their k most interesting cut points
    k_ex = 9 if quick else 12
    ex_idx = set(range(0, min(len(spec), len(cases)), 5 if quick else 3))
    multi = [i for i, c in enumerate(cases) if i >= len(spec) and len(frame_starts(max(c.steps, key=len))) >= 2]
    ex_idx |= set(rng.sample(multi, min(len(multi), 6 if quick else 16)))
    lines, meta = [], []          # meta: (case index, kind, same_steps?, marks)
    for i, c in enumerate(cases):
        for kind, segs in variants(c, rng, quick, k_ex if i in ex_idx else 0):
            lines.append(c.line(segs)); meta.append((i, kind, True, None))
        # the client's hello (connection preface, SETTINGS, SETTINGS ack: 42 octets) in several reads
        whole = [[s] for s in c.steps]
        if i == 0:
            hellos = [[k, HELLO_LEN - k] for k in range(1, HELLO_LEN)]
            hellos += [[1] * HELLO_LEN]
            pairs = [(a, b) for a in range(1, HELLO_LEN) for b in range(a + 1, HELLO_LEN)]
            for a, b in (rng.sample(pairs, 120) if quick else pairs):
                hellos.append([a, b - a, HELLO_LEN - b])
        elif rng.random() < (0.25 if quick else 0.5):
            cuts = sorted(set(rng.choice([rng.randint(17, 25), rng.randint(1, HELLO_LEN - 1)])
                              for _ in range(rng.randint(1, 3))))
            hellos = [[b - a for a, b in zip([0] + cuts, cuts + [HELLO_LEN])]]
        else:
            hellos = []
        for h in hellos:
            lines.append(c.line(whole, hello=h)); meta.append((i, "hello", True, None))
        # the real schedule: each segment is a read followed by stream processing
        # (not for blocks of >= 32 CONTINUATION frames: the graceful GOAWAY of that heuristic goes out when
        #  the 32nd frame is complete, the model announces it when the block is)
        if any(sum(1 for f in frame_starts(s) if s[f + 3:f + 4] == b"\x09") >= 32 for s in c.steps):
            continue
        for _ in range(2):
            segs = [apply_cuts(s, rng.sample(cut_points(s) or [1], 1) + ([rng.randrange(1, len(s))] if len(s) > 1 else []))
                    if len(s) > 1 else [s] for s in c.steps]
            ln, marks = c.line_own_steps(segs)
            lines.append(ln); meta.append((i, "own-steps", False, marks))
    # ---- run both sides
    impl = run_sharded([exe], lines)
    crashed = [j for j, o in enumerate(impl) if o is None]
    for j in crashed[:3]:
        o1, rc1, err1 = C.run_lines([exe], [lines[j]])
        ctx.violation("crash:%s:%s" % (NAME, crash_sig(err1 or "")),
                      "h2.c crashed / sanitizer report while reading the client octets in the given segments",
                      {"property": ctx.pid, "kind": "sanitizer-or-crash", "correspondence": NAME,
                       "input": lines[j], "tokens": cases[meta[j][0]].tokline, "segmentation": meta[j][1],
                       "rc": rc1, "stderr": (err1 or "")[-4000:], "confirmed_single_line": rc1 != 0}, found=True)
    mod = None
    if ctx.model_ok:
        mo, mrc, merr = C.parallel_lines([C.ltmodel_path(), "h2"], lines)
        if mrc != 0 or len(mo) != len(lines):
            ctx.broken.append({"kind": "model-run", "names": ["h2"], "log": merr[-2000:]})
        else:
            mod = mo
        # frame-level prediction from the tokens (no octets, no reader)
        tl = [c.tokline for c in cases if not c.raw]
        fo, frc, ferr = C.parallel_lines([C.ltmodel_path(), "h2"], tl)
        frame_pred = dict(zip([i for i, c in enumerate(cases) if not c.raw], fo)) if frc == 0 and len(fo) == len(tl) else {}
    else:
        frame_pred = {}
    ndis = nident = 0
    hsplits = set()            # (max frame size in force, header block length, frame payload sizes) seen
    first_out = {}
    reported = set()
    for j, (line, (ci, kind, same, marks)) in enumerate(zip(lines, meta)):
        io = impl[j]
        if io is None:
            continue
        case = cases[ci]
        ctx.evaluations += 1
        steps, fin, flags = parse_out(io)
        outcome = "unparsable" if steps is None else "|".join(
            ",".join(sorted(set(t[0] for t in s))) for s in steps)[:40] + (":fin" if fin else "")
        ctx.keys["splits:%s:%s" % (kind if kind != "all-subsets" else "subsets", outcome)] += 1
        ctx.dist["splits:" + kind] += 1
        verdict = None
        if steps is None or flags:
            verdict = "harness reports %s" % ",".join(flags)
            if "BODY-CORRUPT" in flags:
                verdict = "octets that are not DATA payload (Pad Length / padding / frame header) reached a request body"
            if "STALL" in flags:
                verdict = ("the connection stops making progress: input is waiting, but read interest is off and the "
                           "connection is not scheduled")
            hf = [f for f in flags if f.startswith("HELLO-FAILED")]
            if hf:
                code = hf[0][len("HELLO-FAILED"):]
                verdict = ("preface-depends-on-read-segmentation: the client's connection preface + SETTINGS, split "
                           "across reads, ended in %s; unsplit it is accepted" %
                           ("a connection error" if code in ("-1",) else
                            "GOAWAY(%s)" % c05.E_NAME.get(int(code), code) if code.lstrip("-").isdigit() and int(code) > 0
                            else "an unfinished set-up"))
        else:
            frames_steps, bad = [], None
            for s in steps:
                fr, b = pseudo_frames(s)
                if fr is None:
                    bad = b; break
                frames_steps.append(fr)
            if bad:
                verdict = "malformed or unexpected frame emitted: %s" % bad
            elif any(t.startswith("H") and int(t.split(",")[1]) < 100 for s in steps for t in s):
                verdict = "response header block does not decode / has no :status"
            elif same and not case.raw:
                sent = case.step_toks
                verdict = c05.monitor(sent, frames_steps) or \
                    c05.client_oracle(sent, [c05.canon_model(" ".join(s)) for s in steps], fin, case.noack)
                if not verdict:
                    hsplits.update(header_splits(sent, steps))
            elif same:
                verdict = c05.monitor([[] for _ in steps], frames_steps, raw=True)
        if verdict:
            sig = "oracle:%s:%s" % (NAME, "preface-depends-on-read-segmentation" if verdict.startswith("preface-")
                                    else c05.sig_of(verdict))
            ctx.violation(sig, verdict, {"property": ctx.pid, "kind": "property-oracle", "correspondence": NAME,
                                         "input": line, "tokens": case.tokline, "segmentation": kind,
                                         "impl_obs": io, "oracle_verdict": verdict}, found=True)
            reported.add(ci)
        # (a) identical outcome for every segmentation of the same steps
        if same:
            if ci not in first_out:
                first_out[ci] = (line, kind, io)
            elif canon_out(c05, first_out[ci][2]) != canon_out(c05, io) and ("ident", ci) not in reported:
                nident += 1
                reported.add(("ident", ci)); reported.add(ci)
                l0, k0, o0 = first_out[ci]
                what = "frame-size" if "G0,6" in (o0 + io) else "outcome"
                ctx.violation("oracle:%s:%s-depends-on-read-segmentation" % (NAME, what),
                              "the same client octets give different outcomes under two read segmentations",
                              {"property": ctx.pid, "kind": "property-oracle", "correspondence": NAME,
                               "input": [l0, line], "tokens": case.tokline, "segmentation": [k0, kind],
                               "impl_obs": [o0, io], "model_obs": mod[j] if mod else None,
                               "oracle_verdict": "outcome depends on how the octets are split across reads"},
                              found=True)
        # (b) the model
        if mod is not None and canon_out(c05, io) != canon_out(c05, mod[j]):
            ndis += 1
            if ci not in reported:
                reported.add(ci)
                ctx.violation("corr:%s" % NAME, "model/implementation correspondence %s broken" % NAME,
                              {"property": ctx.pid, "kind": "correspondence", "correspondence": NAME,
                               "input": line, "tokens": case.tokline, "segmentation": kind, "impl_obs": io,
                               "model_obs": mod[j],
                               "oracle_verdict": "trace accepted by the RFC 9113 monitor and the client-side oracle"},
                              found=False)
        if mod is not None and kind == "whole" and ci in frame_pred:
            if canon_out(c05, mod[j])[0] != canon_out(c05, frame_pred[ci] + " | open")[0]:
                ctx.violation("corr:%s:reader-vs-frames" % NAME,
                              "byte-level model (reader + frame machine) and frame-level model disagree on a scenario",
                              {"property": ctx.pid, "kind": "correspondence", "correspondence": NAME + "/model",
                               "input": line, "tokens": case.tokline, "model_obs": mod[j],
                               "frame_model_obs": frame_pred[ci]}, found=False)
    # the HEADERS / CONTINUATION split of h2_send_hpack() against the model's hpackSplit
    if hsplits and ctx.model_ok:
        hs = sorted(hsplits)
        ho, hrc, herr = C.run_model("h2", ["hsplit %d %d" % (f, n) for f, n, _ in hs])
        for (f, n, sizes), o in zip(hs, ho):
            ctx.evaluations += 1
            ctx.keys["splits:hsplit:%d:%d" % (f, len(sizes))] += 1
            if o != "+".join(str(x) for x in sizes):
                ctx.violation("corr:%s:hpack-split" % NAME,
                              "HEADERS/CONTINUATION split of a response header block differs from the model",
                              {"property": ctx.pid, "kind": "correspondence", "correspondence": NAME + "/hsplit",
                               "input": "hsplit %d %d" % (f, n), "impl_obs": "+".join(str(x) for x in sizes),
                               "model_obs": o}, found=False)
    step = max(1, len(lines) // 4)
    for j in range(0, len(lines), step):
        ctx.sample({"stream": NAME, "tokens": cases[meta[j][0]].tokline[:300], "segmentation": meta[j][1],
                    "input": lines[j][:400], "impl": impl[j]})
    ctx.streams.append({"name": NAME, "cases": len(lines), "byte_streams": len(cases), "disagreements": ndis,
                        "segmentation_dependent": nident, "crashes": len(crashed),
                        "wall_s": round(time.time() - t0, 2)})
    ctx.exhaustive = {NAME: "all 2^%d subsets of the %d most interesting cut points (frame boundary, header end, "
                            "Pad Length octet, +-1, inside payloads) of %d byte streams; every byte stream also in "
                            "one read and octet by octet" % (k_ex, k_ex, len(ex_idx)),
                      "e2e-h2-frames": "every frame sequence of length <= 2 over the alphabet after three prefixes "
                                       "(thinned in the quick tier)"}
    ctx.notes.append("%s: %d byte streams (%d token scenarios of the e2e generator + %d byte-level ones), %d "
                     "segmentations; all 2^%d cut subsets for %d streams" %
                     (NAME, len(cases), len(cases) - len(spec), len(spec), len(lines), k_ex, len(ex_idx)))


def crash_sig(err):
    import re
    m = re.search(r"SUMMARY: \w+: ([\w-]+) .*? in (\w+)", err)
    if m:
        return "%s:%s" % (m.group(1), m.group(2))
    m = re.search(r"runtime error: ([^\n]{0,60})", err)
    if m:
        return re.sub(r"\d+", "N", m.group(1))
    m = re.search(r"h_h2: ([^\n]{0,60})", err)
    return m.group(1) if m else "no-report"


def run_sharded(cmd, lines):
    """parallel run; a shard that dies is continued after the line that killed it.
    Returns outputs with None for lines that crashed the harness."""
    from concurrent.futures import ThreadPoolExecutor
    n = C.NCPU
    sz = max(1, (len(lines) + n - 1) // n)
    parts = [(i, lines[i:i + sz]) for i in range(0, len(lines), sz)]
    out = [None] * len(lines)

    def work(part):
        base, ls = part
        pos = 0
        for _ in range(8):
            if pos >= len(ls):
                break
            o, rc, err = C.run_lines(cmd, ls[pos:])
            for k, x in enumerate(o[:len(ls) - pos]):
                out[base + pos + k] = x
            if rc == 0 and len(o) >= len(ls) - pos:
                break
            pos += len(o) + 1          # skip the line that produced no output
    with ThreadPoolExecutor(n) as ex:
        list(ex.map(work, parts))
    return out


def replay(ctx, c05, rep):
    exe, err = C.build_harness("h_h2")
    lines = rep["input"] if isinstance(rep["input"], list) else [rep["input"]]
    io, rc, e = C.run_lines([exe], lines)
    mo, mrc, me = C.run_model("h2", lines)
    bad = rc != 0
    toks = rep.get("tokens", "")
    sent, cur = [], []
    for t in toks.split(" ")[1:]:
        if t == "q":
            sent.append(cur); cur = []
        elif not t.startswith("T:"):
            cur.append(t)
    raw = any(t.startswith("B:") for st in sent for t in st)
    for k, l in enumerate(lines):
        print("input :", l[:2000])
        print("impl  :", io[k] if k < len(io) else "<crash>")
        print("model :", mo[k] if k < len(mo) else "?")
        if k >= len(io) or k >= len(mo) or canon_out(c05, io[k]) != canon_out(c05, mo[k]):
            print("        implementation and model differ")
            bad = True
        if k < len(io):
            steps, fin, flags = parse_out(io[k])
            if flags:
                print("        harness flags:", flags); bad = True
            elif steps is not None and not raw and len(steps) == len(sent):
                frs = [pseudo_frames(st)[0] for st in steps]
                v = None if any(f is None for f in frs) else (
                    c05.monitor(sent, frs) or c05.client_oracle(sent, [c05.canon_model(" ".join(st)) for st in steps], fin,
                                                                toks.split(" ")[1:2] == ["noack"]))
                print("oracle:", v)
                bad = bad or bool(v)
    if rc != 0:
        print(e[-3000:])
    if len(set(str(canon_out(c05, o)) for o in io)) > 1:
        print("outcome depends on the segmentation")
        bad = True
    if bad:
        print("VIOLATION property=%s replay=(replayed)" % ctx.pid)
        return 1
    return 0
