"""C06 — HTTP/2 flow control: never exceed the peer's window, never deadlock."""
import re, time
from concurrent.futures import ThreadPoolExecutor
from .. import common as C
from .. import e2e

MANIFEST = dict(
    text="Lean 4 theorems over a state-machine model of h2.c's send-side window arithmetic (h2_init_con / "
         "h2_init_stream defaults read back from the real functions, SETTINGS_INITIAL_WINDOW_SIZE deltas, "
         "WINDOW_UPDATE, the h2_send_cqdata clamp and deferral): exact credit accounting invariant for every "
         "history, DATA sent never exceeds the credit granted (RFC 9113 initial 65535), mandated errors for "
         "0 / overflowing increments, int32 safety, resume once enough credit is granted; model tied to the "
         "code by an end-to-end correspondence against the real (sanitized) server and by extracted constants",
    note="trusted: Lean kernel, hand-written model validated end-to-end against the real lighttpd built from "
         "the working tree with a raw frame client (nghttp2 HPACK), constants extracted by executing "
         "h2_init_con(); scheduling assumption: the test client reads promptly, so the server write queue "
         "drains between passes; the <2048-byte deferral of h2_send_cqdata is modelled (a client granting "
         "less than min(2048, remaining) is not guaranteed progress: stated in the theorem)",
    tech="Lean 4 proof (invariant over event histories) + extracted constants + e2e correspondence",
    ref="6/C06")

SIZES = [0, 1, 2047, 2048, 2049, 16384, 65535, 65536, 65537, 100000, 200000, 1048576]
CONF = '''
server.feature-flags = ("server.h2proto" => "enable", "server.h2c" => "enable")
cgi.assign = (".pl" => "/usr/bin/perl")
server.max-keep-alive-idle = 30
server.max-read-idle = 30
server.max-write-idle = 30
'''


def gen(ctx):
    rng = ctx.rng
    lines = []
    # hand-picked boundary scenarios (incl. the 1-byte overdraft scenario for the initial window)
    fixed = [
        "w0,100000 o1,65536,0 q",
        "w0,100000 o1,65535,0 q",
        "w0,100000 o1,65537,0 q w1,1 q w1,2048 q",
        "o1,100000,0 q w1,10 q w1,5000 q w0,200000 q",
        "o1,100000,1 q w0,100000 q w1,100000 q",
        "s0 o1,2048,0 q s2048 q",
        "s100 o1,65536,0 q s70000 q w0,10000 q",
        "o1,200000,0 q s10 q w0,1000000 q s300000 q",
        "o1,100000,0 q w1,0 q",
        "o1,100000,0 q w0,0 q",
        "o1,100000,0 q w1,2147483647 q",
        "o1,100000,0 q w0,2147483647 q",
        "s2147483648 o1,10,0 q",
        "s2147483647 o1,100000,0 q s0 q",
        "o1,1048576,0 q w0,1048576 q w1,1048576 q",
        "w0,2000000 o1,100000,0 o3,100000,1 o5,65536,0 o7,2048,0 q w1,50000 w3,50000 q w5,1 q",
        # windows made negative by a SETTINGS decrease, then legal WINDOW_UPDATEs: must resume and complete
        "o1,100000,0 q s1000 q w1,100000 q w0,100000 q",
        "o1,200000,0 o3,100000,0 q s0 q w1,1 q w1,300000 w3,300000 w0,1000000 q",
        "s20000 o1,100000,0 o3,100000,0 o5,100000,0 o7,100000,0 q w1,100000 w3,100000 w5,100000 w7,100000 q w0,1000000 q",
        # a SETTINGS_INITIAL_WINDOW_SIZE change that overflows a live stream's window is a CONNECTION error
        # (RFC 9113 6.9.2); the neighbouring values are not
        # (stream 1 first exhausts the connection window so that stream 3 cannot send and keeps its window)
        "o1,100000,0 q o3,100000,0 q w3,2147418112 q s65536 q",
        "o1,100000,0 q o3,100000,0 o5,2048,0 q w3,2147418112 q s65536 q",
        "o1,100000,0 q o3,100000,0 q w3,2147418111 q s65536 q w0,1000000 q",
        "o1,100000,0 q o3,100000,0 q w3,2147418112 q s65535 q s65534 q w0,1000000 q",
        # scheduler order: incremental streams come before non-incremental ones of the same urgency
        "o1,65537,0 q o3,200000,0 q o5,200000,0 q o7,65536,1 q w0,35 q w0,16384 q",
        "o1,65536,0 o3,100000,1 o5,100000,0 o7,100000,1 q w0,20000 q w0,20000 q w0,1000000 q",
        # WINDOW_UPDATE on an idle stream (never opened) is a connection error; on a retired one it is ignored
        "o1,2048,0 q w5,100 q",
        "o1,2048,0 q w1,100 q o3,100000,0 q w0,100000 w3,100000 q",
    ]
    lines += ["fc " + f for f in fixed]
    n = 60 if ctx.quick else 600
    for _ in range(n):
        evs = []
        sid = 1
        live = []
        if rng.random() < 0.4:
            evs.append("w0,%d" % rng.choice([1, 1000, 65535, 100000, 2000000]))
        if rng.random() < 0.3:
            evs.append("s%d" % rng.choice([0, 1, 100, 2047, 2048, 16384, 65535, 65536, 131072]))
        for _ in range(rng.randint(2, 7)):
            k = rng.random()
            if k < 0.35 and len(live) < 5:
                evs.append("o%d,%d,%d" % (sid, rng.choice(SIZES), rng.randint(0, 1)))
                live.append(sid); sid += 2
            elif k < 0.6 and live:
                evs.append("w%d,%d" % (rng.choice(live), rng.choice([1, 35, 2047, 2048, 16384, 65535, 100000, 1000000])))
            elif k < 0.8:
                evs.append("w0,%d" % rng.choice([1, 35, 2048, 16384, 65535, 100000, 1000000]))
            elif k < 0.93:
                evs.append("s%d" % rng.choice([0, 1, 100, 2047, 2048, 16384, 65535, 65536, 131072, 1000000]))
            elif live:
                evs.append(rng.choice(["w%d,0" % rng.choice(live), "w0,0", "w%d,2147483647" % rng.choice(live)]))
            evs.append("q")
        if evs[-1] != "q":
            evs.append("q")
        lines.append("fc " + " ".join(evs))
    return lines


def parse_model(out):
    """model line -> list of per-q expectations {sid: sent}, goaway code, rst list"""
    steps = []
    rsts, goaway = [], 0
    for part in out.split(" / "):
        if part.startswith("conn:"):
            conn, ss = part.split("|", 1)
            g = int(re.search(r"goaway=(\d+)", conn).group(1))
            st = {}
            for s in ss.split(";"):
                if s:
                    m = re.match(r"(\d+):sent=(\d+),pend=(\d+)", s)
                    st[int(m.group(1))] = (int(m.group(2)), int(m.group(3)))
            steps.append({"streams": st, "goaway": g, "rsts": list(rsts)})
        else:
            for tok in part.split(" "):
                if tok.startswith("R"):
                    a, b = tok[1:].split(":")
                    rsts.append((int(a), int(b)))
    return steps


def run_scenario(port, line, expect):
    """drive one connection; returns list of observations per q + oracle verdict"""
    evs = line.split(" ")[1:]
    c = e2e.H2Conn(port)
    obs = []
    granted = {0: 65535}      # independent credit accountant (client's point of view)
    client_init = 65535
    opened = {}
    qi = 0
    verdict = None
    prev = {}
    batch = b""
    # second independent oracle (RFC 9113 6.9, 6.9.1, 6.9.2 read from the client's side): which errors the
    # client's own frames of this step mandate, given the windows as the client knows them at the last
    # quiescence point (credit granted minus DATA received)
    M = 0x7fffffff
    ended = set()             # streams whose END_STREAM / RST the client has seen
    want_go = None            # GOAWAY code mandated by this step (first one wins)
    want_rst = {}             # sid -> code mandated by this step
    seen_rst = set()
    win = {}                  # sid -> window as the client knows it (0 = connection)
    try:
        c.pump(0.3, until=lambda f: any(x[0] == 4 and not (x[1] & 1) for x in f))
        for ev in evs:
            k, args = ev[0], [int(x) for x in ev[1:].split(",")] if len(ev) > 1 else []
            if not win:
                win[0] = granted[0] - sum(prev.values())
                for sid0 in opened:
                    win[sid0] = granted[sid0] - prev.get(sid0, 0)
            if k == "o":
                sid, size, inc = args
                win[sid] = client_init
                extra = [("priority", "u=3, i")] if inc else []
                batch += c.headers_frame(sid, [(":method", "GET"), (":scheme", "http"),
                                               (":path", "/f%d.bin" % size), (":authority", "localhost")] + extra)
                granted[sid] = client_init
                opened[sid] = size
            elif k == "s":
                batch += e2e.h2_settings([(4, args[0])])
                if want_go is None:
                    if args[0] > M:
                        want_go = 3
                    elif any(sid0 not in ended and sid0 not in want_rst and win[sid0] + args[0] - client_init > M
                             for sid0 in opened):
                        want_go = 3          # 6.9.2: a change that overflows any window is a connection error
                    else:
                        for sid0 in opened:
                            win[sid0] += args[0] - client_init
                if args[0] <= 0x7fffffff:
                    for sid in opened:
                        granted[sid] += args[0] - client_init
                    client_init = args[0]
            elif k == "w":
                batch += e2e.h2_window_update(args[0], args[1])
                if want_go is None:
                    wsid, winc = args
                    if wsid == 0:
                        if winc == 0:
                            want_go = 1
                        elif win[0] + winc > M:
                            want_go = 3
                        else:
                            win[0] += winc
                    elif wsid not in opened:
                        if wsid > max(list(opened) + [0]):
                            want_go = 1      # 5.1: WINDOW_UPDATE on an idle stream
                    elif wsid not in ended and wsid not in want_rst:
                        if winc == 0:
                            want_rst[wsid] = 1
                        elif win[wsid] + winc > M:
                            want_rst[wsid] = 3
                        else:
                            win[wsid] += winc
                if args[0] in granted and 0 < args[1]:
                    granted[args[0]] += args[1]
            elif k == "q":
                if batch:
                    c.send(batch)       # one TCP write per step: the server parses the batch at once
                    batch = b""
                exp = expect[qi] if qi < len(expect) else None
                qi += 1

                def totals(frames):
                    t = {}
                    for ft, fl, sid, pl in frames:
                        if ft == 0:
                            t[sid] = t.get(sid, 0) + len(pl)
                    return t

                def reached(frames):
                    if exp is None:
                        return False
                    t = totals(frames)
                    if exp["goaway"] and any(f[0] == 7 for f in frames):
                        return True
                    return all(t.get(sid, 0) >= v[0] for sid, v in exp["streams"].items()) and \
                        all(any(f[0] == 3 and f[2] == sid for f in frames) for sid, _ in exp["rsts"])
                c.pump(4.0, until=reached)
                c.pump(0.25)            # settle: catch any overshoot
                t = totals(c.frames)
                go = [int.from_bytes(f[3][4:8], "big") for f in c.frames if f[0] == 7]
                rs = sorted((f[2], int.from_bytes(f[3][:4], "big")) for f in c.frames
                            if f[0] == 3 and int.from_bytes(f[3][:4], "big") != 0)
                obs.append({"streams": {} if go else {sid: t.get(sid, 0) for sid in opened},
                            "goaway": go[0] if go else 0, "rsts": [] if go else rs})
                # oracle: DATA received so far never exceeds the credit granted so far
                # (only where DATA arrived in this step: a later SETTINGS decrease may legitimately
                #  leave a window negative)
                for sid in opened:
                    if t.get(sid, 0) > prev.get(sid, 0) and t.get(sid, 0) > granted[sid] and verdict is None:
                        verdict = "stream %d: %d DATA bytes sent with only %d granted" % (sid, t.get(sid, 0), granted[sid])
                if sum(t.values()) > sum(prev.values()) and sum(t.values()) > granted[0] and verdict is None:
                    verdict = "connection: %d DATA bytes sent with only %d granted" % (sum(t.values()), granted[0])
                prev = dict(t)
                # mandated errors of this step vs. what the server sent
                got_rst = {sid0: code for sid0, code in rs if sid0 not in seen_rst}
                if verdict is None:
                    if want_go is not None and (not go or go[0] != want_go):
                        verdict = "mandated-error: the client's frames of step %d mandate GOAWAY(%d); server sent %s" % (
                            qi, want_go, ("GOAWAY(%d)" % go[0]) if go else ("RST_STREAM %s" % sorted(got_rst.items()) if got_rst else "no error"))
                    elif want_go is None and go and go[0] != 0:
                        verdict = "mandated-error: GOAWAY(%d) although no frame of step %d is a connection error" % (go[0], qi)
                    elif want_go is None:
                        for sid0 in sorted(set(want_rst) | set(got_rst)):
                            if want_rst.get(sid0) != got_rst.get(sid0):
                                verdict = "mandated-error: stream %d: step %d mandates %s; server sent %s" % (
                                    sid0, qi, ("RST_STREAM(%d)" % want_rst[sid0]) if sid0 in want_rst else "no error",
                                    ("RST_STREAM(%d)" % got_rst[sid0]) if sid0 in got_rst else "no error")
                                break
                # a stream stalled although the credit granted covers a sendable amount must have moved
                if verdict is None and not go:
                    endf = {f[2] for f in c.frames if f[0] in (0, 1) and f[1] & 1} | {x[0] for x in rs}
                    cw = granted[0] - sum(t.values())
                    for sid0, size0 in opened.items():
                        if sid0 in endf or sid0 in want_rst:
                            continue
                        rem = size0 - t.get(sid0, 0)
                        sw = granted[sid0] - t.get(sid0, 0)
                        if rem > 0 and min(sw, cw) >= min(rem, 2048) and min(sw, cw) > 0:
                            verdict = ("progress: stream %d stalled with %d octets to go although the client has granted "
                                       "%d on the stream and %d on the connection" % (sid0, rem, sw, cw))
                            break
                ended |= {f[2] for f in c.frames if f[0] in (0, 1) and f[1] & 1} | {x[0] for x in rs}
                seen_rst |= set(got_rst)
                want_go, want_rst, win = None, {}, {}
                if c.closed or go:
                    break
    finally:
        c.close()
    return obs, verdict


# ------------------------------------------------------------------ upload side
UPLOADS = [(1, 1, 0), (40, 1, 255), (30, 100, 200), (20, 16000, 0), (12, 16000, 255), (300, 7, 249),
           (5, 16384, 0), (60, 3000, 100), (200, 1, 0), (25, 8000, 255), (1200, 1, 255)]


def run_upload(port, spec):
    """window-respecting client uploads a body in nframes DATA frames (datalen data bytes + pad);
    returns (stream credit received, connection credit received, deadlock?, echoed length)"""
    nframes, datalen, pad = spec
    c = e2e.H2Conn(port)
    try:
        c.pump(5.0, until=lambda f: any(x[0] == 4 and not (x[1] & 1) for x in f))
        adv = 65535
        for t, fl, sid, pl in c.frames:
            if t == 4 and not fl & 1:
                for k in range(0, len(pl), 6):
                    if int.from_bytes(pl[k:k + 2], "big") == 4:
                        adv = int.from_bytes(pl[k + 2:k + 6], "big")
        conn_win = 65535 + sum(int.from_bytes(f[3], "big") for f in c.frames if f[0] == 8 and f[2] == 0)
        c.send(c.headers_frame(1, [(":method", "POST"), (":scheme", "http"), (":path", "/echo.pl"),
                                    (":authority", "localhost")], end_stream=False))
        strm_win = adv
        seen = len(c.frames)
        scred = ccred = 0
        dead = False

        def absorb():
            nonlocal seen, strm_win, conn_win, scred, ccred
            for t, fl, sid, pl in c.frames[seen:]:
                if t == 8:
                    inc = int.from_bytes(pl, "big") & 0x7fffffff
                    if sid == 0:
                        conn_win += inc; ccred += inc
                    elif sid == 1:
                        strm_win += inc; scred += inc
            seen = len(c.frames)
        for i in range(nframes):
            last = i == nframes - 1
            payload = (bytes([pad]) + b"u" * datalen + b"\0" * pad) if pad else b"u" * datalen
            need = len(payload)
            absorb()
            if strm_win < need or conn_win < need:
                c.pump(4.0, until=lambda f: (absorb() or True) and strm_win >= need and conn_win >= need)
                absorb()
                if strm_win < need or conn_win < need:
                    dead = True
                    break
            c.send(e2e.h2_frame(0, (1 if last else 0) | (8 if pad else 0), 1, payload))
            strm_win -= need; conn_win -= need
        if not dead:
            c.pump(8.0, until=lambda f: any(x[0] == 0 and x[1] & 1 and x[2] == 1 for x in f))
            c.pump(0.2)
        absorb()
        st = e2e.h2_collect(c.frames, c.hp).get(1, {"body": b""})
        m = re.search(rb"len=(\d+)", st["body"])
        return scred - 131072 if scred >= 131072 else scred, ccred, dead, int(m.group(1)) if m else -1
    finally:
        c.close()


def canon_model(steps):
    return [{"streams": {} if s["goaway"] else {sid: v[0] for sid, v in s["streams"].items()},
             "goaway": s["goaway"], "rsts": [] if s["goaway"] else sorted(s["rsts"])} for s in steps]


def run(ctx):
    bd, err = e2e.build_server()
    if bd is None:
        ctx.broken.append({"kind": "server-build", "names": ["lighttpd"], "log": err[-3000:]})
        return
    lines = gen(ctx)
    if not ctx.model_ok:
        return
    mo, rc, merr = C.run_model("h2", lines)
    if rc != 0 or len(mo) != len(lines):
        ctx.broken.append({"kind": "model-run", "names": ["h2"], "log": merr[-2000:]})
        return
    expects = [parse_model(o) for o in mo]
    srv = e2e.Server(bd, CONF, modules=("mod_cgi",))
    for sz in SIZES:
        with open("%s/f%d.bin" % (srv.docroot, sz), "wb") as f:
            f.write(bytes((i * 7 + sz) & 0xff for i in range(min(sz, 4096))) * (sz // 4096 + 1) if sz else b"")
            f.truncate(sz)
    with open(srv.docroot + "/echo.pl", "w") as f:
        f.write("#!/usr/bin/perl\nbinmode(STDIN); my $n = 0; my $b; while (my $r = read(STDIN, $b, 65536)) { $n += $r; }\n"
                "print \"Content-Type: text/plain\\r\\n\\r\\nlen=$n\\n\";\n")
    srv_mods = True
    t0 = time.time()
    ndis = 0
    ups = UPLOADS if ctx.quick else UPLOADS + [(ctx.rng.randint(1, 120), ctx.rng.choice([1, 50, 1000, 16000]),
                                                 ctx.rng.choice([0, 1, 100, 255])) for _ in range(40)]
    cred_lines = []
    for nf, dl, pad in ups:
        ln = dl + (1 + pad if pad else 0)
        cred_lines.append("credit 0 " + " ".join([str(ln)] * nf))            # connection level: every frame
        cred_lines.append("credit 0 " + " ".join([str(ln)] * (nf - 1) + ["0"]))  # stream level: none for END_STREAM
    cm, rc2, merr2 = C.run_model("h2", cred_lines)
    def safe(fn, *a):
        try:
            return fn(*a)
        except OSError:
            return None
    with srv:
        with ThreadPoolExecutor(6) as ex:
            res = list(ex.map(lambda a: safe(run_scenario, srv.port, a[0], a[1]), zip(lines, expects)))
            upres = list(ex.map(lambda sp: safe(run_upload, srv.port, sp), ups))
        alive = srv.alive()
    rep = srv.sanitizer_report()
    if rep or not alive or any(r is None for r in res + upres):
        # the server died: replay the scenarios one by one on fresh servers to find the input
        culprit = None
        first = min([i for i, r in enumerate(res) if r is None] or [len(lines)])
        for i in range(max(0, first - 12), min(len(lines), first + 1)):
            s2 = e2e.Server(bd, CONF, modules=("mod_cgi",))
            for sz in SIZES:
                with open("%s/f%d.bin" % (s2.docroot, sz), "wb") as f:
                    f.truncate(sz)
            with s2:
                safe(run_scenario, s2.port, lines[i], expects[i])
                time.sleep(0.2)
                dead = not s2.alive()
            if dead or s2.sanitizer_report():
                culprit = (lines[i], s2.sanitizer_report() or s2.logs())
                break
        ctx.violation("crash:h2-flow:" + ((culprit[1] or "")[:60] if culprit else "unknown"),
                      "server crashed / sanitizer report during flow-control scenarios",
                      {"property": ctx.pid, "kind": "sanitizer-or-crash", "correspondence": "e2e-h2-flow",
                       "input": culprit[0] if culprit else None,
                       "stderr": ((culprit[1] if culprit else rep) or srv.logs())[-4000:]}, found=culprit is not None)
        return
    for i, (sp, (scred, ccred, dead, echoed)) in enumerate(zip(ups, upres)):
        ctx.evaluations += 1
        ctx.keys["upload:%s:%s" % ("padded" if sp[2] else "plain", "big" if sp[1] > 2000 else "small")] += 1
        want_c, want_s = int(cm[2 * i].split()[0]), int(cm[2 * i + 1].split()[0])
        if dead:
            ctx.violation("oracle:h2-upload:deadlock",
                          "a client respecting the advertised windows cannot finish its upload (no WINDOW_UPDATE arrives)",
                          {"property": ctx.pid, "kind": "property-oracle", "correspondence": "e2e-h2-upload",
                           "input": "upload nframes=%d datalen=%d pad=%d" % sp, "impl_obs": [scred, ccred, echoed],
                           "oracle_verdict": "upload deadlock"}, found=True)
        elif echoed != sp[0] * sp[1]:
            ctx.violation("oracle:h2-upload:body", "uploaded body length differs at the backend",
                          {"property": ctx.pid, "kind": "property-oracle", "correspondence": "e2e-h2-upload",
                           "input": "upload nframes=%d datalen=%d pad=%d" % sp, "impl_obs": [scred, ccred, echoed],
                           "oracle_verdict": "backend saw %d bytes, client sent %d" % (echoed, sp[0] * sp[1])}, found=True)
        elif (scred, ccred) != (want_s, want_c):
            ndis += 1
            ctx.violation("corr:h2-upload", "model/implementation correspondence e2e-h2-upload broken",
                          {"property": ctx.pid, "kind": "correspondence", "correspondence": "e2e-h2-upload",
                           "input": "upload nframes=%d datalen=%d pad=%d" % sp, "impl_obs": [scred, ccred],
                           "model_obs": [want_s, want_c], "oracle_verdict": "upload completed"}, found=False)
    ctx.sample({"stream": "e2e-h2-upload", "input": "upload nframes=%d datalen=%d pad=%d" % ups[1], "impl": list(upres[1])})
    for line, exp, (obs, verdict) in zip(lines, expects, res):
        ctx.evaluations += 1
        cm = canon_model(exp)
        key = "fc:%s:%s" % ("stall" if any(v[1] for s in exp for v in s["streams"].values()) else "complete",
                            "err" if any(s["goaway"] or s["rsts"] for s in exp) else "ok")
        ctx.keys[key + ":n%d" % min(len(cm), 4)] += 1
        if verdict:
            ctx.violation("oracle:h2-flow:" + ("overdraft" if "granted" in verdict and not verdict.startswith(("mandated", "progress"))
                                               else verdict.split(":")[0]), verdict,
                          {"property": ctx.pid, "kind": "property-oracle", "correspondence": "e2e-h2-flow",
                           "input": line, "impl_obs": obs, "model_obs": cm, "oracle_verdict": verdict}, found=True)
        if obs != cm[:len(obs)] or (len(obs) < len(cm) and not any(o["goaway"] for o in obs)):
            ndis += 1
            if not verdict:
                ctx.violation("corr:h2-flow", "model/implementation correspondence e2e-h2-flow broken",
                              {"property": ctx.pid, "kind": "correspondence", "correspondence": "e2e-h2-flow",
                               "input": line, "impl_obs": obs, "model_obs": cm,
                               "oracle_verdict": "no overdraft observed on this input"}, found=False)
    for i in range(0, len(lines), max(1, len(lines) // 4)):
        ctx.sample({"stream": "e2e-h2-flow", "input": lines[i], "impl": res[i][0]})
    ctx.streams.append({"name": "e2e-h2-flow", "cases": len(lines), "disagreements": ndis,
                        "wall_s": round(time.time() - t0, 2)})
    ctx.rule = ("credit histories (SETTINGS_INITIAL_WINDOW_SIZE changes, stream/connection WINDOW_UPDATEs incl. 0 and "
                "2^31-1, 1-5 concurrent streams, bodies 0..1 MiB) run against the real server; per quiescence "
                "point the per-stream DATA totals, RST and GOAWAY codes are compared with the Lean model; "
                "distinct = (stall/complete, error/ok, steps) classes")
    ctx.assumptions += ["test client reads promptly (server write queue drains between passes)"]


def replay_line(ctx, rep):
    bd, err = e2e.build_server()
    line = rep["input"]
    mo, rc, merr = C.run_model("h2", [line])
    exp = parse_model(mo[0])
    srv = e2e.Server(bd, CONF, modules=("mod_cgi",))
    for sz in SIZES:
        with open("%s/f%d.bin" % (srv.docroot, sz), "wb") as f:
            f.truncate(sz)
    with srv:
        obs, verdict = run_scenario(srv.port, line, exp)
    print("input:", line)
    print("impl :", obs)
    print("model:", canon_model(exp))
    print("oracle:", verdict)
    if verdict or obs != canon_model(exp)[:len(obs)]:
        print("VIOLATION property=%s replay=(replayed)" % ctx.pid)
        return 1
    return 0
