"""C07 — HPACK: header lists survive both directions for the whole connection.

Streams (all seeded by VERIF_SEED):
  prims      integer / string-literal / Huffman primitives of lshpack.c against the Lean model
             (exhaustive small scope + random), with nghttp2 as independent Huffman peer
  conn-valid long decoder histories of one connection: header blocks produced by three
             independent encoders (the Lean reference encoder under random policies, nghttp2's
             deflater, lshpack's own encoder as used by h2_send_headers) are decoded by
             lshpack_dec_decode the way h2_parse_headers_frame / h2_discard_headers_frame do
             (served and discarded blocks mixed; lshpack_dec_set_max_capacity at library level only)
             -- must give exactly the encoded lists and the same table as the model, nghttp2's inflater
             must agree; a decoding error in a discarded block must end the connection too
  conn-corrupt all single-bit and many single-byte corruptions of short valid blocks: error or the
             same list as the model and (when both accept) as nghttp2 -- never silently different
  resp       the real h2_send_headers / h2_send_1xx / h2_send_end_stream_trailers / h2_send_hpack on an
             in-process connection: frames checked, block decoded by nghttp2, list compared with the
             Lean glue model and an independent Python statement of the response's fields; responses
             steered into the last octets before the 65535 limit with values HPACK cannot shrink
  req        the real h2_parse_frames / h2_recv_continuation / h2_recv_headers: HEADERS(+CONTINUATION,
             PADDED, PRIORITY) sequences incl. refused streams, trailers, streams after GOAWAY, requests
             the header parser refuses half way, trailers after an unfinished body, legal fields larger
             than the 64 KiB decoding buffer in served AND discarded blocks; outcome + final HPACK decoder
             table against the Lean model, outcome + request view against an independent Python
             statement (PyGlue)
"""
import random, re
from .. import common as C

MANIFEST = dict(
    text="Lean 4 theorems over an executable model of HPACK as implemented by ls-hpack and used by h2.c. PROVED "
         "(model level): integer / string / Huffman coding round trips, and every Huffman string the 4-bit "
         "automaton accepts is canonical (extracted tables, kernel-checked certificates); one block and whole "
         "connections of served + discarded blocks decode to exactly the encoded lists with equal tables "
         "(fields that fit the buffer), and WITHOUT any size assumption: error or exactly the list, never "
         "another one (c07_block_error_or_exact, c07_never_silently_different); which HEADERS sequences "
         "h2_recv_headers decodes: dead connection, frame left unread, or decoded to the end — tables equal "
         "along any sequence while no error GOAWAY was sent (c07_headers_decoded_or_dead, "
         "c07_glue_tables_sync); table size bound and hint soundness for ARBITRARY input (c07_table_bound, "
         "c07_hint_sound, c07_hint_selects_id); four classes of invalid items after any valid prefix are "
         "BAD_DATA with exactly the prefix delivered (c07_error_after_valid_prefix; the general 'invalid => "
         "error' is false of lshpack and stays _partial); response direction: list handed to the encoder for "
         "responses built through the response-header API without repeated fields (c07_response_fields), it "
         "always fits the 128 KiB encoding buffer (c07_response_fits_buffer), lower-cased names, repeated-field "
         "split for one name, interim / trailer / raw blocks cut back to the written fields, table size "
         "updates after SETTINGS bring a conformant decoder to the encoder's table and never exceed the "
         "peer's last value, id maps consistent. TESTED ONLY (differential correspondence of the models with "
         "the real lshpack.c / h2.c in-process under ASan/UBSan, nghttp2 as second independent HPACK peer, "
         "independent Python oracles): CONTINUATION splitting, padding, what http_request_parse_header makes "
         "of the list (handlers' view, 400/431), lshpack's OWN encoder output (decodes at nghttp2 and in the "
         "model to the list), responses mixing repeated fields with other operations, all single-bit/byte "
         "corruptions of valid blocks (error, or same list in lshpack, model and nghttp2)",
    note="trusted: Lean kernel (+propext, Quot.sound, Classical.choice), hand-written models validated by the "
         "h_hpack correspondence; static table, Huffman encode/decode tables, header-id maps and constants "
         "are regenerated from lshpack.c/huff-tables.h/h2.c/http_header.c on every run (a changed entry breaks "
         "a proof obligation); lshpack's encoder is NOT modelled: theorems about the response direction stop "
         "at the list handed to it (plus a size bound for any lshpack-like per-field choice), that its output "
         "decodes to that list is correspondence (nghttp2 + model); frames / CONTINUATION are not modelled "
         "(harness builds them, C05 proves the merge); the content rules of http_request_parse_header are not "
         "modelled (the glue model only needs: a refused request is still decoded to the end); the response "
         "API model files every element under hkeyGet(name) (callers passing an id that is not the id of the "
         "name are outside); lshpack_dec_set_max_capacity is exercised at library level only (lighttpd never "
         "calls it; no theorem mentions it); HALF_CLOSED_LOCAL trailers and values containing a bare LF are "
         "not generated; two upstream deviations are modelled as they are (c07_deviation_*)",
    tech="Lean 4 proof over hand-written model + differential correspondence (in-process C harness, "
         "libnghttp2 as second peer)",
    ref="6/C07")

HARNESS_LIBS = ("-lnghttp2", "-lpcre2-8", "-lz", "-lm", "-ldl")
HARNESS_EXTRA = ()

STATIC = [
    (b":authority", b""), (b":method", b"GET"), (b":method", b"POST"), (b":path", b"/"),
    (b":path", b"/index.html"), (b":scheme", b"http"), (b":scheme", b"https"), (b":status", b"200"),
    (b":status", b"204"), (b":status", b"206"), (b":status", b"304"), (b":status", b"400"),
    (b":status", b"404"), (b":status", b"500"), (b"accept-charset", b""),
    (b"accept-encoding", b"gzip, deflate"), (b"accept-language", b""), (b"accept-ranges", b""),
    (b"accept", b""), (b"access-control-allow-origin", b""), (b"age", b""), (b"allow", b""),
    (b"authorization", b""), (b"cache-control", b""), (b"content-disposition", b""),
    (b"content-encoding", b""), (b"content-language", b""), (b"content-length", b""),
    (b"content-location", b""), (b"content-range", b""), (b"content-type", b""), (b"cookie", b""),
    (b"date", b""), (b"etag", b""), (b"expect", b""), (b"expires", b""), (b"from", b""), (b"host", b""),
    (b"if-match", b""), (b"if-modified-since", b""), (b"if-none-match", b""), (b"if-range", b""),
    (b"if-unmodified-since", b""), (b"last-modified", b""), (b"link", b""), (b"location", b""),
    (b"max-forwards", b""), (b"proxy-authenticate", b""), (b"proxy-authorization", b""), (b"range", b""),
    (b"referer", b""), (b"refresh", b""), (b"retry-after", b""), (b"server", b""), (b"set-cookie", b""),
    (b"strict-transport-security", b""), (b"transfer-encoding", b""), (b"user-agent", b""), (b"vary", b""),
    (b"via", b""), (b"www-authenticate", b"")]     # RFC 7541 Appendix A (independent of the C table)

OTHER_NAMES = [b"x-forwarded-for", b"x-request-id", b"dnt", b"te", b"priority", b"upgrade-insecure-requests",
               b"x-a", b"x", b"sec-fetch-mode", b"sec-ch-ua", b"pragma", b"origin", b"x-custom-header-name"]
SPACES = b" \t\n\x0b\x0c\r"


# ---------------------------------------------------------------- python reference pieces
def py_enc_int(pbits, hi, n):
    m = (1 << pbits) - 1
    if n < m:
        return bytes([hi | n])
    out = [hi | m]
    n -= m
    while n >= 128:
        out.append((n & 127) | 128)
        n >>= 7
    out.append(n)
    return bytes(out)


def py_dec_int_rfc(pbits, bs):
    """RFC 7541 5.1 decoding without any size limit: (value, consumed) or None"""
    if not bs:
        return None
    m = (1 << pbits) - 1
    v = bs[0] & m
    if v < m:
        return v, 1
    sh, i = 0, 1
    while True:
        if i >= len(bs):
            return None
        b = bs[i]
        i += 1
        v += (b & 127) << sh
        sh += 7
        if not b & 128:
            return v, i


class PyTable:
    """independent dynamic-table bookkeeping (RFC 7541 4.x)"""

    def __init__(self, cap=4096):
        self.cap = cap
        self.dyn = []          # newest first

    def size(self):
        return sum(32 + len(n) + len(v) for n, v in self.dyn)

    def _evict(self):
        while self.size() > self.cap:
            self.dyn.pop()

    def resize(self, n):
        self.cap = n
        self._evict()

    def add(self, n, v):
        self.dyn.insert(0, (n, v))
        self._evict()

    def get(self, i):
        if 1 <= i <= 61:
            return STATIC[i - 1]
        if 62 <= i < 62 + len(self.dyn):
            return self.dyn[i - 62]
        return None

    def find(self, n, v):
        """(full-match index or 0, name-match index or 0)"""
        full = name = 0
        for i in range(1, 62 + len(self.dyn)):
            e = self.get(i)
            if e[0] == n:
                if not name:
                    name = i
                if e[1] == v and not full:
                    full = i
        return full, name


# ---------------------------------------------------------------- generators
def rand_token(rng, lo=1, hi=12):
    return bytes(rng.choice(b"abcdefghijklmnopqrstuvwxyz0123456789-") for _ in range(rng.randint(lo, hi)))


def rand_value(rng):
    k = rng.random()
    if k < 0.08:
        return b""
    if k < 0.55:
        return bytes(rng.choice(b"abcdefghijklmnopqrstuvwxyz0123456789 /.,;=-_%\"") for _ in range(rng.randint(1, 24)))
    if k < 0.75:
        return rng.choice([b"gzip, deflate", b"text/html; charset=utf-8", b"*/*", b"0", b"1234", b"no-cache",
                           b"Mon, 21 Oct 2013 20:13:21 GMT", b"https://www.example.com", b"max-age=3600",
                           b"keep-alive", b"trailers", b"/index.html", b"GET", b"200", b"302"])
    if k < 0.86:
        return bytes(rng.randrange(256) for _ in range(rng.randint(1, 40)))       # binary
    if k < 0.95:
        return bytes(rng.choice(b"ABCDEFxyz0123456789+/=") for _ in range(rng.randint(100, 400)))
    return bytes(rng.choice(b"abcdefghij \x00\xff{}|~") for _ in range(rng.randint(800, 5000)))


def rand_name(rng):
    k = rng.random()
    if k < 0.45:
        return rng.choice(STATIC)[0]
    if k < 0.70:
        return rng.choice(OTHER_NAMES)
    if k < 0.93:
        return rand_token(rng)
    if k < 0.97:
        return rand_token(rng, 20, 300)
    # HPACK itself is byte-transparent: arbitrary octets (also trailing white space), not empty
    n = bytes(rng.choice([rng.randrange(256), 0x20, 0x09]) for _ in range(rng.randint(1, 12)))
    return n


def rand_pool(rng, n):
    pool = []
    for _ in range(n):
        if rng.random() < 0.25:
            pool.append(rng.choice(STATIC))
        else:
            pool.append((rand_name(rng), rand_value(rng)))
    return pool


def rand_block(rng, pool, maxf=12):
    nf = rng.choice([0, 1, 1, 2, 3, 4, 5, 6, 8, maxf])
    out = []
    for _ in range(nf):
        if rng.random() < 0.8:
            out.append(rng.choice(pool))
        else:
            out.append((rand_name(rng), rand_value(rng)))
    return out


def lean_policy_block(rng, tbl, hdrs, first_resizes, midblock=False):
    """fields for the Lean reference encoder `enc` op + python-side table tracking;
    returns the token text"""
    toks = []
    for k, (n, v) in enumerate(hdrs):
        resizes = first_resizes if k == 0 else []
        if k and midblock and rng.random() < 0.1:     # lshpack accepts updates between fields too
            resizes = [rng.choice([0, 64, 200, 4096, rng.randint(0, 4096)])]
        for r in resizes:
            tbl.resize(min(r, 4096))
        full, name = tbl.find(n, v)
        mode = rng.choice("xxxiiiwn")
        r = rng.random()
        if r < 0.75:
            idx = full if (mode == "x" and full) else name
        elif r < 0.85:
            idx = 0
        elif r < 0.95:
            idx = rng.randint(1, 61 + len(tbl.dyn) + 2)       # possibly wrong: encoder must fall back
        else:
            idx = full or name
        e = tbl.get(idx)
        indexed = mode == "x" and e == (n, v)
        if mode == "i" and not indexed:
            tbl.add(n, v)
        toks.append("%s:%s:%s:%d:%d:%d:%s" % (C.hx(n), C.hx(v), mode, idx, rng.random() < 0.5, rng.random() < 0.5,
                                             "+".join(str(x) for x in resizes) if resizes else "-"))
    return ",".join(toks) if toks else "-"


def plain_block(rng, hdrs, never_p=0.05):
    if not hdrs:
        return "-"
    return ",".join("%s:%s:%d" % (C.hx(n), C.hx(v), (1 if rng.random() < never_p else 0) | (2 if rng.random() < 0.05 else 0))
                    for n, v in hdrs)


def fields_text(hdrs):
    return ",".join("%s:%s" % (C.hx(n), C.hx(v)) for n, v in hdrs) if hdrs else "-"


# ---------------------------------------------------------------- oracle + classification
MUST_FAIL = set()   # lines whose last served block is truncated inside a field: must be an error
EXPECT = {}      # line -> list of expected field-lists for the served blocks (in order)
FINALTBL = {}    # line -> expected final dynamic table (python bookkeeping), when known


def strip_fields(tok):
    """'ok:n:v:h:f,n:v:h:f' -> 'n:v,n:v'"""
    body = tok.split(":", 1)[1]
    if body == "-":
        return "-"
    return ",".join(":".join(f.split(":")[:2]) for f in body.split(","))


def oracle(line, out):
    t = line.split(" ")
    op = t[0]
    if op == "encint":
        r = py_dec_int_rfc(int(t[1]), C.unhx(out))
        if r is None or r[0] != int(t[2]) or r[1] != len(C.unhx(out)):
            return "lshpack_enc_enc_int: output does not decode (RFC 7541 5.1) to the encoded value"
    elif op == "int":
        o = out.split(" ")
        if o[0] == "ok":
            r = py_dec_int_rfc(int(t[1]), C.unhx(t[2]))
            if r is None or r[0] != int(o[1]) or r[1] != int(o[2]):
                return "lshpack_dec_dec_int: accepted value differs from RFC 7541 5.1 decoding"
    elif op in ("huffenc", "huffdec", "huffrt"):
        if "ng=0" in out:
            return "Huffman: lshpack and nghttp2 disagree (%s)" % op
        if op == "huffrt" and not out.endswith("rt=1"):
            return "Huffman: decode(encode(s)) != s"
    elif op == "resp":
        return oracle_resp(line, out)
    elif op == "req":
        return oracle_req(line, out, views=False)     # (views: oracle_req on the unstripped output in run())
    elif op in ("conn", "connv", "connx"):
        o = out.split(" ")
        if o[-1].startswith("x=") and o[-1] != "x=ok":
            return "HPACK decode: lshpack and nghttp2 decode the same block differently (%s)" % o[-1]
        if line in MUST_FAIL and not any(x.startswith("e-") or x.startswith("d!") for x in o):
            return "HPACK decode: a block that cannot be decoded to its end (field cut short / larger than the " \
                   "decoding buffer) did not end the connection"
        exp = EXPECT.get(line)
        if exp is not None:
            ops = t[2:]
            k = 0
            for i, opk in enumerate(ops):
                if i >= len(o):
                    return "HPACK decode: missing output"
                if opk[0] == "B":
                    if not o[i].startswith("ok:"):
                        return "HPACK decode: valid block rejected (%s)" % o[i].split(":")[0]
                    if strip_fields(o[i]) != exp[k]:
                        return "HPACK decode: decoded header list differs from the encoded one"
                    k += 1
            ft = FINALTBL.get(line)
            if ft is not None:
                tb = o[-2] if o[-1].startswith("x=") else o[-1]
                got = tb.split(":", 1)[1]
                got = "-" if got == "-" else ",".join(":".join(f.split(":")[:2]) for f in got.split(","))
                if got != ft:
                    return "HPACK decode: dynamic table differs from the encoder's table"
    return None


# ---- response direction: independent statement of what the peer must decode
RESP_NAMES = [b"Content-Type", b"Content-Length", b"ETag", b"Last-Modified", b"Cache-Control", b"Set-Cookie",
              b"Location", b"Vary", b"Link", b"Content-Encoding", b"Accept-Ranges", b"Content-Range", b"Date",
              b"Server", b"X-Frame-Options", b"Strict-Transport-Security", b"WWW-Authenticate", b"Allow",
              b"Expires", b"Age", b"Alt-Svc", b"Content-Location", b"Content-Security-Policy", b"Pragma",
              b"Referrer-Policy", b"Retry-After", b"X-Content-Type-Options", b"X-XSS-Protection", b"Upgrade",
              b"Access-Control-Allow-Origin", b"Onion-Location", b"P3P", b"Priority", b"Expect-CT", b"Status",
              b"X-Powered-By", b"X-Request-Id", b"X-Sendfile", b"X-LIGHTTPD-KBytes-per-second", b"X-Lighttpd-Foo",
              b"Xa", b"x", b"Custom-Header", b"Via", b"Refresh", b"Content-Disposition", b"Content-Language"]


def resp_expected(status, es, ops, srvtag):
    """fields a conformant peer must see for one response (None = stream reset: too large)"""
    order, ent, tag = [], {}, {}
    for op, k, v in ops:
        lk = k.lower()
        if op == "s":
            if lk not in ent:
                order.append(lk)
                ent[lk] = [k, []]
            ent[lk][1] = [v]
            tag[lk] = bool(v)
            continue
        if not v:
            continue
        if lk not in ent:
            order.append(lk)
            ent[lk] = [k, []]
        vals = ent[lk][1]
        blank = not b"".join(vals) and len(vals) <= 1
        if blank:
            ent[lk][1] = [v]
        elif op == "a":
            vals[-1] = vals[-1] + b", " + v
        else:
            vals.append(v)
        tag[lk] = True
    fields = [(b":status", b"%03d" % status)]
    alen = 14
    for lk in order:
        k, vals = ent[lk]
        if status == 304 and lk == b"content-encoding" and tag.get(lk):
            continue
        vlen = sum(len(v) for v in vals) + (len(vals) - 1) * (len(k) + 4)
        if not k or not vlen:
            continue
        alen += len(k) + vlen + 4          # (internal headers count too: the size is checked up front)
        if lk == b"x-sendfile" or lk.startswith(b"x-lighttpd-"):
            continue
        fields += [(lk, v) for v in vals]
    if alen + 37 + (17 if srvtag else 0) > 65535:      # date and server are part of the size check
        return None
    if not tag.get(b"date"):
        fields.append((b"date", b"AUTO"))
    if srvtag and not tag.get(b"server"):
        fields.append((b"server", b"ltv/1.0"))
    return "ok:%d:%s" % (es, ",".join("%s:%s" % (C.hx(n), C.hx(v)) for n, v in fields))


def interim_expected(status, ops):
    """h2_send_1xx: status + every non-blank header, one field per value, leading blanks of a value dropped"""
    order, ent = [], {}
    for op, k, v in ops:
        lk = k.lower()
        if op == "s":
            if lk not in ent:
                order.append(lk)
                ent[lk] = [k, []]
            ent[lk][1] = [v]
            continue
        if not v:
            continue
        if lk not in ent:
            order.append(lk)
            ent[lk] = [k, []]
        vals = ent[lk][1]
        if not b"".join(vals) and len(vals) <= 1:
            ent[lk][1] = [v]
        elif op == "a":
            vals[-1] = vals[-1] + b", " + v
        else:
            vals.append(v)
    fields = [(b":status", b"%d" % status)]
    for lk in order:
        k, vals = ent[lk]
        if not k or not b"".join(vals):
            continue
        for v in vals:
            v = v.lstrip(b" \t")
            if v:
                fields.append((lk, v))
    return "ok:0:" + ",".join("%s:%s" % (C.hx(n), C.hx(v)) for n, v in fields)


def trailers_expected(ops):
    if not ops or any(k.startswith(b":") for _, k, _ in ops):
        return "data"
    fields = [(k.lower(), v.lstrip(b" \t")) for _, k, v in ops if v.lstrip(b" \t")]
    return "ok:1:" + (",".join("%s:%s" % (C.hx(n), C.hx(v)) for n, v in fields) if fields else "-")


def parse_hdr_ops(txt):
    if txt == "-":
        return []
    out = []
    for t in txt.split(","):
        k, v = t[1:].split(":")
        out.append((t[0], C.unhx(k), C.unhx(v)))
    return out


def with_updates(exp, upd):
    """'ok:<es>:<fields>' -> 'ok:<es>:<updates>:<fields>'"""
    if not exp.startswith("ok:"):
        return exp
    p = exp.split(":", 2)
    return "ok:%s:%s:%s" % (p[1], "+".join(str(u) for u in upd) if upd else "-", p[2])


def oracle_resp(line, out):
    t = line.split(" ")
    o = out.split(" ")
    srvtag = t[1] == "1"
    size, pend = 4096, []         # table size lighttpd uses / sizes since the last header block sent
    for i, it in enumerate(t[2:]):
        if i >= len(o):
            return "h2_send_headers: missing output"
        if it[0] in "RIT":
            st, es, ops = it[1:].split("/")
            if it[0] == "I":
                exp = interim_expected(int(st), parse_hdr_ops(ops))
            elif it[0] == "T":
                exp = trailers_expected(parse_hdr_ops(ops))
            else:
                exp = resp_expected(int(st), int(es), parse_hdr_ops(ops), srvtag) or "rst"
            if exp.startswith("ok:"):
                # RFC 7541 4.2: the smallest size since the prior block, then the final one
                upd = ([min(pend)] if min(pend) == size else [min(pend), size]) if pend else []
                exp = with_updates(exp, upd)
                if o[i].startswith("ok:"):
                    pend = []
            if o[i] != exp:
                if o[i].startswith("BADFRAMES"):
                    return "h2_send_hpack: response header block badly framed (%s)" % o[i]
                if o[i] == "NGFAIL":
                    return "h2_send_headers: nghttp2 cannot decode the response header block"
                if o[i].startswith("ok:") and exp.startswith("ok:") and o[i].split(":")[2] != exp.split(":")[2]:
                    return "h2: dynamic table size update after SETTINGS_HEADER_TABLE_SIZE change missing or wrong"
                return "h2_send_headers: the peer decodes a different status/field list than the response has"
        elif it[0] == "C":
            v = min(int(it[1:]), 4096)
            if v != size:
                size = v
                pend.append(v)
        elif it[0] == "F" and not (16384 <= int(it[1:]) <= 16777215):
            return None if o[i:i + 2] == ["f", "goaway"] else "SETTINGS_MAX_FRAME_SIZE out of range not refused"
    return None


def classify(line, out):
    t = line.split(" ")
    op = t[0]
    o = out.split(" ")
    if op == "req":
        kinds = sorted(set(x.split(":")[0].rstrip("!~0123456789") + ("!" if "!" in x else "") for x in o
                           if x[:1] in "ntd" and not x.startswith("nd=") and not x.startswith("nr=")))
        cont = "+" in line
        return "req:%s:cont%d:pad%d" % ("+".join(kinds), cont, any(("/%d/" % p) in line for p in (1, 7, 200)))
    if op == "resp":
        kinds = sorted(set(x.split(":")[0] for x in o))
        nrep = sum(1 for it in t[2:] if it.count(",i") + it.count("/i") > 1)
        big = any(len(it) > 33000 for it in t[2:])
        return "resp:%s:n%d:rep%d:big%d:c%d" % ("+".join(kinds), min(len(o), 4), min(nrep, 2), big,
                                               any(it[0] == "C" for it in t[2:]))
    if op == "int":
        return "int:%s:%s:%d" % (t[1], o[0], min(len(t[2]) // 2, 7))
    if op == "encint":
        return "encint:%s:%d" % (t[1], len(out) // 2)
    if op in ("huffdec", "str"):
        return "%s:%s:%s" % (op, o[0], o[1] if o[0] == "err" else min(len(o[1]) // 2, 4))
    if op in ("huffenc", "huffrt", "encstr"):
        return "%s:%d" % (op, min(len(o[0]) // 8, 8))
    if op in ("conn", "connv", "connx"):
        kinds = set()
        for tok in o:
            if tok[:1] == "e":
                kinds.add(tok.split(":")[0])
        nb = sum(1 for x in t[2:] if x[0] == "B")
        nd = sum(1 for x in t[2:] if x[0] == "D")
        tb = [x for x in o if x.startswith("T")]
        nent = 0
        if tb and not tb[-1].endswith(":-"):
            nent = tb[-1].count(",") + 1
        return "%s:%s:b%d:d%d:t%d" % (op, "+".join(sorted(kinds)) or "ok", min(nb, 3), min(nd, 2), min(nent // 4, 6))
    return op


# ---------------------------------------------------------------- streams
def gen_prims(ctx):
    rng = ctx.rng
    L = []
    quick = ctx.quick
    # integers: exhaustive 1- and 2-octet inputs for the prefixes lshpack uses, structured longer ones
    for p in (4, 5, 6, 7):
        for b0 in range(256):
            L.append("int %d %02x" % (p, b0))
        full = (1 << p) - 1
        for b0 in (full, 0xff, full | 0x80 if p < 8 else full):
            for b1 in range(256):
                L.append("int %d %02x%02x" % (p, b0 & 0xff, b1))
    for p in range(1, 9):
        full = (1 << p) - 1
        for _ in range(2000 if quick else 12000):
            k = rng.randint(1, 7)
            body = [rng.choice([0x80, 0xff, 0x81, 0x8f, 0xfe, rng.randrange(128, 256)]) for _ in range(k - 1)]
            body.append(rng.choice([0, 1, 7, 8, 15, 16, 0x7f, rng.randrange(128)]))
            tail = bytes(rng.randrange(256) for _ in range(rng.randint(0, 2)))
            L.append("int %d %s" % (p, C.hx(bytes([full | rng.choice([0, 0x80 if p < 8 else 0])]) + bytes(body) + tail)))
        vals = [0, 1, full - 1, full, full + 1, full + 127, full + 128, full + 16383, full + 16384, 2 ** 21 + full,
                2 ** 28 + full - 1, 2 ** 28 + full, 2 ** 31 - 1, 2 ** 31, 2 ** 32 - 1, 65535, 4096]
        vals += [rng.randrange(2 ** rng.randint(1, 32)) for _ in range(1500 if quick else 10000)]
        for v in vals:
            if 0 <= v < 2 ** 32:
                L.append("encint %d %d" % (p, v))
                # and back through the decoder
                L.append("int %d %s" % (p, C.hx(py_enc_int(p, 0, v) + bytes([rng.randrange(256)]))))
    # Huffman: every octet, every pair (thorough) / sampled pairs, random strings
    for b in range(256):
        L.append("huffrt %02x" % b)
        L.append("huffenc %02x" % b)
    pairs = range(65536)
    for x in pairs:
        L.append("huffrt %04x" % x)
    for _ in range(15000 if quick else 100000):
        k = rng.random()
        if k < 0.5:
            s = bytes(rng.choice(b"abcdefghijklmnopqrstuvwxyz0123456789-./: =;,%") for _ in range(rng.randint(0, 40)))
        elif k < 0.9:
            s = bytes(rng.randrange(256) for _ in range(rng.randint(0, 24)))
        else:
            s = bytes(rng.randrange(256) for _ in range(rng.randint(100, 600)))
        L.append("huffrt " + C.hx(s))
        L.append("encstr " + C.hx(s))
    # Huffman decoder: exhaustive over all 1- and 2-octet inputs, sampled 3..6, small output buffers
    for b in range(256):
        L.append("huffdec 100 %02x" % b)
    for x in range(65536):
        L.append("huffdec 100 %04x" % x)
    for _ in range(200000 if quick else 1500000):
        n = rng.randint(3, 6)
        L.append("huffdec %d %s" % (rng.choice([100, 100, 100, 0, 1, 2, 3, 4]),
                                     C.hx(bytes(rng.choice([rng.randrange(256), 0xff, 0xff, 0xfe]) for _ in range(n)))))
    # string literals: valid ones with every truncation, random ones
    for _ in range(8000 if quick else 60000):
        s = bytes(rng.randrange(256) for _ in range(rng.choice([0, 1, 2, 5, 20, 126, 127, 128, 300])))
        raw = py_enc_int(7, 0, len(s)) + s
        cap = rng.choice([65535, 65535, len(s), max(0, len(s) - 1), len(s) + 1, 0])
        L.append("str %d %s" % (cap, C.hx(raw + b"\x00\x01")))
        if len(raw) > 1:
            L.append("str %d %s" % (cap, C.hx(raw[:rng.randrange(1, len(raw))])))
        L.append("str %d %s" % (rng.choice([65535, 3, 0]), C.hx(bytes(rng.randrange(256) for _ in range(rng.randint(1, 8))))))
    return L


class ProducerCrash(Exception):
    """the real encoder (lshpack_enc / nghttp2 through the harness) died while producing the histories"""
    def __init__(self, line, rc, err, confirmed):
        Exception.__init__(self, "producer crashed on: " + line[:200])
        self.line, self.rc, self.err, self.confirmed = line, rc, err, confirmed


def run_tool(exe_cmd, lines):
    out, rc, err = C.parallel_lines(exe_cmd, lines)
    if (rc != 0 or len(out) != len(lines)) and not re.search(r"Sanitizer|runtime error:|Assertion|assert", err or ""):
        out, rc, err = C.parallel_lines(exe_cmd, lines)        # killed without a report (load?): once more
    if rc != 0 or len(out) != len(lines):
        # a sanitizer report / abort inside the real encoder is a result, not an infrastructure failure:
        # find the line, confirm it alone, and hand it to run() as the failing input
        bad = None
        for i, o in enumerate(out):
            if o == "<crash>":
                bad = i
                break
        if bad is None:
            bad = min(len(out), len(lines) - 1)
        o1, rc1, err1 = C.run_lines(exe_cmd, [lines[bad]])
        if rc1 == 0:
            # not reproducible on its own (state carried by earlier lines of the chunk): try growing prefixes
            lo = max(0, bad - 400)
            o1, rc1, err1 = C.run_lines(exe_cmd, lines[lo:bad + 1])
        raise ProducerCrash(lines[bad], rc1 if rc1 else rc, (err1 or err)[-4000:], rc1 != 0)
    return out


def gen_histories(ctx, exe):
    """valid connection histories from three encoders -> conn lines + expectations"""
    rng = ctx.rng
    quick = ctx.quick
    n_conn = 450 if quick else 3000
    n_short = 240 if quick else 1500      # short histories of short blocks: corrupted exhaustively below
    n_long = 4 if quick else 16
    lean_in, ls_in, ng_in = [], [], []
    meta = {"lean": [], "ls": [], "ng": []}
    for ci in range(n_conn + n_short + n_long):
        long = ci >= n_conn + n_short
        short = n_conn <= ci < n_conn + n_short
        nblocks = rng.randint(300, 1000) if long else rng.choice([1, 1, 2]) if short else rng.choice([1, 2, 3, 5, 8, 20, 40])
        pool = rand_pool(rng, rng.choice([3, 8, 30, 120]))
        if short:
            pool = [(n[:12] or b"x", v[:10]) for n, v in pool]
        which = ("lean", "ls", "ng")[ci % 3]
        midblock = which == "lean" and rng.random() < 0.12
        ops, exps, disp = [], [], []
        tbl = PyTable(4096)
        for bi in range(nblocks):
            hdrs = rand_block(rng, pool, 4)[:4] if short else rand_block(rng, pool)
            if which == "lean":
                first = []
                if rng.random() < 0.08:
                    first = [rng.choice([0, 0, 100, 1000, 4096, rng.randint(0, 4096)])]
                    if rng.random() < 0.3:
                        first.append(rng.choice([4096, 4096, rng.randint(0, 4096)]))
                if not hdrs:
                    first = []
                ops.append(lean_policy_block(rng, tbl, hdrs, first, midblock))
            else:
                # (a block holding only a size update is valid HPACK but lshpack_dec_decode answers
                #  BAD_DATA -- documented deviation; keep at least one field after a size change)
                if hdrs and rng.random() < 0.04:
                    c = rng.choice([0, 100, 1000, 4096, rng.randint(0, 4096)])
                    ops.append("C%d" % c)
                    exps.append(None)
                    disp.append("C%d" % c)
                ops.append(plain_block(rng, hdrs))
            exps.append(fields_text(hdrs))
            disp.append("D" if rng.random() < 0.2 else "B")
        line = " ".join(ops)
        if which == "lean":
            lean_in.append("enc 4096 4096 " + line)
            ft = ",".join("%s:%s" % (C.hx(n), C.hx(v)) for n, v in tbl.dyn) if tbl.dyn else "-"
            meta["lean"].append((exps, disp, (ft, midblock)))
        elif which == "ls":
            ls_in.append("lsenc " + line)
            meta["ls"].append((exps, disp, None))
        else:
            ng_in.append("ngenc " + line)
            meta["ng"].append((exps, disp, None))
    lean_out, mrc, merr = C.parallel_lines([C.ltmodel_path(), "hpack"], lean_in)
    if mrc != 0 or len(lean_out) != len(lean_in):
        raise RuntimeError("reference encoder run failed: " + merr[-1000:])
    ls_out = run_tool([exe], ls_in)
    ng_out = run_tool([exe], ng_in)
    lines = []
    for which, outs in (("lean", lean_out), ("ls", ls_out), ("ng", ng_out)):
        for (exps, disp, ft), out in zip(meta[which], outs):
            toks = out.split()
            if which == "ls":
                verdict = toks[-1]
                toks = toks[:-1]
                if verdict != "ng=ok":
                    ctx.violation("oracle:lsenc:nghttp2:%s" % verdict.split("@")[0],
                                  "nghttp2's inflater does not decode lshpack's encoder output to the encoded list",
                                  {"property": ctx.pid, "kind": "property-oracle", "correspondence": "lsenc",
                                   "input": ls_in[meta["ls"].index((exps, disp, ft))], "impl_obs": out,
                                   "oracle_verdict": verdict}, found=True)
            if len(toks) != len(disp) or any(x in ("FAIL", "bad-op") for x in toks):
                raise RuntimeError("producer %s: unexpected output %r" % (which, out[:200]))
            cops, cexp = [], []
            for d, e, blk in zip(disp, exps, toks):
                if d[0] == "C":
                    if which == "ls":
                        cops.append("S" + d[1:])       # the peer (decoder) lowered its table size
                    continue                            # ng: the deflater announces it in-band
                cops.append(d + blk)
                if d == "B":
                    cexp.append(e)
            # size updates between fields are not RFC-conformant (nghttp2 rejects them): model only
            line = ("conn" if (ft and ft[1]) else "connv") + " 65535 " + " ".join(cops)
            EXPECT[line] = cexp
            if ft is not None:
                FINALTBL[line] = ft[0]
            lines.append(line)
    return lines


def corrupt_lines(ctx, valid_lines):
    """all single-bit corruptions + some byte replacements / deletions / insertions of the last
    block of short histories"""
    rng = ctx.rng
    L = []
    budget = 160000 if ctx.quick else 1500000
    short = [l for l in valid_lines if len(l) < 700 and l.count(" ") <= 6]
    rng.shuffle(short)
    for l in short:
        t = l.split(" ")
        blocks = [i for i, x in enumerate(t) if i >= 2 and x[0] in "BD" and len(x) > 1 and x[1:] != "-"]
        if not blocks:
            continue
        bi = rng.choice(blocks[-2:])
        raw = C.unhx(t[bi][1:])
        if len(raw) > 48:
            continue
        variants = []
        for pos in range(len(raw)):
            for bit in range(8):
                v = bytearray(raw)
                v[pos] ^= 1 << bit
                variants.append(bytes(v))
            for _ in range(2):
                v = bytearray(raw)
                v[pos] = rng.randrange(256)
                variants.append(bytes(v))
            variants.append(raw[:pos] + raw[pos + 1:])
            variants.append(raw[:pos] + bytes([rng.randrange(256)]) + raw[pos:])
            variants.append(raw[:pos])                     # truncation
        for v in variants:
            tt = list(t)
            tt[0] = "connx"
            tt[bi] = "B" + C.hx(v)
            L.append(" ".join(tt))
        if len(L) > budget:
            break
    # regression corpus: repaired defects (field name trailing-space strip, missing value string accepted)
    for line, exp in (("connv 65535 B400261200162", ["6120:62"]), ("connv 65535 B400261200162 Bbe", ["6120:62", "6120:62"]),
                      ("connv 65535 B00036120200162", ["612020:62"])):
        EXPECT[line] = exp
        L.append(line)
    for line in ("connx 65535 B000161", "connx 65535 B45", "connx 65535 B400161", "connx 65535 B8210a461",
                 "connx 65535 B400161016200016310"):
        MUST_FAIL.add(line)
        L.append(line)
    # regression: a legal field larger than the 64 KiB decoding buffer inside a DISCARDED block must end the
    # connection (it used to be skipped silently, the rest of the block with it)
    big = oversize_field(rng, False)
    for line in ("connx 65535 B4003782d650130 D%s4003782d610131 Bbe" % C.hx(big),
                 "connx 65535 D%s Bbe" % C.hx(b"\x40\x03x-e\x010" + oversize_field(rng, True))):
        MUST_FAIL.add(line)
        L.append(line)
    # the documented deviations of lshpack_dec_decode (theorems c07_deviation_*), replayed against the C
    L += ["connx 65535 B3fe11f", "connx 65535 B8220", "connx 65535 B7f80808000", "connx 65535 B400161016220be"]
    # purely random short blocks on a fresh connection and after one valid block
    for _ in range(20000 if ctx.quick else 200000):
        v = bytes(rng.choice([rng.randrange(256), 0x40, 0x00, 0x10, 0x20, 0x3f, 0x7f, 0x80, 0x82, 0xbe, 0xff, 0x01, 0x61])
                  for _ in range(rng.randint(1, 7)))
        pre = rng.choice(["", "B400161016240026363016482 ", "B4003616263827f00 "])
        L.append("connx %d %sB%s" % (rng.choice([65535, 65535, 65535, 4, 1, 0]), pre, C.hx(v)))
    return L


# ---- request direction through h2.c -------------------------------------------------------------
REQ_NAMES = [b"accept", b"accept-encoding", b"accept-language", b"user-agent", b"referer", b"cookie", b"cookie",
             b"if-none-match", b"if-modified-since", b"range", b"authorization", b"cache-control", b"pragma",
             b"x-forwarded-for", b"x-forwarded-proto", b"forwarded", b"origin", b"dnt", b"te", b"priority",
             b"upgrade-insecure-requests", b"sec-fetch-mode", b"x-requested-with", b"if-match", b"if-range",
             b"if-unmodified-since", b"content-type", b"accept-charset", b"from", b"max-forwards", b"via",
             b"x-custom-one", b"x-y", b"alt-used", b"link", b"expect"]
NO_DUP = {b"content-type", b"if-modified-since", b"if-none-match", b"host", b"content-length", b"te", b"expect",
          b"priority"}


def py_enc_str(s):
    return py_enc_int(7, 0, len(s)) + s


class PyEncoder:
    """independent HPACK encoder with a random indexing policy (raw string literals)"""

    def __init__(self, rng):
        self.rng = rng
        self.tbl = PyTable(4096)

    def field(self, n, v):
        rng = self.rng
        full, name = self.tbl.find(n, v)
        r = rng.random()
        if full and r < 0.7:
            return py_enc_int(7, 0x80, full)
        mode = rng.choice("iiiwn")
        flag, pb = {"i": (0x40, 6), "w": (0x00, 4), "n": (0x10, 4)}[mode]
        if name and rng.random() < 0.8:
            out = py_enc_int(pb, flag, name)
        else:
            out = bytes([flag]) + py_enc_str(n)
        out += py_enc_str(v)
        if mode == "i":
            self.tbl.add(n, v)
        return out

    def block(self, hdrs):
        out = b""
        if hdrs and self.rng.random() < 0.05:
            n = self.rng.choice([0, 100, 1000, 4096, self.rng.randint(0, 4096)])
            self.tbl.resize(n)
            out += py_enc_int(5, 0x20, n)
            if self.rng.random() < 0.5:
                self.tbl.resize(4096)
                out += py_enc_int(5, 0x20, 4096)
        for n, v in hdrs:
            out += self.field(n, v)
        return out


def rand_req_value(rng, name):
    if name == b"te":
        return b"trailers"
    if name == b"expect":
        return b"100-continue"
    if name == b"priority":
        return rng.choice([b"u=1", b"u=3, i", b"i"])
    if name == b"x-forwarded-for":
        return rng.choice([b"10.0.0.1", b"192.168.1.7, 10.1.1.1"])
    if name == b"x-forwarded-proto":
        return rng.choice([b"http", b"https"])
    k = rng.random()
    if k < 0.6:
        return bytes(rng.choice(b"abcdefghijklmnopqrstuvwxyzABCXYZ0123456789/.,;=-_%*+") for _ in range(rng.randint(1, 30)))
    if k < 0.9:
        return rng.choice([b"gzip, deflate, br", b"text/html,application/xhtml+xml;q=0.9,*/*;q=0.8", b"en-US,en;q=0.5",
                           b"Mozilla/5.0 (X11; Linux x86_64)", b"https://www.example.com/a/b?c=d", b"no-cache",
                           b"a=1", b"sid=abcdef0123456789", b"\"etag-1\"", b"bytes=0-99", b"Basic dXNlcjpwYXNz",
                           b"Mon, 21 Oct 2013 20:13:21 GMT", b"1", b"cors"])
    return bytes(rng.choice(b"ABCDEFxyz0123456789+/=") for _ in range(rng.randint(100, 900)))


def rand_request(rng, es):
    """(header list, expected view) of a well-formed request"""
    method = rng.choice([b"GET", b"GET", b"GET", b"HEAD", b"POST", b"OPTIONS", b"DELETE", b"PUT"]) if es \
        else rng.choice([b"POST", b"PUT"])
    path = rng.choice([b"/", b"/index.html", b"/a/b/c", b"/x?y=1&z=2", b"/static/app.js", b"/s.css", b"/q/~x?a=b+c"])
    host = rng.choice([b"www.example.com", b"example.org", b"a.b.c.d.example.net:8080", b"localhost", b"10.1.2.3"])
    pseudo = [(b":method", method), (b":scheme", rng.choice([b"http", b"https"])), (b":path", path), (b":authority", host)]
    rng.shuffle(pseudo)
    hdrs, seen = [], {}
    for _ in range(rng.choice([0, 1, 2, 3, 5, 8, 12])):
        n = rng.choice(REQ_NAMES)
        if n in seen and n in NO_DUP:
            continue
        if n == b"expect" and es:
            continue
        v = rand_req_value(rng, n)
        seen[n] = 1
        hdrs.append((n, v))
    # what the request must hold: Host from :authority at its position, repeated fields merged
    order, vals = [], {}
    for n, v in pseudo:
        if n == b":authority":
            order.append(b"Host")
            vals[b"Host"] = host
    for n, v in hdrs:
        if n in vals:
            vals[n] += (b"; " if n == b"cookie" else b", ") + v
        else:
            order.append(n)
            vals[n] = v
    expect = (method, path, host, [(n, vals[n]) for n in order])
    return pseudo + hdrs, expect


def make_invalid(rng, hdrs):
    """insert one field http_request_parse_header() must refuse (400); returns (list, its index)"""
    bad = rng.choice([(b"connection", b"keep-alive"), (b"te", b"gzip"), (b"transfer-encoding", b"chunked"),
                      (b"X-Upper", b"1"), (b"a b", b"1"), (b"accept ", b"1"), (b"x-t\t", b"1"), (b":path", b"/late"),
                      (b":foo", b"bar"),
                      (b"content-length", b"abc"), (b"keep-alive", b"x"), (b"host", b"other.example")])
    if bad[0] == b"keep-alive":
        bad = (b"Keep-Alive", b"x")
    pos = rng.randint(4, len(hdrs))
    return hdrs[:pos] + [bad] + hdrs[pos:] + [(rand_token(rng, 3, 8), rand_req_value(rng, b"x")) for _ in range(rng.randint(0, 3))], pos


def refused_trailers(rng, hdrs, maxfield):
    """a trailer block http_request_parse_header() gives up on half way (a pseudo-header, or a field that
    takes the block over server.max-request-field-size), FOLLOWED by fields the peer may well add to its
    table; returns (list, the fields behind the refusal point)"""
    if maxfield <= 400 and rng.random() < 0.5:
        bad = (rng.choice([b"x-pad", b"x-checksum"]),
               bytes(rng.choice(b"abcxyz019") for _ in range(maxfield + rng.randint(0, 40))))
    else:
        bad = rng.choice([(b":bogus", b"1"), (b":path", b"/t"), (b":status", b"200"), (b":method", b"GET"),
                          (b":authority", b"t.example"), (b":x", b"y")])
    tail, seen = [], set()
    for _ in range(rng.randint(1, 3)):
        n = b"x-t-" + rand_token(rng, 2, 6)
        if n not in seen:
            seen.add(n)
            tail.append((n, rand_req_value(rng, b"x")[:40]))
    return hdrs + [bad] + tail, tail


def split_frags(rng, blk):
    n = rng.choice([1, 1, 1, 2, 3, 4])
    if n == 1 or len(blk) < 2:
        parts = [blk]
    else:
        cuts = sorted(rng.randint(0, len(blk)) for _ in range(n - 1))
        parts, prev = [], 0
        for c in cuts + [len(blk)]:
            parts.append(blk[prev:c])
            prev = c
    out = []                                  # no frame above SETTINGS_MAX_FRAME_SIZE (16384)
    for f in parts:
        while len(f) > 16000:
            k = rng.randint(8000, 16000)
            out.append(f[:k])
            f = f[k:]
        out.append(f)
    return out


HUFF5 = {c: i for i, c in enumerate(b"012aceiost")}     # the ten 5-bit codes of RFC 7541 Appendix B


def py_huff5(s):
    """Huffman coding of a string over the ten 5-bit symbols (enough to build legal fields whose
    decoded size exceeds 64 KiB inside a header block below the 64 KiB CONTINUATION limit)"""
    acc, nb, out = 0, 0, bytearray()
    for c in s:
        acc = (acc << 5) | HUFF5[c]
        nb += 5
        while nb >= 8:
            nb -= 8
            out.append((acc >> nb) & 0xff)
    if nb:
        out.append(((acc << (8 - nb)) | ((1 << (8 - nb)) - 1)) & 0xff)
    return bytes(out)


BIG_POOL = []


def oversize_field(rng, in_name):
    """literal field without indexing whose value (or name) decodes to more than 65535 octets:
    valid HPACK, LSHPACK_ERR_MORE_BUF in lighttpd"""
    if not BIG_POOL:
        for n in (65536, 65537, 66000, 70000, rng.randint(65536, 70000)):
            BIG_POOL.append(py_huff5(bytes(rng.choice(b"012aceiost") for _ in range(n))))
    big = rng.choice(BIG_POOL)
    small = rng.choice([b"x-big", b"x-o"])
    if in_name:
        return b"\x00" + py_enc_int(7, 0x80, len(big)) + big + py_enc_str(b"1")
    return b"\x00" + py_enc_str(small) + py_enc_int(7, 0x80, len(big)) + big


REQ_EXPECT = {}     # line -> ({item index: expected view}, [expected outcome tokens])


class PyGlue:
    """independent statement of what h2_recv_headers() must do with a HEADERS sequence, as far as the
    HPACK state is concerned: decode it (serve / trailers / discard), postpone it, or kill the connection.
    `err` = GOAWAY code an HPACK decoding error inside the block must produce (None = block decodes)"""

    def __init__(self):
        self.cid = 0
        self.kept = {}            # id -> [is_open, errored, announced body still missing]
        self.acked = False
        self.goaway = 0
        self.ndisc = 0
        self.nrefused = 0

    def _goaway(self, code):
        if self.goaway and (self.goaway > 0 or code == -1):
            return
        self.goaway = code
        if code != -1:
            for v in self.kept.values():
                v[0], v[1] = False, True

    def _discard(self, err):
        if self.goaway > 0:
            return
        self.ndisc += 1
        if self.ndisc > 32:
            self._goaway(11)
        if err:
            self._goaway(err)         # a discarded block is decoded like any other: error = connection error

    def headers(self, sid, es, dep, keep, err):
        """-> (outcome token without markers, decoded?)"""
        if sid % 2 == 0 or (dep == sid and sid > self.cid):
            self._goaway(1)
            return "none", False
        if sid <= self.cid:
            st = self.kept.get(sid)
            if st is None:
                self._goaway(1)
                return "none", False
            if not st[0]:
                st[0], st[1] = False, True
                self._discard(err)
                return "disc:%d:5" % sid, True
            if not es or st[2]:
                st[0], st[1] = False, True
                self._discard(err)
                return "disc:%d:1" % sid, True
            st[0] = False
            if err:
                self._goaway(err)
            return "trl:%d" % sid, True
        if self.goaway:
            self._discard(err)
            return "disc:%d:-" % sid, True
        if len(self.kept) == 8:
            if any(v[1] for v in self.kept.values()):
                return "defer", False
            if not self.acked and sid > 200:
                self._goaway(11)
                return "none", False
            if not self.acked and any(not v[0] for v in self.kept.values()):
                return "defer", False
            self.cid = sid
            self.nrefused += 1
            if self.nrefused > 16:
                self._goaway(-1)
            self._discard(err)
            return "disc:%d:7" % sid, True
        self.cid = sid
        if err:
            self._goaway(err)
            return "none", True
        if keep:
            self.kept[sid] = [not es, False, keep == 2]
        return "new:%d" % sid, True


def gen_req(ctx):
    import copy
    rng = ctx.rng
    L = []
    for _ in range(6000 if ctx.quick else 50000):
        enc = PyEncoder(rng)
        g = PyGlue()
        maxfield = rng.choice([65535, 65535, 65535, 65535, 400, 150])     # server.max-request-field-size
        items, expect, outs = [], {}, []
        if rng.random() < 0.85:
            items.append("A")
            outs.append("a")
            g.acked = True
        nid = 1
        fill = rng.random() < 0.4            # try to reach the concurrency limit
        directed = rng.random() < 0.12       # refused trailer blocks whose later fields the next request re-uses
        echo = []
        for _ in range(rng.choice([1, 2, 4, 8, 14, 24, 40, 70])):
            if g.goaway > 0:
                break
            r = rng.random()
            if r < 0.03:
                items.append("G")
                outs.append("g")
                g._goaway(-1)
                continue
            if r < 0.10 and g.kept:
                x = rng.choice(sorted(g.kept))
                del g.kept[x]
                items.append("X%d" % x)
                outs.append("x")
                continue
            g0 = g.goaway
            if r < (0.45 if directed else 0.24) and g.kept:
                # HEADERS on a stream the connection still tracks: trailers (or a protocol violation)
                sid = rng.choice(sorted(g.kept))
                es = rng.random() < (0.97 if directed else 0.85)
                hdrs = [(rng.choice([b"x-trailer", b"grpc-status", b"x-checksum"]), rand_req_value(rng, b"x"))
                        for _ in range(rng.randint(0, 3))]
                if rng.random() < (0.8 if directed else 0.3):
                    # the header parser refuses a field of the trailers: the rest of the block is decoded all the
                    # same, also when the response of the stream has begun (its status is set already)
                    hdrs, echo = refused_trailers(rng, hdrs, maxfield)
                if rng.random() < 0.5:
                    items.append("S%d/%d" % (sid, rng.choice([200, 200, 200, 206, 404, 500])))
                    outs.append("s")
                keep, exp, bad, refuse = 0, None, rng.random() < 0.03, None
            else:
                es = rng.random() < 0.75
                hdrs, exp = rand_request(rng, es)
                bad = rng.random() < 0.03
                refuse = None
                declared = (not es) and rng.random() < 0.3
                if declared:
                    # a body is announced and none of it sent: trailers on this stream are a stream error
                    hdrs.append((b"content-length", b"5"))
                    exp[3].append((b"content-length", b"5"))
                if echo and rng.random() < 0.8:
                    # the fields that stood behind the refusal point of a trailer block, again: a peer that
                    # indexed them refers to its table now
                    for n, v in echo:
                        hdrs.append((n, v))
                        exp[3].append((n, v))
                    echo = []
                if rng.random() < (0.02 if directed else 0.10):
                    # a request the header parser refuses half way: the rest of the block is still decoded
                    hdrs, refuse = make_invalid(rng, hdrs)
                    exp = ("STATUS", "400")
                cum = 0
                for k, (n, v) in enumerate(hdrs):
                    cum += len(n) + len(v) + 4
                    if cum > maxfield:
                        if refuse is None or k <= refuse:
                            refuse, exp = k, ("STATUS", "431")
                        break
                if refuse is not None and rng.random() < 0.3:
                    bad = True                   # garbage after the refusal point is a decoding error all the same
                keep = int((rng.random() < (0.9 if fill else 0.6 if directed else 0.15)) and len(g.kept) < 8)
                if declared:
                    keep = 2 if (keep and refuse is None) else 0
                sid = nid
                nid += 2
                if rng.random() < 0.01:
                    sid += 1                  # even stream id
            pad = str(rng.choice([0, 1, 7, 200])) if rng.random() < 0.15 else "-"
            dep = str(rng.choice([0, 1, sid, sid + 2])) if rng.random() < 0.12 else "-"
            trial = copy.deepcopy(enc)
            trial.rng = rng
            blk = trial.block(hdrs)
            err = None
            if bad:
                if rng.random() < (0.12 if ctx.quick else 0.04):
                    # a legal field too large for lighttpd's 64 KiB decoding buffer (then more fields)
                    in_name = rng.random() < 0.2
                    blk += oversize_field(rng, in_name) + b"\x40\x01y\x01z"
                    err = 9 if in_name else 1
                else:
                    blk += rng.choice([b"\xff\xff\xff\xff\xff\xff", b"\x80", b"\x3f\xff\xff\x7f\x82", b"\xff\x7f"])
                    err = 9
            tok, decoded = g.headers(sid, es, int(dep) if dep != "-" else None, keep, err)
            if decoded:
                enc = trial                  # the peer's encoder state advances only with what lighttpd decodes
            if tok.startswith("new:") and exp is not None:
                expect[len(items)] = exp
            if g.goaway > 0:
                tok += "!%d" % g.goaway
            elif g.goaway < 0 and g0 == 0:
                tok += "~"
            outs.append(tok)
            items.append("%s%d/%d/%s/%s/%s/%d" % (rng.choice("HHh"), sid, es, pad, dep,
                                                 "+".join(C.hx(f) for f in split_frags(rng, blk)), keep))
        line = "req %d %s" % (maxfield, " ".join(items))
        # the decoder's table at the end = the table of the peer's encoder after the blocks lighttpd consumed
        # (as long as the connection is alive)
        ftbl = None
        if g.goaway <= 0:
            ftbl = ",".join("%s:%s" % (C.hx(n), C.hx(v)) for n, v in enc.tbl.dyn) if enc.tbl.dyn else "-"
        REQ_EXPECT[line] = (expect, outs, ftbl)
        L.append(line)
    return L


VIEW_RE = None


def strip_view(out):
    import re
    global VIEW_RE
    if VIEW_RE is None:
        VIEW_RE = re.compile(r";v=\S*")
    return VIEW_RE.sub("", out)


def tok_kind(t):
    """new:5!9 -> new!9 (what was done with the block + the GOAWAY it caused)"""
    return t.split(":")[0].split("!")[0].rstrip("~") + ("!" + t.split("!")[1] if "!" in t else "~" if t.endswith("~") else "")


def oracle_req(line, out, views=True):
    """outcome of every HEADERS sequence and (views=True: unstripped output) views of the served requests"""
    ent = REQ_EXPECT.get(line)
    if ent is None:
        return None
    exp, outs, ftbl = ent
    o = out.split(" ")
    if "IDBAD" in out:
        return "h2_parse_headers_frame: a request header is filed under an id that is not the id of its name"
    got = [x.split(";v=")[0] for x in o[:len(outs)]]
    if got != outs:
        k = next((i for i in range(min(len(got), len(outs))) if got[i] != outs[i]), min(len(got), len(outs)))
        return "h2_recv_headers: header block not handled as it must be for the HPACK state (%s instead of %s)" % (
            tok_kind(got[k]) if k < len(got) else "nothing", tok_kind(outs[k]) if k < len(outs) else "nothing")
    def table_verdict():
        if ftbl is not None:
            tb = [x for x in o[len(outs):] if x.startswith("T")]
            if len(tb) != 1 or ":" not in tb[0]:
                return "harness: decoder table missing"
            got_t = tb[0].split(":", 1)[1]
            got_t = "-" if got_t == "-" else ",".join(":".join(f.split(":")[:2]) for f in got_t.split(","))
            if got_t != ftbl:
                return "h2 request direction: the connection's HPACK dynamic table differs from the table of the " \
                       "peer's encoder after the header blocks received (connection alive, no error signalled)"
        return None
    if not views:
        return table_verdict()
    for i, e in exp.items():
        if i >= len(o) or not o[i].startswith("new:"):
            continue
        if ";v=" not in o[i]:
            return "harness: view missing"
        v = o[i].split(";v=")[1].split("|")
        if e[0] == "STATUS":
            if v[0] != e[1]:
                return "h2 request: a request that must be refused with %s was answered with status %s" % (e[1], v[0])
            continue
        method, path, host, hdrs = e
        got_h = [] if v[5] == "-" else [tuple(C.unhx(x) for x in f.split(".", 1)[1].split("=")) for f in v[5].split(",")]
        if v[1] != C.hx(method) or v[2] != C.hx(path) or v[3] != C.hx(host) or got_h != hdrs:
            return "h2 request: the request does not hold the method/path/authority/field list that was encoded"
        if v[0] not in ("0", "200"):
            return "h2 request: well-formed request answered with status %s at header parsing" % v[0]
    return table_verdict()


def rand_case(rng, name):
    k = rng.random()
    if k < 0.5:
        return name
    if k < 0.7:
        return name.lower()
    if k < 0.85:
        return name.upper()
    return bytes(c ^ 0x20 if (65 <= c <= 90 or 97 <= c <= 122) and rng.random() < 0.5 else c for c in name)


def rand_resp_value(rng):
    k = rng.random()
    if k < 0.07:
        return b""
    if k < 0.75:
        return bytes(rng.choice(b"abcdefghijklmnopqrstuvwxyzABCXYZ0123456789 /.,;=-_%\"()") for _ in range(rng.randint(1, 30)))
    if k < 0.9:
        return rng.choice([b"text/html; charset=utf-8", b"gzip", b"0", b"1234", b"no-cache", b"bytes",
                           b"Mon, 21 Oct 2013 20:13:21 GMT", b"https://www.example.com/", b"max-age=3600",
                           b"a=1; Path=/; HttpOnly", b"</s.css>; rel=preload", b"\"abc-123\"", b"Accept-Encoding"])
    if k < 0.97:
        return bytes(rng.choice(b"ABCDEFxyz0123456789+/=") for _ in range(rng.randint(200, 3000)))
    return bytes(rng.choice(b"abcdefghij") for _ in range(rng.randint(9000, 30000)))


INCOMPRESSIBLE = b"<>{}`^~|\\#$@[]"          # Huffman codes of 11..19 bits: lshpack sends these raw


def near_limit_response(rng, srvtag):
    """one response whose expanded header size lands within a few octets of the 65535 limit, with values
    HPACK cannot shrink: the encoded block is then larger than the size that was checked"""
    overhead = 14 + 37 + (17 if srvtag else 0)
    ops, total = [], overhead
    for k in [b"X-Pre", b"ETag"][:rng.randint(0, 2)]:
        v = bytes(rng.choice(b"abc123") for _ in range(rng.randint(1, 20)))
        ops.append(("s", k, v))
        total += len(k) + len(v) + 4
    tail = [(b"X-B", b"2")] if rng.random() < 0.7 else []
    for k, v in tail:
        total += len(k) + len(v) + 4
    nbig = rng.choice([1, 1, 2, 3])
    target = 65535 + rng.choice([-70, -40, -12, -5, -2, -1, 0, 0, 1, 2, 9, 30])
    room = target - total
    for i in range(nbig):
        k = b"X-Big%d" % i
        share = room // (nbig - i) if i < nbig - 1 else room
        vlen = max(1, share - len(k) - 4)
        alpha = INCOMPRESSIBLE if rng.random() < 0.8 else bytes(range(0x80, 0x100))
        ops.append((rng.choice("ss"), k, bytes(rng.choice(alpha) for _ in range(vlen))))
        room -= len(k) + vlen + 4
    ops += [("s", k, v) for k, v in tail]
    return "R%d/%d/%s" % (rng.choice([200, 404, 302]), rng.random() < 0.5,
                          ",".join("%s%s:%s" % (o, C.hx(k), C.hx(v)) for o, k, v in ops))


def near_limit_many(rng, srvtag):
    """a response of ~250 fields with long incompressible names and values: HPACK needs 5 octets per field
    where the size check counts 4, so the encoded block is LARGER than 64 KiB although the check passes"""
    overhead = 14 + 37 + (17 if srvtag else 0)
    target = 65535 + rng.choice([-300, -40, -3, -1, 0, 0, 1, 5, 200])
    ops, total, i = [], overhead, 0
    while True:
        n = b"x%d" % i + bytes(rng.choice(b"^|~`") for _ in range(rng.randint(127, 140)))
        v = bytes(rng.choice(INCOMPRESSIBLE) for _ in range(rng.randint(127, 140)))
        i += 1
        if total + len(n) + len(v) + 4 > target - 140:
            # last field: land on the target
            vlen = target - total - len(n) - 4
            if vlen < 1:
                break
            v = bytes(rng.choice(INCOMPRESSIBLE) for _ in range(vlen))
            ops.append(("s", n, v))
            break
        ops.append(("s", n, v))
        total += len(n) + len(v) + 4
    return "R%d/%d/%s" % (rng.choice([200, 404]), rng.random() < 0.5,
                          ",".join("%s%s:%s" % (o, C.hx(k), C.hx(v)) for o, k, v in ops))


def gen_resp(ctx):
    rng = ctx.rng
    # regression corpus: size update after the peer changed SETTINGS_HEADER_TABLE_SIZE; oversized response
    L = ["resp 1 R200/1/s%s:%s R200/1/s%s:%s,s%s:%s R200/1/s%s:%s" % (
             C.hx(b"X-A"), C.hx(b"1"), C.hx(b"X-Big"), C.hx(b"<" * 65504), C.hx(b"X-B"), C.hx(b"2"), C.hx(b"X-B"), C.hx(b"2")),
         "resp 0 R200/1/s%s:%s,s%s:%s R200/1/s%s:%s" % (
             C.hx(b"X-Big"), C.hx(b"{" * 65480), C.hx(b"X-B"), C.hx(b"2"), C.hx(b"X-B"), C.hx(b"2")),
         "resp 0 R200/1/s%s:%s %s R200/1/s%s:%s" % (C.hx(b"X-A"), C.hx(b"1"), near_limit_many(random.Random(7), False),
                                                     C.hx(b"X-A"), C.hx(b"1")),
         "resp 0 C0 R200/1/-", "resp 1 R200/1/s%s:%s C0 C4096 R200/1/s%s:%s R204/0/-" % ((C.hx(b"ETag"), C.hx(b"x1")) * 2),
         "resp 0 C100 C50 C300 R404/0/- C4096 R200/1/-", "resp 0 C5000 R200/1/- C4096 I103/0/- C64 T0/1/s%s:%s" % (C.hx(b"X-T"), C.hx(b"1"))]
    nl_p = 0.0025 if ctx.quick else 0.001           # (each near-limit response is 128 KiB of input)
    for _ in range(2500 if ctx.quick else 30000):
        items = []
        pool = [(rand_case(rng, rng.choice(RESP_NAMES)), rand_resp_value(rng)) for _ in range(rng.choice([2, 5, 12]))]
        srv = rng.random() < 0.6
        for _ in range(rng.choice([1, 1, 2, 3, 6, 12, 25])):
            r = rng.random()
            if r < nl_p:
                items.append(near_limit_many(rng, srv) if rng.random() < 0.3 else near_limit_response(rng, srv))
                continue
            if r < 0.06:
                items.append("C%d" % rng.choice([0, 0, 64, 100, 1000, 4096, 4097, 65536, rng.randint(0, 5000)]))
                continue
            if r < 0.09:
                items.append("F%d" % rng.choice([16384, 16385, 20000, 65536, 16777215, 16383 if rng.random() < 0.1 else 32768]))
                continue
            if r < 0.14:
                # interim response (h2_send_1xx) or response trailers: h2_send_headers_block()
                ops = []
                for _ in range(rng.choice([0, 1, 2, 4])):
                    k = rand_case(rng, rng.choice([b"Link", b"Link", b"X-Checksum", b"Grpc-Status", b"ETag", b"X-Early",
                                                   b"Server-Timing", b"Content-Type"]))
                    v = rng.choice([b"", b" ", b"  x", b"\t0"]) if rng.random() < 0.15 else \
                        bytes(rng.choice(b"abcdefghijklmnopqrstuvwxyz0123456789 </>;=.-\"") for _ in range(rng.randint(1, 40))).lstrip() or b"v"
                    ops.append("%s%s:%s" % (rng.choice("ssi"), C.hx(k), C.hx(v)))
                if rng.random() < 0.5:
                    items.append("I%d/0/%s" % (rng.choice([100, 102, 103, 103]), ",".join(ops) if ops else "-"))
                else:
                    if ops and rng.random() < 0.08:
                        ops.insert(rng.randrange(len(ops) + 1), "s%s:%s" % (C.hx(b":status"), C.hx(b"200")))
                    # (trailer lines are independent: make them all "set")
                    items.append("T0/1/%s" % (",".join("s" + o[1:] for o in ops) if ops else "-"))
                continue
            ops = []
            for _ in range(rng.choice([0, 1, 2, 3, 4, 6, 9, 14])):
                if rng.random() < 0.7:
                    k, v = rng.choice(pool)
                    if rng.random() < 0.3:
                        k = rand_case(rng, k)
                else:
                    k, v = rand_case(rng, rng.choice(RESP_NAMES)), rand_resp_value(rng)
                if k.lower() == b"x-lighttpd-kbytes-per-second" and rng.random() < 0.7:
                    v = rng.choice([b"100", b"0", b"", b"abc", b"7 ", b"-85", b"99999999999999999999"])
                ops.append("%s%s:%s" % (rng.choice("sssssiiiaa"), C.hx(k), C.hx(v)))
            st = rng.choice([200, 200, 200, 204, 206, 304, 304, 400, 404, 500, 301, 302, 403, 401, 416, 503, 100, 199, 599, 999])
            items.append("R%d/%d/%s" % (st, rng.random() < 0.5, ",".join(ops) if ops else "-"))
        L.append("resp %d %s" % (srv, " ".join(items)))
    return L


REQ_STREAM = "req(h2_parse_frames/h2_recv_headers -> HPACK state)"


def run(ctx):
    exe, err = C.build_harness("h_hpack", libs=HARNESS_LIBS, extra=HARNESS_EXTRA)
    if exe is None:
        ctx.broken.append({"kind": "harness-build", "names": ["h_hpack"], "log": err[-3000:]})
        return
    if not ctx.model_ok:
        return
    prims = gen_prims(ctx)
    ctx.differential("prims(int/str/huffman)", [exe], "hpack", prims, oracle, classify)
    try:
        valid = gen_histories(ctx, exe)
    except ProducerCrash as ex:
        ctx.violation("crash:encoder-histories:%s" % ex.line.split(" ")[0],
                      "the real HPACK encoder crashed / sanitizer report while encoding a header-list history "
                      "(table-size changes included)",
                      {"property": ctx.pid, "kind": "sanitizer-or-crash", "correspondence": "conn-valid(producer)",
                       "input": ex.line, "rc": ex.rc, "stderr": ex.err, "confirmed_alone_or_with_prefix": ex.confirmed},
                      found=True)
        return
    ctx.differential("conn-valid(3 encoders -> lshpack_dec)", [exe], "hpack", valid, oracle, classify)
    bad = corrupt_lines(ctx, valid)
    ctx.differential("conn-corrupt(single bit/byte)", [exe], "hpack", bad, oracle, classify)
    resp = gen_resp(ctx)
    ctx.differential("resp(h2_send_headers -> nghttp2)", [exe], "hpack", resp, oracle, classify)
    ctx.dist["responses"] = sum(l.count(" R") for l in resp)
    req = gen_req(ctx)
    raw, rrc, rerr = C.parallel_lines([exe], req)
    if rrc == 0 and len(raw) == len(req):
        seen = set()
        for l, o in zip(req, raw):
            v = oracle_req(l, o)
            if v and v not in seen:
                seen.add(v)
                ctx.violation("oracle:%s:%s" % (REQ_STREAM, v), v,
                              {"property": ctx.pid, "kind": "property-oracle", "correspondence": REQ_STREAM,
                               "input": l, "impl_obs": o, "oracle_verdict": v}, found=True)
    ctx.differential(REQ_STREAM, [exe], "hpack", req, oracle, classify, canon=strip_view)
    ctx.dist["request_header_sequences"] = sum(l.count(" H") + l.count(" h") for l in req)
    ctx.dist["blocks_valid"] = sum(l.count(" B") + l.count(" D") for l in valid)
    ctx.dist["histories_valid"] = len(valid)
    ctx.dist["corrupted_blocks"] = len(bad)
    ctx.rule = ("cases: exhaustive 1-2 octet integers / Huffman strings + random primitives; connection histories "
                "(1..1000 blocks, served/discarded mixed, table size changes) from 3 independent encoders; every "
                "single-bit corruption of short blocks; responses and request HEADERS sequences through the real "
                "h2.c; distinct = (op, outcome/error kind, blocks, table fill / frame shape) tuples")
    ctx.exhaustive = False
    ctx.notes.append("exhaustive parts: every 1-octet and every (full-prefix, x) 2-octet integer for prefixes 4..7; "
                     "Huffman decode of every 1- and 2-octet string; Huffman encode/decode round trip of every "
                     "octet and every pair of octets; all 8 single-bit flips (+ truncations, deletions, insertions) "
                     "of every octet of the short valid blocks")
    ctx.assumptions += ["nghttp2 (libnghttp2) is a conformant HPACK peer"]


def replay_line(ctx, rep):
    exe, err = C.build_harness("h_hpack", libs=HARNESS_LIBS, extra=HARNESS_EXTRA)
    line = rep["input"]
    o, rc, e = C.run_lines([exe], [line])
    m, _, _ = C.run_model("hpack", [line])
    print("input:", line[:2000])
    print("impl :", (o[0] if o else "<crash>")[:2000], rc)
    print("model:", (m[0] if m else "")[:2000])
    if not o:
        print("stderr:", e[-2000:])
        v = "crash / sanitizer report"
    else:
        v = oracle(line, o[0])
        if line.startswith("lsenc") and not o[0].endswith("ng=ok"):
            v = "nghttp2 does not decode lshpack's output"
        if line.startswith("req") and "IDBAD" in o[0]:
            v = "a request header is filed under an id that is not the id of its name"
    print("oracle:", v)
    producer = line.startswith(("lsenc", "ngenc", "ngdec"))
    differs = bool(o) and not producer and [strip_view(x) for x in o] != m
    if v or differs:
        print("VIOLATION property=%s replay=%s" % (ctx.pid, "(replayed)"))
        return 1
    return 0
