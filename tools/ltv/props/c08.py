"""C08 — the response depends only on its request; same answer over HTTP/1.0, HTTP/1.1 and HTTP/2.

Correspondence streams:
  reset(h_reset)     in-process: dirty a real request_st through the real parsers + response-side
                     setters, run request_reset()/request_reset_ex()/request_release()/h2_init_stream()/
                     connection_handle_response_end_state(), dump every scalar/buffer field and compare
                     with the Lean model (Model/Reset.lean) and with a freshly initialised object
  parse(h_reset)     in-process: the same request head parsed into a fresh and into a recycled
                     request_st must give the same parsed request (after a rejection: the same status,
                     method, version); compared with the Lean h1/h2 parsers (Model/Server.lean)
  e2e metamorphic    real server: probe R alone on a fresh connection vs R after generated histories
                     (keep-alive, pipelined, earlier/concurrent HTTP/2 streams, recycled connection
                     objects, other connections, h2c) and the same semantic request over 1.0, 1.1, h2
  e2e cold start     each probe as the first request a fresh server ever sees vs the warm reference
                     (server-wide state: deflate cache on disk, stat cache) + content-coding oracle
  e2e wide           own server: deep pipelines (>= 116 KiB of pipelined requests behind a slow CGI, aligned
                     and unaligned with the read buffers) vs each request alone; clients from many
                     127.x.y.z source addresses (REMOTE_ADDR oracle); concurrent h2 downloads under a
                     closed connection window
  e2e model          the Lean connection automaton predicts status / body / connection fate / selected
                     headers for sequences on the modelled part of the site (incl. POST to a CGI sink,
                     413, HTTP/1.0 downgrade block, blank-line messages, rejected HEADs)
"""
import hashlib, os, re, socket, struct, time, base64, json, threading
from concurrent.futures import ThreadPoolExecutor
from .. import common as C
from .. import e2e

MANIFEST = dict(
    text="PROVED, over a hand-written executable model (Lean 4): the model of request_reset / "
         "request_reset_ex / request_release restores every field of the groups ReqLive / ReqKept, given "
         "that each module that used its r->plugin_ctx slot registered a clearing reset hook (witness "
         "theorem: a slot without such a hook survives); every member of struct request_st and struct "
         "connection (clang AST) is classified (restored / carried-unread / constant / scratch / "
         "connection-level) and every source file that stores into r->plugin_ctx[] registers a hook that "
         "clears it (textual extractor); on the modelled HTTP/1.x connection (static files, index, "
         "access-deny, setenv, a body-reading handler, 4 kinds of conditional blocks, 413, HTTP/1.0 "
         "downgrade) the answer to a request that starts with a non-control byte, after ANY history of "
         "such requests that left the connection open, is a function of site, configuration and that "
         "request alone, also on a closed-and-reaccepted connection object; an HTTP/2 stream is answered "
         "from its own header fields whatever pooled request object it gets, and the connection-level "
         "request h2r reaches the answer only through its configuration and server_name selector; on a "
         "separate model of the error-handler bookkeeping (http_response_has_error_handler / "
         "_call_error_handler / the loop of http_response_handler with the work of a pass as a parameter) "
         "the member error_handler_saved_method, which request_reset does not restore, cannot influence the "
         "outcome from error_handler_saved_status = 0, for any pass function that leaves the two members "
         "alone (assumed of modules), and the loop comes back for an error handler at most once (two passes always answer). "
         "PARTIAL: HTTP/1.1 and HTTP/2 parsing store the same request record for GET-like requests with "
         "plain lower-case fields (tokenised fields, no body, no Host/Connection/Content-Length/TE "
         "specials); same answer over 1.0/1.1/h2 only for a bounded family of 48 requests (kernel "
         "evaluation). TESTED ONLY: that the models are the C (in-process differential on reset, "
         "keep-alive end, h2_init_stream, parse-into-recycled incl. method/version after a rejected "
         "head; the real static error-handler functions on a real request_st vs the model, single steps "
         "exhaustively over a small scope and scripted loops -- the loop's switch is repeated in the harness; Lean connection automaton vs real server incl. blank lines, 413, 1.0 downgrade, POST to "
         "CGI); history independence for everything outside the model — CGI environment, auth, "
         "ranges, rewrite/redirect, deflate and its disk cache, dir listing, SSI, what error-handler "
         "subrequests answer, "
         "extforward, other connections (also from other client addresses), concurrent streams (also "
         "under a closed connection window), deep pipelines (> 64 KiB unprocessed requests), h2c upgrade, "
         "cold vs warm server — by the end-to-end metamorphic streams against the real server over "
         "HTTP/1.0/1.1/h2",
    note="trusted: Lean kernel; the hand-written models (validated only by the differential streams); the "
         "textual recogniser of reset hooks; e2e.py's response parser. Not modelled: the condition cache "
         "evaluation (config_patch_config is stubbed in the harness; stale-cache safety rests on the "
         "end-to-end stream), connection-level members (KF1 lives in con->proto_default_port), blank-line "
         "rules are modelled and tested but outside the theorems, a stream is atomic (no interleaving), "
         "HPACK / flow control (C05-C07), TLS, Range (C15); the error-handler model is not composed with the "
         "connection model (its passes are abstract), and `PrepOk` (no module writes the two saved members) "
         "is a hypothesis",
    tech="Lean 4 proof over hand-written model + extracted struct/hook tables + differential correspondence "
         "(in-process C harness, real server vs Lean connection automaton) + end-to-end metamorphic "
         "testing (real server)",
    ref="6/C08")

# =====================================================================================
# site: configuration + document tree served by the real server
# =====================================================================================
MODULES = ("mod_extforward", "mod_rewrite", "mod_redirect", "mod_alias", "mod_access", "mod_auth",
           "mod_authn_file", "mod_setenv", "mod_expire", "mod_indexfile", "mod_ssi", "mod_cgi",
           "mod_deflate", "mod_dirlisting", "mod_staticfile")

CONF = r'''
server.feature-flags = ("server.h2proto" => "enable", "server.h2c" => "enable",
                        "auth.delay-invalid-creds" => "disable")
server.name = "c08.test"
server.tag = "ltv"
server.max-keep-alive-requests = 1000
server.max-keep-alive-idle = 30
server.max-request-size = 256
index-file.names = ("index.html")
etag.use-inode = "disable"
cgi.local-redir = "enable"
url.access-deny = ("~", ".inc")
static-file.exclude-extensions = (".pl", ".shtml")
cgi.assign = (".pl" => "/usr/bin/perl")
ssi.extension = (".shtml")
extforward.headers = ("X-Forwarded-For")
extforward.forwarder = ("127.0.0.1" => "trust")
alias.url = ("/alias/" => "@ROOT@/aliased/")
url.rewrite-once = ("^/rw/env/(.*)$" => "/cgi/env.pl?rw=$1", "^/rw/file/(.*)$" => "/files/$1")
url.redirect = ("^/redir/(.*)$" => "/files/$1")
url.redirect-code = 302
auth.backend = "plain"
auth.backend.plain.userfile = "@ROOT@/users.txt"
auth.require = ("/auth/" => ("method" => "basic", "realm" => "c08", "require" => "valid-user"))
setenv.add-response-header = ("X-Global" => "g")
setenv.add-environment = ("GLOBAL_ENV" => "genv")
deflate.allowed-encodings = ("gzip", "deflate")
deflate.mimetypes = ("text/plain")
deflate.min-compress-size = 64
deflate.cache-dir = "@ROOT@/deflcache"
$HTTP["host"] == "vhost.test" {
    server.document-root = "@ROOT@/vhost"
    setenv.add-response-header = ("X-Vhost" => "1")
}
$HTTP["url"] =^ "/files/a" {
    setenv.add-response-header = ("X-Url-A" => "1")
    expire.url = ("" => "access plus 1 hours")
}
else $HTTP["url"] =^ "/files/" {
    setenv.add-response-header = ("X-Url-Files" => "1")
}
$HTTP["url"] =~ "^/list(/|$)" {
    dir-listing.activate = "enable"
    dir-listing.hide-dotfiles = "enable"
}
$HTTP["querystring"] =~ "(^|&)flag=1" {
    setenv.add-response-header = ("X-Q-Flag" => "1")
    setenv.add-environment = ("Q_FLAG" => "1")
}
$HTTP["request-method"] == "POST" {
    setenv.add-response-header = ("X-Was-Post" => "1")
}
$REQUEST_HEADER["X-Variant"] == "b" {
    setenv.add-response-header = ("X-Variant-Seen" => "b")
    setenv.add-environment = ("VARIANT" => "b")
    $HTTP["url"] =^ "/files/" {
        server.range-requests = "disable"
    }
}
$HTTP["useragent"] =~ "special" {
    setenv.set-request-header = ("X-Injected" => "ua")
}
$HTTP["remoteip"] == "10.9.8.7" {
    setenv.add-response-header = ("X-Remote" => "fwd")
}
$HTTP["url"] =^ "/eh/" {
    server.error-handler-404 = "/cgi/env.pl"
}
$HTTP["url"] =^ "/eh2/" {
    server.error-handler = "/files/handler.txt"
}
$HTTP["url"] =^ "/noka/" {
    server.max-keep-alive-requests = 0
}
$HTTP["url"] =^ "/h10/" {
    server.protocol-http11 = "disable"
}
$HTTP["cookie"] =~ "deny=1" {
    url.access-deny = ("")
}
'''

ENV_PL = r'''#!/usr/bin/perl
my $body = "";
if (($ENV{CONTENT_LENGTH} || 0) > 0) { read(STDIN, $body, $ENV{CONTENT_LENGTH}); }
if (($ENV{QUERY_STRING} || "") =~ /(^|&)status=(\d+)/) { print "Status: $2\r\n"; }
if (($ENV{QUERY_STRING} || "") =~ /(^|&)hdr=(\w+)/) { print "X-Cgi-Hdr: $2\r\n"; }
if (($ENV{QUERY_STRING} || "") =~ /(^|&)lredir=1/) { print "Location: /files/b.txt\r\n\r\n"; exit 0; }
print "Content-Type: text/plain\r\n\r\n";
foreach my $k (sort keys %ENV) { my $v = $ENV{$k}; $v =~ s/([^ -~]|%)/sprintf("%%%02x", ord($1))/ge; print "$k=$v\n"; }
print "BODY=", unpack("H*", $body), "\n";
'''

SINK_PL = r'''#!/usr/bin/perl
my $body = "";
if (($ENV{CONTENT_LENGTH} || 0) > 0) { read(STDIN, $body, $ENV{CONTENT_LENGTH}); }
print "Content-Type: text/plain\r\n\r\nok\n";
'''

SLOW_PL = r'''#!/usr/bin/perl
select(undef, undef, undef, 0.7);
print "Content-Type: text/plain\r\n\r\nslow\n";
'''

PIPE_N = 116
PIPE_FILES = {"deep/%03d.txt" % i: b"deep-file-%03d\n" % i for i in range(PIPE_N)}

SSI_PAGE = ('<html><!--#echo var="REQUEST_URI"-->|<!--#echo var="QUERY_STRING"-->|'
            '<!--#echo var="HTTP_X_PROBE"-->|<!--#echo var="REQUEST_METHOD"--></html>\n')


def det_bytes(tag, n):
    out = b""
    i = 0
    while len(out) < n:
        out += hashlib.sha256(("%s:%d" % (tag, i)).encode()).digest()
        i += 1
    return out[:n]


def text_bytes(tag, n):
    return base64.b64encode(det_bytes(tag, n))[:n].replace(b"+", b" ").replace(b"/", b"\n")


SITE_FILES = {
    "index.html": b"<html>root index</html>\n",
    "files/a.txt": text_bytes("a", 300),
    "files/b.txt": b"bee\n",
    "files/empty.txt": b"",
    "files/big.bin": det_bytes("big", 150000),
    "files/page.html": b"<html>page</html>\n",
    "files/noext": b"no extension\n",
    "files/handler.txt": b"custom error handler document\n",
    "files/x.inc": b"include file: must be denied\n",
    "files/sub/index.html": b"<html>sub index</html>\n",
    "files/sub/c.css": b"body{}\n",
    "files/noindex/z.txt": b"z\n",
    "list/one.txt": b"1\n",
    "list/two.txt": b"22\n",
    "auth/secret.txt": b"the secret\n",
    "cgi/env.pl": ENV_PL.encode(),
    "cgi/sink.pl": SINK_PL.encode(),
    "cgi/slow.pl": SLOW_PL.encode(),
    "h10/k.txt": b"answered as HTTP/1.0\n",
    "ssi/page.shtml": SSI_PAGE.encode(),
    "eh/present.txt": b"present\n",
    "eh2/present.txt": b"present2\n",
    "noka/k.txt": b"no keep-alive here\n",
}
VHOST_FILES = {"index.html": b"<html>vhost index</html>\n", "files/a.txt": b"vhost a\n"}
ALIAS_FILES = {"al.txt": b"aliased file\n"}
FIXED_MTIME = 1700000000


def build_site(srv):
    def put(base, rel, data):
        p = os.path.join(base, rel)
        os.makedirs(os.path.dirname(p), exist_ok=True)
        with open(p, "wb") as f:
            f.write(data)
        os.utime(p, (FIXED_MTIME, FIXED_MTIME))
        if rel.endswith(".pl"):
            os.chmod(p, 0o755)
    for rel, data in SITE_FILES.items():
        put(srv.docroot, rel, data)
    for rel, data in PIPE_FILES.items():
        put(srv.docroot, rel, data)
    for rel, data in VHOST_FILES.items():
        put(os.path.join(srv.root, "vhost"), rel, data)
    for rel, data in ALIAS_FILES.items():
        put(os.path.join(srv.root, "aliased"), rel, data)
    os.makedirs(os.path.join(srv.root, "deflcache"), exist_ok=True)
    with open(os.path.join(srv.root, "users.txt"), "w") as f:
        f.write("alice:wonderland\nbob:builder\n")


def new_server(bd):
    srv = e2e.Server(bd, CONF, modules=MODULES)
    build_site(srv)
    return srv


# =====================================================================================
# semantic requests and their three renderings
# =====================================================================================
class Req:
    """semantic request: method, path (origin-form incl. query), header list, optional body"""

    def __init__(self, method, target, headers=(), body=None, authority="c08.test", tag=None,
                 raw_h1=None, chunked=False, abort=None, raw_h2=None, no_end=False, no_response=False):
        self.method, self.target, self.headers, self.body = method, target, list(headers), body
        self.authority = authority
        self.tag = tag or ("%s %s" % (method, target))
        self.raw_h1 = raw_h1          # malformed h1 message sent verbatim (history only)
        self.chunked = chunked        # h1.1: send the body chunked (history only)
        self.abort = abort            # number of body bytes actually sent before the client gives up
        self.raw_h2 = raw_h2          # header field list of the HTTP/2 analogue of a malformed message
        self.no_end = no_end          # h2: HEADERS without END_STREAM although no DATA follows (announced body never sent)
        self.no_response = no_response  # h1 bytes the server must not answer (a lone blank line)

    def is_head(self):
        return self.method == "HEAD"

    def h1(self, ver):
        """bytes of the request as HTTP/1.<ver>; identical for probe-alone and probe-after-history"""
        if self.raw_h1 is not None:
            return self.raw_h1
        out = ("%s %s HTTP/1.%d\r\n" % (self.method, self.target, ver)).encode("latin-1")
        out += b"Host: " + self.authority.encode() + b"\r\n"
        if ver == 0:
            out += b"Connection: keep-alive\r\n"
        for k, v in self.headers:
            out += k.encode("latin-1") + b": " + v.encode("latin-1") + b"\r\n"
        if self.body is not None:
            if self.chunked and ver == 1:
                out += b"Transfer-Encoding: chunked\r\n\r\n"
                b = self.body
                i = 0
                while i < len(b):
                    n = min(len(b) - i, 1 + (i * 7 + 5) % 23)
                    out += b"%x\r\n" % n + b[i:i + n] + b"\r\n"
                    i += n
                out += b"0\r\n\r\n"
                return out
            out += b"Content-Length: %d\r\n" % len(self.body)
            out += b"\r\n" + self.body
        else:
            out += b"\r\n"
        return out

    def h2_fields(self):
        if self.raw_h2 is not None:
            return list(self.raw_h2)
        hs = [(":method", self.method), (":scheme", "http"), (":path", self.target),
              (":authority", self.authority)]
        for k, v in self.headers:
            hs.append((k.lower(), v))
        if self.body is not None:
            hs.append(("content-length", str(len(self.body))))
        return hs


def basic(user, pw):
    return "Basic " + base64.b64encode(("%s:%s" % (user, pw)).encode()).decode()


# probes: requests whose response is compared (alone vs after history; across versions)
PROBES = [
    Req("GET", "/"),
    Req("GET", "/files/a.txt"),
    Req("GET", "/files/a.txt?flag=1"),
    Req("HEAD", "/files/a.txt"),
    Req("GET", "/files/b.txt"),
    Req("GET", "/files/empty.txt"),
    Req("GET", "/files/big.bin"),
    Req("GET", "/files/noext"),
    Req("GET", "/files/sub/"),
    Req("GET", "/files/sub"),
    Req("GET", "/files/noindex/"),
    Req("GET", "/files/missing.txt"),
    Req("GET", "/files/x.inc"),
    Req("GET", "/files/a.txt", [("Range", "bytes=10-19")], tag="GET a.txt range"),
    Req("GET", "/files/a.txt", [("Range", "bytes=0-4,100-104")], tag="GET a.txt multirange"),
    Req("GET", "/files/a.txt", [("Range", "bytes=900-")], tag="GET a.txt range-416"),
    Req("GET", "/files/big.bin", [("Range", "bytes=-1000")], tag="GET big suffix-range"),
    Req("GET", "/files/a.txt", [("X-Variant", "b"), ("Range", "bytes=0-1")], tag="GET a.txt range-disabled"),
    Req("GET", "/files/a.txt", [("Accept-Encoding", "gzip")], tag="GET a.txt gzip"),
    Req("GET", "/files/b.txt", [("If-Modified-Since", "Tue, 14 Nov 2023 22:13:20 GMT")], tag="GET b.txt ims-304"),
    Req("GET", "/files/b.txt", [("If-None-Match", "\"nomatch\"")], tag="GET b.txt inm-nomatch"),
    Req("GET", "/list/"),
    Req("GET", "/auth/secret.txt", tag="GET auth none"),
    Req("GET", "/auth/secret.txt", [("Authorization", basic("alice", "wonderland"))], tag="GET auth ok"),
    Req("GET", "/auth/secret.txt", [("Authorization", basic("alice", "wrong"))], tag="GET auth bad"),
    Req("GET", "/cgi/env.pl"),
    Req("GET", "/cgi/env.pl?x=1&flag=1", [("X-Probe", "p1"), ("Cookie", "c=1")], tag="GET env q"),
    Req("GET", "/cgi/env.pl/path/info?z=%20"),
    Req("GET", "/cgi/env.pl?status=404"),
    Req("POST", "/cgi/env.pl", [("Content-Type", "application/x-www-form-urlencoded")], body=b"k=v&long=" + b"x" * 50),
    Req("POST", "/cgi/env.pl?hdr=abc", [("Content-Type", "text/plain")], body=det_bytes("post", 60000), tag="POST env big"),
    Req("POST", "/files/a.txt", body=b"ignored"),
    Req("GET", "/rw/env/hello?orig=1"),
    Req("GET", "/rw/file/b.txt"),
    Req("GET", "/redir/b.txt"),
    Req("GET", "/alias/al.txt"),
    Req("GET", "/", authority="vhost.test", tag="GET / vhost"),
    Req("GET", "/files/a.txt", authority="vhost.test", tag="GET a.txt vhost"),
    Req("GET", "/files/b.txt", [("X-Variant", "b")], tag="GET b.txt variant"),
    Req("GET", "/cgi/env.pl", [("X-Variant", "b"), ("User-Agent", "special agent")], tag="GET env variant ua"),
    Req("GET", "/cgi/env.pl", [("X-Forwarded-For", "10.9.8.7")], tag="GET env xff"),
    Req("GET", "/files/b.txt", [("X-Forwarded-For", "10.9.8.7")], tag="GET b.txt xff"),
    Req("GET", "/ssi/page.shtml?s=1", [("X-Probe", "ssi")]),
    Req("GET", "/eh/missing"),
    Req("GET", "/eh/present.txt"),
    Req("GET", "/eh2/missing"),
    Req("OPTIONS", "/files/a.txt"),
    Req("OPTIONS", "*"),
    Req("DELETE", "/files/a.txt"),
    Req("GET", "/files/b.txt", [("Cookie", "deny=1")], tag="GET b.txt cookie-deny"),
    Req("GET", "/files/%61.txt?a=b?c"),
    Req("GET", "/files/./sub/../b.txt"),
    Req("GET", "/files/sub/c.css"),
    Req("GET", "/cgi/env.pl?lredir=1"),
    Req("GET", "/files/page.html", [("If-None-Match", "*")], tag="GET page.html inm-star"),
    Req("GET", "/files/a.txt", [("Accept-Encoding", "deflate")], tag="GET a.txt deflate"),
    Req("GET", "/files/a.txt", [("Accept-Encoding", "deflate, gzip;q=0.5")], tag="GET a.txt deflate-pref"),
    Req("GET", "/files/a.txt", [("Range", "bytes=0-3"), ("If-Range", "\"stale-validator\"")], tag="GET a.txt if-range-stale"),
    Req("GET", "/files/a.txt", [("Range", "bytes=0-3"), ("If-Range", "Tue, 14 Nov 2023 22:13:20 GMT")],
        tag="GET a.txt if-range-date"),
    Req("GET", "/files/b.txt", [("If-Match", "\"nomatch\""), ("If-Unmodified-Since", "Tue, 14 Nov 2023 22:13:20 GMT")],
        tag="GET b.txt if-match"),
    Req("GET", "/eh2/present.txt", [("Accept-Encoding", "gzip")], tag="GET eh2 present gzip"),
]

# history-only requests (never compared themselves; they dirty the connection / request objects)
def _hist_pool():
    H = []
    std = [(":method", "GET"), (":scheme", "http"), (":path", "/files/a.txt"), (":authority", "c08.test")]
    H.append(Req("GET", "/files/a.txt", tag="h:bad-ctl", raw_h1=b"GET /files/a\x01.txt HTTP/1.1\r\nHost: c08.test\r\n\r\n",
                 raw_h2=[(":method", "GET"), (":scheme", "http"), (":path", "/files/a\x01.txt"), (":authority", "c08.test")]))
    H.append(Req("GET", "/", tag="h:no-host-11", raw_h1=b"GET /files/a.txt HTTP/1.1\r\n\r\n", raw_h2=std[:3]))
    H.append(Req("GET", "/", tag="h:bad-version", raw_h1=b"GET /files/a.txt HTTP/2.7\r\nHost: c08.test\r\n\r\n",
                 raw_h2=std + [(":path", "/files/b.txt")]))
    H.append(Req("GET", "/", tag="h:two-cl", raw_h1=b"POST /cgi/env.pl HTTP/1.1\r\nHost: c08.test\r\nContent-Length: 3\r\n"
                 b"Content-Length: 4\r\n\r\nabcd",
                 raw_h2=[(":method", "POST"), (":scheme", "http"), (":path", "/cgi/env.pl"), (":authority", "c08.test"),
                         ("content-length", "3"), ("content-length", "4")]))
    H.append(Req("GET", "/", tag="h:431", raw_h1=b"GET /files/a.txt?flag=1 HTTP/1.1\r\nHost: c08.test\r\nX-Variant: b\r\nX-Big: "
                 + b"y" * 9000 + b"\r\n\r\n",
                 raw_h2=[(":method", "GET"), (":scheme", "http"), (":path", "/files/a.txt?flag=1"), (":authority", "c08.test"),
                         ("x-variant", "b"), ("x-big", "y" * 9000)]))
    H.append(Req("GET", "/", tag="h:post-411", raw_h1=b"POST /cgi/env.pl HTTP/1.1\r\nHost: c08.test\r\n\r\n",
                 raw_h2=std + [("x-variant", "b"), (":method", "GET")]))
    H.append(Req("GET", "/", tag="h:unknown-method", raw_h1=b"BREW /files/a.txt HTTP/1.1\r\nHost: c08.test\r\n\r\n",
                 raw_h2=[(":method", "BREW")] + std[1:]))
    H.append(Req("GET", "/", tag="h:te-gzip", raw_h1=b"POST /cgi/env.pl HTTP/1.1\r\nHost: c08.test\r\nTransfer-Encoding: gzip\r\n\r\n",
                 raw_h2=std + [("te", "gzip")]))
    H.append(Req("POST", "/cgi/env.pl?flag=1", [("Content-Type", "text/plain"), ("X-Variant", "b")],
                 body=b"chunked body " * 20, chunked=True, tag="h:post-chunked"))
    H.append(Req("POST", "/cgi/env.pl", [("Expect", "100-continue")], body=b"expect", tag="h:post-expect"))
    H.append(Req("POST", "/cgi/env.pl?status=500", [("X-Variant", "b"), ("Cookie", "hist=1")], body=b"z" * 3000,
                 tag="h:post-abort", abort=1000))
    H.append(Req("POST", "/files/a.txt?flag=1", [("X-Variant", "b")], body=b"q" * 5000, tag="h:post-static-abort", abort=10))
    H.append(Req("GET", "/files/b.txt", [("Connection", "close")], tag="h:conn-close",
                 raw_h2=std[:2] + [(":path", "/files/b.txt"), (":authority", "c08.test"), ("connection", "close")]))
    H.append(Req("GET", "/cgi/env.pl?status=302&hdr=loc", [("Cookie", "a=1"), ("Cookie", "b=2"), ("X-Forwarded-For", "10.9.8.7")],
                 tag="h:cookies-xff"))
    H.append(Req("GET", "/files/b.txt?flag=1", [("X-Forwarded-For", "10.9.8.7"), ("X-Forwarded-Proto", "https")],
                 tag="h:xff-proto-https"))
    H.append(Req("POST", "/eh2/missing-post", [("Content-Type", "text/plain")], body=b"k=v&" * 12, tag="h:post-eh2-missing"))
    H.append(Req("POST", "/eh2/missing-post?flag=1", body=b"GET /files/b.txt HTTP/1.1\r\nHost: c08.test\r\nX-Variant: b\r\n\r\n",
                 tag="h:post-eh2-body-spells-request"))
    H.append(Req("POST", "/eh2/missing-chunked", body=b"chunk " * 9, chunked=True, tag="h:post-eh2-chunked"))
    H.append(Req("POST", "/eh/missing-post", body=b"to the 404 handler", tag="h:post-eh-404handler"))
    H.append(Req("PUT", "/files/new.txt", body=b"put body", tag="h:put"))
    H.append(Req("GET", "/files/b.txt", [("If-None-Match", "*"), ("Range", "bytes=0-0"), ("X-Variant", "b")], tag="h:inm-star"))
    H.append(Req("GET", "/noka/k.txt", tag="h:noka"))
    H.append(Req("GET", "/files/" + "d" * 300 + "/x?flag=1", tag="h:long-404"))
    H.append(Req("GET", "/files/a.txt?flag=1", [("X-Variant", "b"), ("User-Agent", "special"), ("Accept-Encoding", "gzip"),
                                                ("Range", "bytes=5-"), ("If-Range", "\"x\"")], tag="h:kitchen-sink"))
    return H


HIST_ONLY = _hist_pool()
BODY_BIG = 60000     # < 65535: fits the initial HTTP/2 stream window


class H1Client:
    def __init__(self, port, src=None):
        self.s = socket.create_connection(("127.0.0.1", port), timeout=5,
                                          **({"source_address": (src, 0)} if src else {}))
        self.s.setsockopt(socket.IPPROTO_TCP, socket.TCP_NODELAY, 1)
        self.buf = b""
        self.closed = False
        self.heads = []

    def send(self, data, nseg=1, gap=0.004):
        try:
            if nseg <= 1:
                self.s.sendall(data)
            else:
                step = max(1, (len(data) + nseg - 1) // nseg)
                for i in range(0, len(data), step):
                    self.s.sendall(data[i:i + step])
                    time.sleep(gap)
            return True
        except OSError:
            self.closed = True
            return False

    def read(self, n, timeout=6.0):
        """read until n final responses are complete (or the server closes / timeout);
        returns (list of final responses, error string|None)"""
        end = time.time() + timeout
        err = None
        while True:
            try:
                rs = e2e.parse_responses(self.buf, head_for=self.heads, closed=self.closed)
                fin = [r for r in rs if r["status"] >= 200 or r["status"] == 101]
                if len(fin) >= n or self.closed:
                    return fin, None
                err = None
            except e2e.RespParseError as ex:
                err = str(ex)
                if self.closed:
                    return [], err
            if time.time() > end:
                return [], "timeout (%s)" % err
            self.s.settimeout(max(0.05, end - time.time()))
            try:
                d = self.s.recv(1 << 16)
            except socket.timeout:
                continue
            except OSError:
                d = b""
            if not d:
                self.closed = True
            self.buf += d

    def unsolicited(self, n, wait=0.06):
        """number of complete final responses beyond the n that were asked for (response desync)"""
        end = time.time() + wait
        while not self.closed and time.time() < end:
            self.s.settimeout(max(0.01, end - time.time()))
            try:
                d = self.s.recv(1 << 16)
            except socket.timeout:
                break
            except OSError:
                d = b""
            if not d:
                self.closed = True
            self.buf += d
        try:
            rs = e2e.parse_responses(self.buf, head_for=self.heads, closed=self.closed)
        except e2e.RespParseError:
            return 0
        return max(0, len([r for r in rs if r["status"] >= 200 or r["status"] == 101]) - n)

    def close(self):
        try:
            self.s.close()
        except OSError:
            pass


class H2Client(e2e.H2Conn):
    def __init__(self, port, preface=True):
        self.swin = {}
        self.cwin = 65535
        self.iwin = 65535
        self._seen = 0
        self.next_sid = 1
        super().__init__(port, settings=((4, (1 << 30)),), send_preface=preface)
        if preface:
            self.send(e2e.h2_window_update(0, (1 << 30)))

    def _account(self):
        for t, fl, sid, pl in self.frames[self._seen:]:
            if t == 8 and len(pl) == 4:
                inc = int.from_bytes(pl, "big") & 0x7fffffff
                if sid == 0:
                    self.cwin += inc
                else:
                    self.swin[sid] = self.swin.get(sid, self.iwin) + inc
            elif t == 4 and not (fl & 1):
                for i in range(0, len(pl) - 5, 6):
                    k, v = struct.unpack(">HI", pl[i:i + 6])
                    if k == 4:
                        for s in self.swin:
                            self.swin[s] += v - self.iwin
                        self.iwin = v
        self._seen = len(self.frames)

    def open(self, q, sid=None, end=True):
        """send the HEADERS of request q (END_STREAM only if it has no body and `end`)"""
        if sid is None:
            sid = self.next_sid
            self.next_sid += 2
        self.swin[sid] = self.iwin
        self.send(self.headers_frame(sid, q.h2_fields(), end_stream=(q.body is None and end and not q.no_end)))
        return sid

    def data(self, sid, body, end=True):
        i = 0
        while True:
            self._account()
            avail = min(self.cwin, self.swin.get(sid, 0), 16384, len(body) - i)
            if i >= len(body):
                if end:
                    self.send(e2e.h2_frame(0, 1, sid, b""))
                return True
            if avail <= 0:
                n0 = len(self.frames)
                self.pump(3.0, until=lambda fs: len(fs) > n0)
                if len(self.frames) == n0 or self.closed:
                    return False
                continue
            last = end and i + avail >= len(body)
            self.send(e2e.h2_frame(0, 1 if last else 0, sid, body[i:i + avail]))
            self.cwin -= avail
            self.swin[sid] -= avail
            i += avail
            if last:
                return True

    def request(self, q, end=True):
        sid = self.open(q)
        if q.body is not None:
            n = len(q.body) if q.abort is None else q.abort
            self.data(sid, q.body[:n], end=(q.abort is None))
            if q.abort is not None:
                self.send(e2e.h2_frame(3, 0, sid, struct.pack(">I", 8)))     # RST_STREAM(CANCEL)
        return sid

    def wait(self, sids, timeout=6.0):
        sids = list(sids)

        def done(fs):
            ended = set()
            last = None
            for t, fl, sid, pl in fs:
                if (t in (0, 1) and fl & 1) or t == 3:
                    ended.add(sid)
                if t == 7 and len(pl) >= 4:          # GOAWAY: streams above last-stream-id are not processed
                    lid = int.from_bytes(pl[:4], "big") & 0x7fffffff
                    last = lid if last is None else min(last, lid)
            return all(s in ended or (last is not None and s > last) for s in sids)
        self.pump(timeout, until=done)
        self._account()
        try:
            return self._collect()
        except Exception as ex:           # HPACK decode problem
            return {"error": str(ex)}

    def _collect(self):
        """per-stream responses so far, decoded incrementally with this connection's HPACK state"""
        if not hasattr(self, "_dec"):
            self._dec, self._ndec = {}, 0
        upto = len(self.frames)
        # do not cut a header block (HEADERS ... CONTINUATION) in the middle
        open_at = None
        for i in range(self._ndec, len(self.frames)):
            t, fl = self.frames[i][0], self.frames[i][1]
            if t == 1 and not (fl & 4):
                open_at = i
            elif t == 9 and (fl & 4):
                open_at = None
        if open_at is not None:
            upto = open_at
        st = e2e.h2_collect(self.frames[self._ndec:upto], self.hp)
        self._ndec = upto
        for sid, d in st.items():
            o = self._dec.setdefault(sid, {"headers": [], "body": b"", "end": False, "rst": None, "blocks": 0})
            o["headers"] += d["headers"]
            o["body"] += d["body"]
            o["end"] = o["end"] or d["end"]
            o["blocks"] += d["blocks"]
            if d["rst"] is not None:
                o["rst"] = d["rst"]
        return self._dec

    def goaway(self):
        return any(f[0] == 7 for f in self.frames)


# =====================================================================================
# observations: normalised (status, headers, body) of the probe's response
# =====================================================================================
DROP_ALWAYS = {b"date", b"connection", b"keep-alive", b"expires", b"priority"}   # priority: RFC 9218 scheduling hint (h2 only)
DROP_CROSS = {b"accept-ranges", b"cache-control", b"transfer-encoding"}
ENV_DROP = {"REMOTE_PORT", "HTTP_CONNECTION", "HTTP_UPGRADE", "HTTP_HTTP2_SETTINGS"}
ENV_DROP_CROSS = {"SERVER_PROTOCOL"}


def norm_body(body, srv):
    body = body.replace(srv.root.encode(), b"@ROOT@").replace(b":%d" % srv.port, b":@PORT@")
    if b"GATEWAY_INTERFACE=CGI/1.1\n" in body:
        env = {}
        for ln in body.decode("latin-1").split("\n"):
            if "=" in ln:
                k, v = ln.split("=", 1)
                env[k] = v
        if env.get("SERVER_PORT") == str(srv.port):
            env["SERVER_PORT"] = "@PORT@"
        for k in ENV_DROP:
            env.pop(k, None)
        return env
    return body


def make_obs(status, headers, body, srv, ended=True, extra=None):
    hs = sorted((k.lower().decode("latin-1"), v.decode("latin-1").replace(srv.root, "@ROOT@"))
                for k, v in headers if k.lower() not in DROP_ALWAYS and not k.startswith(b":"))
    nb = norm_body(body, srv)
    if isinstance(nb, dict):
        hs = [h for h in hs if h[0] != "content-length"]
    o = {"status": status, "headers": hs, "body": nb, "complete": bool(ended)}
    if extra:
        o.update(extra)
    return o


def obs_key(o, cross=False):
    """canonical comparable form"""
    if o is None:
        return None
    hs = [h for h in o["headers"] if not (cross and h[0].encode() in DROP_CROSS)]
    b = o["body"]
    if isinstance(b, dict):
        b = sorted((k, v) for k, v in b.items() if not (cross and k in ENV_DROP_CROSS))
        bk = "env:" + json.dumps(b)
    else:
        bk = "raw:%d:%s" % (len(b), hashlib.sha256(b).hexdigest()[:20])
    return json.dumps([o["status"], hs, bk, o["complete"], o.get("unsolicited", 0)])


def obs_diff(a, b, cross=False):
    """human-readable difference between two observations"""
    if a is None or b is None:
        return "one side has no response"
    out = []
    if a["status"] != b["status"]:
        out.append("status %s vs %s" % (a["status"], b["status"]))
    ha = [h for h in a["headers"] if not (cross and h[0].encode() in DROP_CROSS)]
    hb = [h for h in b["headers"] if not (cross and h[0].encode() in DROP_CROSS)]
    for h in ha:
        if h not in hb:
            out.append("header only in first: %s: %s" % h)
    for h in hb:
        if h not in ha:
            out.append("header only in second: %s: %s" % h)
    ba, bb = a["body"], b["body"]
    if isinstance(ba, dict) and isinstance(bb, dict):
        for k in sorted(set(ba) | set(bb)):
            if cross and k in ENV_DROP_CROSS:
                continue
            if ba.get(k) != bb.get(k):
                out.append("env %s: %r vs %r" % (k, (ba.get(k) or "")[:80], (bb.get(k) or "")[:80]))
    elif ba != bb:
        out.append("body differs (%s vs %s bytes)" % (len(ba), len(bb)))
    if a["complete"] != b["complete"]:
        out.append("completeness %s vs %s" % (a["complete"], b["complete"]))
    if a.get("unsolicited", 0) != b.get("unsolicited", 0):
        out.append("unsolicited extra responses on the connection: %s vs %s" % (a.get("unsolicited", 0), b.get("unsolicited", 0)))
    return "; ".join(out[:8])


# keys that are derived from one and the same piece of request state are reported together
CODERIVED = [("HTTPS", "REQUEST_SCHEME")]          # both come from r->uri.scheme


def diff_classes(a, b, cross=False):
    """one stable signature component per thing that differs between two observations
    (names, not values): 'status', 'header:<name>', 'env:<NAME>' (co-derived keys joined), 'body'"""
    if a is None or b is None:
        return ["no-response"]
    out = []
    if a["status"] != b["status"]:
        out.append("status")
    ha = dict((h[0], h[1]) for h in a["headers"] if not (cross and h[0].encode() in DROP_CROSS))
    hb = dict((h[0], h[1]) for h in b["headers"] if not (cross and h[0].encode() in DROP_CROSS))
    for k in sorted(set(ha) | set(hb)):
        if ha.get(k) != hb.get(k):
            out.append("header:" + k)
    ba, bb = a["body"], b["body"]
    if isinstance(ba, dict) and isinstance(bb, dict):
        envd = [k for k in sorted(set(ba) | set(bb)) if ba.get(k) != bb.get(k) and not (cross and k in ENV_DROP_CROSS)]
        for grp in CODERIVED:
            hit = [k for k in grp if k in envd]
            if hit:
                out.append("env:" + "+".join(grp))
                envd = [k for k in envd if k not in grp]
        out += ["env:" + k for k in envd]
    elif ba != bb:
        out.append("body")
    if a["complete"] != b["complete"]:
        out.append("complete")
    if a.get("unsolicited", 0) != b.get("unsolicited", 0):
        out.append("unsolicited-response")
    return out or ["same"]


def h1_obs(resp, srv, unsolicited=0):
    return make_obs(resp["status"], resp["headers"], resp["body"], srv,
                    extra={"unsolicited": unsolicited} if unsolicited else None)


def h2_probe_obs(c, st, sid, srv, mode):
    """observation of the probe stream; a probe that was refused / cut short because the connection
    had sent GOAWAY (e.g. after invalid credentials on another stream) is inconclusive"""
    if "error" in st or sid not in st:
        raise Unanswered("%s: probe unanswered%s" % (mode, " (goaway)" if c.goaway() else ""))
    d = st[sid]
    has_status = any(k == b":status" for k, _ in d["headers"])
    if c.goaway() and (not has_status or not d["end"]):
        raise Unanswered("%s: probe refused / cut short after GOAWAY" % mode)
    return h2_obs(d, srv)


def h2_obs(d, srv):
    if d is None:
        return None
    st = [v for k, v in d["headers"] if k == b":status"]
    if not st:
        return {"status": 0, "headers": [], "body": b"", "complete": False, "rst": d["rst"]}
    # a RST_STREAM(NO_ERROR) after a complete response (request body not wanted) is connection management
    try:
        code = int(st[0])
    except ValueError:
        code = -1          # (malformed :status: compared as such)
    return make_obs(code, d["headers"], d["body"], srv, ended=d["end"], extra=None if code >= 0 else {"raw_status": repr(st[0])})


# =====================================================================================
# scenarios
# =====================================================================================
class Unanswered(Exception):
    pass


def _h1_send_req(c, q, ver, nseg=1):
    data = q.h1(ver)
    if q.abort is not None and q.raw_h1 is None:
        i = data.index(b"\r\n\r\n") + 4
        c.send(data[:i + q.abort])
        return "aborted"
    c.heads.append(q.is_head())
    c.send(data, nseg)
    return "sent"


def h1_history(srv, ver, hist, log):
    """run history requests one at a time on keep-alive connection(s); returns an open client or None"""
    c = None
    for q in hist:
        if c is None or c.closed:
            c = H1Client(srv.port)
            log.append("connect")
        if _h1_send_req(c, q, ver) == "aborted":
            time.sleep(0.01)
            c.close()
            c = None
            log.append("%s: aborted+closed" % q.tag)
            continue
        n = len(c.heads)
        rs, err = c.read(n)
        if len(rs) < n:
            log.append("%s: no response (%s)" % (q.tag, err))
            c.close()
            c = None
            continue
        r = rs[n - 1]
        cl = (e2e.hdr(r, "connection") or b"").lower()
        log.append("%s: %d%s" % (q.tag, r["status"], " close" if (b"close" in cl or c.closed) else ""))
        if b"close" in cl or c.closed or (ver == 0 and b"keep-alive" not in cl):
            c.close()
            c = None
    return c


def h1_case(srv, case, log):
    ver, mode, hist, q = case["ver"], case["mode"], case["hist"], case["probe"]
    nseg = case.get("nseg", 1)
    if mode in ("alone", "segmented"):
        c = H1Client(srv.port)
    elif mode == "keepalive":
        c = h1_history(srv, ver, hist, log) or H1Client(srv.port)
    elif mode == "recycled":
        c = h1_history(srv, ver, hist, log)
        if c is not None:
            c.close()
        time.sleep(0.02)
        c = H1Client(srv.port)
    elif mode == "pipelined":
        c = H1Client(srv.port)
        data = b""
        for h in hist:
            if h.abort is not None:
                continue
            data += h.h1(ver)
            c.heads.append(h.is_head())
        data += q.h1(ver)
        c.heads.append(q.is_head())
        c.send(data, nseg)
        rs, err = c.read(len(c.heads))
        if len(rs) < len(c.heads):
            c.close()
            raise Unanswered("pipelined: %d of %d responses (%s)" % (len(rs), len(c.heads), err))
        extra = c.unsolicited(len(c.heads)) if any(h.body is not None for h in hist) else 0
        c.close()
        return h1_obs(rs[len(c.heads) - 1], srv, extra)
    elif mode == "otherconn":
        c = H1Client(srv.port)
        data = q.h1(ver)
        cut = max(1, data.index(b"\r\n") // 2)
        c.send(data[:cut])
        b = h1_history(srv, ver, hist, log)
        c.heads.append(q.is_head())
        c.send(data[cut:])
        rs, err = c.read(1)
        c.close()
        if b is not None:
            b.close()
        if not rs:
            raise Unanswered("otherconn: %s" % err)
        return h1_obs(rs[-1], srv)
    else:
        raise ValueError(mode)
    _h1_send_req(c, q, ver, nseg)
    n = len(c.heads)
    rs, err = c.read(n)
    if len(rs) < n:
        c.close()
        raise Unanswered("%s: probe unanswered (%s)" % (mode, err))
    extra = c.unsolicited(n) if mode == "keepalive" and any(h.body is not None for h in hist) else 0
    c.close()
    return h1_obs(rs[n - 1], srv, extra)


def h2_history(srv, hist, log, c=None):
    for q in hist:
        if c is None or c.closed or c.goaway():
            if c is not None:
                c.close()
            c = H2Client(srv.port)
            log.append("connect")
        sid = c.request(q)
        st = c.wait([sid], timeout=0.05 if q.abort is not None else 6.0)
        d = st.get(sid) if "error" not in st else None
        s = [v for k, v in (d or {"headers": []})["headers"] if k == b":status"]
        log.append("%s: %s%s%s" % (q.tag, s[0].decode() if s else "-", " rst=%s" % d["rst"] if d and d["rst"] is not None else "",
                                   " goaway" if c.goaway() else ""))
    return c


def h2_upgrade(srv, first, log):
    """start with an HTTP/1.1 Upgrade: h2c request; returns an H2Client whose stream 1 is `first`"""
    c = H2Client(srv.port, preface=False)
    hs = "".join("%s: %s\r\n" % kv for kv in first.headers)
    c.send(("%s %s HTTP/1.1\r\nHost: %s\r\n%sConnection: Upgrade, HTTP2-Settings\r\nUpgrade: h2c\r\n"
            "HTTP2-Settings: AAQAAP__\r\n\r\n" % (first.method, first.target, first.authority, hs)).encode("latin-1"))
    buf = b""
    c.s.settimeout(5)
    while b"\r\n\r\n" not in buf:
        d = c.s.recv(4096)
        if not d:
            raise Unanswered("h2c upgrade: connection closed")
        buf += d
    head, rest = buf.split(b"\r\n\r\n", 1)
    if not head.startswith(b"HTTP/1.1 101"):
        raise Unanswered("h2c upgrade refused: %r" % head[:40])
    c.send(e2e.H2_PREFACE + e2e.h2_settings(((4, 1 << 30),)) + e2e.h2_window_update(0, 1 << 30))
    fr, c.rx = e2e.h2_parse_frames(rest)
    c.frames += fr
    c.next_sid = 3
    log.append("upgraded")
    return c


def h2_case(srv, case, log):
    mode, hist, q = case["mode"], case["hist"], case["probe"]
    if mode == "alone":
        c = H2Client(srv.port)
    elif mode == "sequential":
        c = h2_history(srv, hist, log)
    elif mode == "recycled":
        c = h2_history(srv, hist, log)
        if c is not None:
            c.close()
        time.sleep(0.02)
        c = H2Client(srv.port)
    elif mode == "h2c":
        first = hist[0] if hist and hist[0].body is None and hist[0].raw_h1 is None else PROBES[4]
        c = h2_upgrade(srv, first, log)
        c.wait([1])
        c = h2_history(srv, hist[1:] if first is not PROBES[4] else hist, log, c)
    elif mode == "h2c-probe":
        c = h2_upgrade(srv, q, log)
        st = c.wait([1])
        c.close()
        if "error" in st or 1 not in st:
            raise Unanswered("h2c-probe: no response on stream 1")
        return h2_obs(st[1], srv)
    elif mode == "concurrent":
        c = H2Client(srv.port)
        pend = []
        for h in hist[:6]:
            sid = c.open(h, end=True)
            if h.body is not None:
                half = len(h.body) // 2 if h.abort is None else min(h.abort, len(h.body) // 2)
                c.data(sid, h.body[:half], end=False)
                pend.append((sid, h, half))
        sid = c.request(q)
        st = c.wait([sid])
        for psid, h, half in pend:
            if h.abort is not None:
                c.send(e2e.h2_frame(3, 0, psid, struct.pack(">I", 8)))
            else:
                c.data(psid, h.body[half:], end=True)
        st = c.wait([sid] + [p[0] for p in pend if p[1].abort is None], timeout=3.0)
        c.close()
        return h2_probe_obs(c, st, sid, srv, "concurrent")
    elif mode == "burst":
        c = H2Client(srv.port)
        out, sids = b"", []
        for h in list(hist[:6]) + [q]:
            if h.body is not None and len(h.body) > 8000:
                continue
            sid = c.next_sid
            c.next_sid += 2
            c.swin[sid] = c.iwin
            out += c.headers_frame(sid, h.h2_fields(), end_stream=h.body is None)
            if h.body is not None:
                n = len(h.body) if h.abort is None else h.abort
                out += e2e.h2_frame(0, 0 if h.abort is not None else 1, sid, h.body[:n])
                if h.abort is not None:
                    out += e2e.h2_frame(3, 0, sid, struct.pack(">I", 8))
            sids.append(sid)
        if q.body is not None and len(q.body) > 8000:
            raise Unanswered("burst: probe body too large for a burst")
        c.send(out)
        st = c.wait(sids)
        c.close()
        return h2_probe_obs(c, st, sids[-1], srv, "burst")
    elif mode == "otherconn":
        c = H2Client(srv.port)
        b = h2_history(srv, hist, log)
        sid = c.request(q)
        st = c.wait([sid])
        c.close()
        if b is not None:
            b.close()
        if "error" in st or sid not in st:
            raise Unanswered("otherconn: probe unanswered")
        return h2_obs(st[sid], srv)
    else:
        raise ValueError(mode)
    if c is None or c.closed or c.goaway():
        if c is not None:
            c.close()
        c = H2Client(srv.port)
        log.append("connect")
    sid = c.request(q)
    st = c.wait([sid])
    c.close()
    if "error" in st or sid not in st:
        raise Unanswered("%s: probe unanswered%s" % (mode, " (goaway)" if c.goaway() else ""))
    return h2_obs(st[sid], srv)


def run_case(srv, case):
    """returns (observation|None, log, note)"""
    log = []
    try:
        o = (h2_case if case["ver"] == 2 else h1_case)(srv, case, log)
        return o, log, None
    except Unanswered as ex:
        return None, log, str(ex)
    except Exception as ex:                 # malformed answer the client cannot digest: counts as unanswered
        return None, log, "client error: %r" % (ex,)


# =====================================================================================
# in-process streams (h_reset)
# =====================================================================================
def _hx(s):
    return C.hx(s if isinstance(s, bytes) else s.encode("latin-1"))


def _kv(pairs):
    return ",".join("%s:%s" % (_hx(k), _hx(v)) for k, v in pairs) if pairs else "-"


DEFAULT_OPTS = 9567
OPTSETS = [9567, 9567, 9567, 0, 1, 1 | 2 | 4, 8 | 16, 1 | 8 | 32 | 64, 0x8000 | 1 | 8 | 16 | 64]
RST_OPS = ["reset", "resetex", "release", "h2init", "conreset", "kaend", "ex", "respreset", "bodyclear0", "bodyclear1", "none"]
RECYCLE_OPS = ["resetex", "release", "h2init", "reset", "conreset"]

H1_DIRTY_VALID = [
    b"GET /a/b?x=1 HTTP/1.1\r\nHost: Ex.org\r\nCookie: a=1\r\nX-Foo: bar\r\n\r\n",
    b"POST /cgi/p.pl/extra?q HTTP/1.1\r\nHost: a.b:8080\r\nContent-Length: 12\r\nContent-Type: a/b\r\nCookie: x\r\nCookie: y\r\n\r\n",
    b"POST /up HTTP/1.1\r\nHost: h\r\nTransfer-Encoding: chunked\r\nExpect: 100-continue\r\n\r\n",
    b"GET http://abs.example/p/../q?z HTTP/1.0\r\nConnection: keep-alive\r\nRange: bytes=0-1\r\nIf-None-Match: \"e\"\r\n\r\n",
    b"HEAD / HTTP/1.0\r\n\r\n",
    b"OPTIONS * HTTP/1.1\r\nHost: o\r\n\r\n",
    b"CONNECT h.example:443 HTTP/1.1\r\nHost: h.example:443\r\n\r\n",
    b"GET /u HTTP/1.1\r\nHost: up\r\nConnection: Upgrade, HTTP2-Settings\r\nUpgrade: h2c\r\nHTTP2-Settings: AAQAAP__\r\n\r\n",
    b"PUT /" + b"p" * 600 + b" HTTP/1.1\r\nHost: long\r\nContent-Length: 0\r\nX-L: " + b"v" * 5000 + b"\r\n\r\n",
    b"DELETE /d HTTP/1.1\r\nhost: D\r\nAuthorization: Basic QQ==\r\nIf-Modified-Since: Sat, 29 Oct 1994 19:43:31 GMT\r\n\r\n",
]
H1_DIRTY_BAD = [
    b"GET /a\x01 HTTP/1.1\r\nHost: x\r\n\r\n",
    b"GET /a HTTP/1.1\r\n\r\n",
    b"POST /p HTTP/1.1\r\nHost: x\r\nContent-Length: 5\r\nContent-Length: 6\r\n\r\n",
    b"POST /p HTTP/1.1\r\nHost: x\r\nContent-Length: 5\r\nTransfer-Encoding: gzip\r\n\r\n",
    b"BREW /p HTTP/1.1\r\nHost: x\r\nCookie: c\r\n\r\n",
    b"GET /p HTTP/1.1\r\nHost: x\r\nHost: y\r\n\r\n",
    b"GET /p HTTP/1.0\r\nHost: x\r\nX-A : b\r\n\r\n",
    b"POST /p HTTP/1.0\r\nHost: x\r\nContent-Length: 7\r\nTransfer-Encoding: chunked\r\n\r\n",
    b"GET /p HTTP/1.1\r\nHost: x\r\nContent-Length: 3\r\n\r\n",
    b"GET /%2e%2e/%00 HTTP/1.1\r\nHost: x\r\nCookie: keep\r\n\r\n",
]


def h2_list(method="GET", path="/x", authority="h.x", scheme="http", extra=(), order=None):
    fs = []
    if method is not None:
        fs.append((":method", method))
    if scheme is not None:
        fs.append((":scheme", scheme))
    if path is not None:
        fs.append((":path", path))
    if authority is not None:
        fs.append((":authority", authority))
    return fs + list(extra)


H2_DIRTY_VALID = [
    h2_list(),
    h2_list("POST", "/cgi/p.pl?q=1", "a.b:8080", extra=[("content-length", "12"), ("content-type", "a/b"), ("cookie", "x"), ("cookie", "y")]),
    h2_list("GET", "/r", "r.x", extra=[("range", "bytes=0-1"), ("if-none-match", "\"e\""), ("te", "trailers")]),
    h2_list("OPTIONS", "*", "o"),
    h2_list("CONNECT", None, "h.example:443", scheme=None),
    h2_list("CONNECT", "/ws", "h.example", extra=[(":protocol", "websocket")])[:4] + [(":protocol", "websocket")],
    h2_list("HEAD", "/" + "p" * 300, "long", extra=[("x-l", "v" * 5000)]),
]
H2_DIRTY_BAD = [
    h2_list(path="/a\x01"),
    h2_list(authority=None),
    h2_list(extra=[("connection", "close")]),
    h2_list(extra=[("transfer-encoding", "chunked")]),
    h2_list("BREW"),
    h2_list(extra=[("content-length", "3"), ("content-length", "4")]),
    h2_list(extra=[("x-a", "b"), (":path", "/late")]),
    h2_list(extra=[("X-Upper", "b")]),
    h2_list(extra=[("te", "gzip")]),
    h2_list(scheme=None),
    [(":method", "GET"), (":method", "POST"), (":scheme", "http"), (":path", "/x"), (":authority", "h")],
]

RESP_HDRS = [("Content-Type", "text/x"), ("Content-Length", "3"), ("Transfer-Encoding", "chunked"), ("ETag", "\"t\""),
             ("Location", "/l"), ("Set-Cookie", "a=1"), ("X-Custom", "c"), ("WWW-Authenticate", "Basic"), ("Allow", "GET"),
             ("Content-Encoding", "gzip"), ("Vary", "Accept-Encoding"), ("Upgrade", "h2c"), ("Connection", "close")]
RQST_HDRS = [("Content-Length", "5"), ("Cookie", "c=1"), ("X-Req", "r"), ("Range", "bytes=0-0"), ("Upgrade", "x"),
             ("Content-Type", "t/t"), ("If-None-Match", "*"), ("Connection", "keep-alive"), ("User-Agent", "ua")]


def spec_pool(rng, pooled):
    """one random dirtying token"""
    k = rng.choice(["parse1", "parse1", "parse2", "m", "v", "st", "state", "hm", "uc", "qh", "host", "rbl", "qhl", "tgt",
                    "to", "usch", "uauth", "upath", "uq", "pp", "pbig", "pb", "pd", "pr", "pi", "snb", "sn", "env", "rh",
                    "rh", "rhi", "wq", "bq", "rdq", "fin", "started", "chunked", "dechunk", "rep", "gw", "loops", "ka",
                    "async", "ehs", "ehm", "ext", "sp", "rhl", "tec", "civ", "cc", "po", "mrfs", "srb", "dst", "cm"]
                   + (["h2r.po", "h2r.civ", "h2r.cc", "h2r.sn", "h2r.cm"] if pooled else []))
    if k == "parse1":
        return "parse1=%d:%s" % (rng.choice(OPTSETS), _hx(rng.choice(H1_DIRTY_VALID)))
    if k == "parse2":
        return "parse2=%d:%s" % (rng.choice(OPTSETS[:3]), _kv(rng.choice(H2_DIRTY_VALID)))
    if k == "m":
        return "m=%d" % rng.choice([0, 1, 3, 6, 7, -2, 20])
    if k == "v":
        return "v=%d" % rng.choice([0, 1, 2, 3])
    if k == "st":
        return "st=%d" % rng.choice([200, 206, 304, 400, 404, 500, 100, -1])
    if k == "state":
        return "state=%d" % rng.choice([1, 2, 4, 5, 7, 8, 9])
    if k in ("hm", "uc", "fin", "started", "chunked", "dechunk", "rep", "gw", "async", "ext", "pbig"):
        return k + "=1"
    if k == "qh":
        return "qh=" + _kv(rng.sample(RQST_HDRS, rng.randint(1, 3)))
    if k == "host":
        return "host=" + _hx(rng.choice(["ex.org", "a.b:80", "x"]))
    if k == "rbl":
        return "rbl=%d" % rng.choice([-1, 1, 5, 100000])
    if k == "qhl":
        return "qhl=%d" % rng.choice([10, 4096, 4097, 60000])
    if k in ("tgt", "to"):
        return k + "=" + _hx(rng.choice(["/t?q", "/", "*", "/x" * 40]))
    if k == "usch":
        return "usch=" + _hx(rng.choice(["http", "https"]))
    if k == "uauth":
        return "uauth=" + _hx(rng.choice(["stale.host", ""]))
    if k in ("upath", "pr"):
        return k + "=" + _hx(rng.choice(["/stale/path", "/", "/a.txt"]))
    if k == "uq":
        return "uq=" + _hx(rng.choice(["stale=1", ""]))
    if k == "pp":
        return "pp=" + _hx(rng.choice(["/docroot/stale/path", "/docroot/a.txt"]))
    if k in ("pb", "pd"):
        return k + "=" + _hx(rng.choice(["/docroot", "/other/root/"]))
    if k == "pi":
        return "pi=" + _hx(rng.choice(["/path/info", "/"]))
    if k == "snb":
        return "snb=" + _hx("name.buf")
    if k == "sn":
        return "sn=" + rng.choice(["buf", "auth"])
    if k == "env":
        return "env=" + _kv(rng.sample([("REMOTE_USER", "alice"), ("REDIRECT_STATUS", "404"), ("K", "V"), ("AUTH_TYPE", "Basic")], rng.randint(1, 2)))
    if k == "rh":
        return "rh=" + _kv(rng.sample(RESP_HDRS, rng.randint(1, 4)))
    if k == "rhi":
        return "rhi=" + _kv([("Set-Cookie", "a"), ("Set-Cookie", "b")] if rng.random() < 0.5 else rng.sample(RESP_HDRS, 2))
    if k in ("wq", "bq", "rdq"):
        return k + "=" + _hx(rng.choice([b"abc", b"x" * 100, b"GET / HTTP/1.1\r\n"]))
    if k == "loops":
        return "loops=%d" % rng.choice([1, 5, 6])
    if k == "ka":
        return "ka=%d" % rng.choice([1, -1])
    if k == "ehs":
        return "ehs=%d" % rng.choice([404, -404, 65535, 500])
    if k == "ehm":
        return "ehm=%d" % rng.choice([0, 1, 3])
    if k == "sp":
        return "sp=%d" % rng.choice([0, 5, 100])
    if k == "rhl":
        return "rhl=%d" % rng.choice([17, 300])
    if k == "tec":
        return "tec=%d" % rng.choice([7, -1, 1000])
    if k in ("civ", "h2r.civ"):
        return "%s=%d" % (k, rng.choice([258, 4294967295, 5, 0]))
    if k in ("cc", "h2r.cc"):
        return "%s=%d:%d:%d" % (k, rng.randint(1, 3), rng.choice([1, 2, 3]), rng.choice([2, 3]))
    if k in ("po", "h2r.po"):
        return "%s=%d" % (k, rng.choice([0, 1, 77, 9567 | 0x8000]))
    if k == "mrfs":
        return "mrfs=%d" % rng.choice([64, 65535])
    if k == "srb":
        return "srb=%d" % rng.choice([1, 2, 0x8000])
    if k == "h2r.sn":
        return "h2r.sn=buf"
    if k == "dst":
        return "dst=0"
    if k in ("cm", "h2r.cm"):
        return "%s=%d" % (k, rng.randint(0, 1))
    raise KeyError(k)


def parse_dump(out):
    d = {}
    for t in out.split(" "):
        if "=" in t:
            k, v = t.split("=", 1)
            d[k] = v
    return d


# fields request_reset()/request_reset_ex() leave alone on purpose (each is written before it is read
# by the next request, or is bookkeeping):  cond cache + validity (response.c / connection accept),
# state (callers), server_name_buf ("reset when used"), physical.doc_root/basedir when physical.path was
# never allocated (cleared again in http_response_prepare), reset-hook call counter
PERSIST_OK = {"civ", "cc", "snb", "pd", "pb", "rc", "state", "cm"}      # cm: regex captures, re-matched before use
PERSIST_OK_RESET_ONLY = {"uauth", "upath", "uq", "to", "sn", "pr"}       # kept for mod_status until request_reset_ex()
PERSIST_OK_H1 = {"rdq", "dst"}      # dst: r->dst_addr(_buf) are restored by mod_extforward's own reset hook, not by request_reset()      # h1: r->read_queue is the connection's queue and may hold the next (pipelined) request
INHERITED_H2 = {"civ", "cc", "po", "sn", "conf", "cm"}


class ResetOracle:
    def __init__(self, baseline, baseline_h2):
        self.base = parse_dump(baseline)
        self.base_h2 = parse_dump(baseline_h2)

    def __call__(self, line, out):
        t = line.split(" ")
        if t[0] == "rp":
            if " | " not in out:
                return None
            a, b = out.split(" | ", 1)
            if b == "bad-op" or a == "bad-op":
                return None
            if a != b:
                return "request parsed differently into a recycled request object than into a fresh one"
            return None
        if t[0] != "rst" or out in ("skip", "bad-op", "<crash>"):
            return None
        op = t[1]
        if op not in ("reset", "resetex", "release", "h2init", "conreset", "kaend"):
            return None
        d = parse_dump(out)
        if d.get("rc") != "110":
            return "request reset did not call every module's handle_request_reset hook exactly once"
        # the harness' third module has no reset hook: its slot legitimately survives (request_reset() does not
        # clear plugin_ctx[] itself); slots of modules WITH a hook must be empty
        if len(d.get("pctx", "")) == 4:
            if d["pctx"][3] != ("1" if any(x == "uc=1" for x in t[2:]) else "0"):
                return "plugin_ctx slot of a module without reset hook changed by the reset functions"
            d["pctx"] = d["pctx"][:3] + "0"
        base = self.base_h2 if op == "h2init" else self.base
        allow = set(PERSIST_OK)
        if op in ("reset", "conreset", "kaend"):
            allow |= PERSIST_OK_RESET_ONLY
        if op in ("reset", "conreset", "resetex", "kaend"):
            allow |= PERSIST_OK_H1
        if op == "kaend":
            # accounting checkpoints of the next keep-alive request: bytes_written_ckpt / bytes_read_ckpt
            allow |= {"x", "state"}
            rdq = d.get("rdq", "0:0:0").split(":")
            wq = d.get("wq", "0:0:0").split(":")
            if d.get("x") != "%s:%s:0" % (wq[2], rdq[1]) or d.get("state") != "1":
                return "keep-alive checkpoints / state after connection_handle_response_end_state() are wrong"
        if op in ("release", "h2init"):
            allow.discard("state")
            if out.startswith("same=0"):
                return "request_acquire() did not reuse the released object"
        if op == "h2init":
            allow |= INHERITED_H2
            want = {}
            for tok in t[2:]:
                if tok.startswith("h2r.civ="):
                    want["civ"] = tok.split("=", 1)[1]
                if tok.startswith("h2r.po="):
                    want["po"] = tok.split("=", 1)[1]
            cc = base["cc"].split(",")
            for tok in t[2:]:
                if tok.startswith("h2r.cc="):
                    i, a, b = tok.split("=", 1)[1].split(":")
                    cc[int(i)] = "%s:%s" % (a, b)
            want["cc"] = ",".join(cc)
            cm = ["n"] * len(base.get("cm", ""))
            for tok in t[2:]:
                if tok.startswith("h2r.cm="):
                    cm[int(tok.split("=", 1)[1])] = "h"
            want["cm"] = "".join(cm)
            for k, v in want.items():
                if d.get(k) != v:
                    return "HTTP/2 stream does not inherit %s from the connection request" % k
        bad = sorted(k for k in base if k not in allow and d.get(k) != base[k])
        if bad:
            return "after the reset functions the request object still carries state of the previous request: %s" % ",".join(bad[:3])
        return None


def reset_classify(line, out):
    t = line.split(" ")
    if t[0] == "rp":
        a = out.split(" | ")[0].split(" ")
        return "rp:%s:%s:%s" % (t[1], t[3], " ".join(a[:2]) if a[0] == "err" else a[0] + ":" + a[1])
    if out in ("skip", "bad-op"):
        return "rst:%s:%s" % (t[1], out)
    kinds = sorted(set(x.split("=", 1)[0] for x in t[2:]))
    if len(kinds) <= 2:
        return "rst:%s:%s" % (t[1], "+".join(kinds))
    return "rst:%s:n%d" % (t[1], min(len(kinds), 12))


def gen_rst(ctx):
    rng = ctx.rng
    lines = []
    singles = set()
    for _ in range(4000):
        singles.add(spec_pool(rng, True))
    singles = sorted(singles)
    for op in RST_OPS:
        pooled = op in ("release", "h2init")
        lines.append("rst " + op)
        for s in singles:
            if s.startswith("h2r.") and not pooled:
                continue
            lines.append("rst %s %s" % (op, s))
    n = 16000 if ctx.quick else 250000
    for _ in range(n):
        op = rng.choice(RST_OPS[:6] * 3 + RST_OPS)
        pooled = op in ("release", "h2init")
        k = rng.choice([2, 2, 3, 4, 6, 9, 14])
        toks = [spec_pool(rng, pooled) for _ in range(k)]
        # at most one real parse, placed first (a parse on top of arbitrary dirt is not a server state)
        ps = [x for x in toks if x.startswith("parse")]
        toks = ps[:1] + [x for x in toks if not x.startswith("parse")]
        lines.append("rst %s %s" % (op, " ".join(toks)))
    return lines


def h2_probe(rng):
    if rng.random() < 0.7:
        base = rng.choice(H2_DIRTY_VALID)
    else:
        base = rng.choice(H2_DIRTY_BAD)
    fs = list(base)
    if rng.random() < 0.35:       # another method: a rejected HEAD must stay a HEAD (no body in the error response)
        m = rng.choice(["HEAD", "HEAD", "POST", "OPTIONS", "DELETE", "QUERY"])
        fs = [(k, m if k == ":method" and v == "GET" else v) for k, v in fs]
    if rng.random() < 0.3:
        fs.append(rng.choice([("x-extra", "1"), ("cookie", "z=9"), ("accept", "*/*"), ("x-ws", "  padded \t"), ("empty", "")]))
    if rng.random() < 0.1 and len(fs) > 1:
        i = rng.randrange(len(fs))
        fs[i], fs[-1] = fs[-1], fs[i]
    return fs


def gen_rp(ctx):
    from . import c01
    rng = ctx.rng
    lines = []
    nskip = 0
    n = 14000 if ctx.quick else 200000
    for _ in range(n):
        h2 = rng.random() < 0.4
        op = rng.choice(RECYCLE_OPS if not h2 else ["release", "h2init", "h2init", "resetex"])
        pooled = op in ("release", "h2init")
        toks = []
        r = rng.random()
        if r < 0.45:
            toks.append("parse1=%d:%s" % (rng.choice(OPTSETS), _hx(rng.choice(H1_DIRTY_VALID + H1_DIRTY_BAD))))
        elif r < 0.75:
            toks.append("parse2=%d:%s" % (rng.choice(OPTSETS[:3]), _kv(rng.choice(H2_DIRTY_VALID + H2_DIRTY_BAD))))
        elif r < 0.85:
            toks.append("parse1=%d:%s" % (rng.choice(OPTSETS), _hx(c01.build(rng, 0.6))))
        for _ in range(rng.choice([0, 1, 2, 4, 8])):
            s = spec_pool(rng, pooled)
            if not s.startswith("parse"):
                toks.append(s)
        opts = rng.choice(OPTSETS)
        if h2:
            probe = _kv(h2_probe(rng))
        else:
            rr = rng.random()
            blk = rng.choice(H1_DIRTY_VALID + H1_DIRTY_BAD) if rr < 0.5 else c01.build(rng, 0.7)
            if blk.startswith(b"GET ") and rng.random() < 0.3:
                blk = b"HEAD " + blk[4:]         # a rejected HEAD must stay a HEAD
            probe = _hx(blk)
        if not h2 and b"[" in blk:
            nskip += 1          # IPv6-literal hosts are not modelled (inet_pton), as in C01
            continue
        lines.append("rp %s %d %s %s ; %s" % ("h2" if h2 else "h1", opts, op, " ".join(toks), probe))
    ctx.dist["rp:skipped-ipv6-literal-host"] = nskip
    return lines


def run_inproc(ctx):
    exe, err = C.build_harness("h_reset")
    if exe is None:
        ctx.broken.append({"kind": "harness-build", "names": ["h_reset"], "log": err[-3000:]})
        return None
    base, rc, e = C.run_lines([exe], ["rst none", "rst h2init"])
    if rc != 0 or len(base) != 2:
        ctx.violation("crash:h_reset:baseline", "h_reset crashed on the baseline case",
                      {"property": ctx.pid, "kind": "sanitizer-or-crash", "correspondence": "reset(h_reset)",
                       "input": "rst none", "stderr": e[-3000:]}, found=True)
        return None
    oracle = ResetOracle(base[0], base[1])
    rst = gen_rst(ctx)
    ctx.differential("reset(h_reset)", [exe], "server", rst, oracle, reset_classify)
    rp = gen_rp(ctx)
    ctx.differential("parse-into-recycled(h_reset)", [exe], "server", rp, oracle, reset_classify)
    return exe


# =====================================================================================
# error-handler bookkeeping (h_errh.c vs Model/ErrHandler.lean)
# =====================================================================================
EH_STATUS = [0, 200, 204, 301, 304, 401, 403, 404, 500, 503]
EH_SAVED = [0, 404, 500, -404, -403, 65535]
EH_METHODS = [0, 1, 3, 5, -1]


def _eh_line(cfg, st, me, ve, sv, sm, hm, rbl, bi, ka, up, h2, pp, ww, ro, bl, rbf, passes=()):
    t = ["eh"] + [str(x) for x in (cfg[0], cfg[1], cfg[2], st, me, ve, sv, sm, hm, rbl, bi, ka, up, h2, pp,
                                   ww, ro, bl, rbf)]
    return " ".join(t + ["%d,%d" % p for p in passes])


def gen_eh(ctx):
    rng = ctx.rng
    quick = ctx.tier == "quick"
    lines = []

    def rest():
        return (rng.choice([0, 1]), rng.choice([0, 1]), rng.choice([0, 1]), rng.choice([0, 1]),
                rng.choice([0, 1]), rng.choice([0, 3]), rng.choice([0, 1]))
    # exhaustive small scope, single call of http_response_has_error_handler()
    for eh in (0, 1):
        for eh4 in (0, 1):
            for ic in (0, 1):
                for st in EH_STATUS:
                    for sv in EH_SAVED:
                        for hm in (0, 1):
                            for rbl, bi in ((0, 0), (5, 5), (5, 3), (-1, 7)):
                                for ve in (-1, 1):
                                    lines.append(_eh_line((eh, eh4, ic), st, rng.choice(EH_METHODS), ve, sv,
                                                          rng.choice(EH_METHODS), hm, rbl, bi, rng.choice([0, 1]),
                                                          *rest()))
                                    ctx.dist["eh:step-exhaustive"] += 1
    # random single steps
    for _ in range(4000 if quick else 60000):
        lines.append(_eh_line([rng.choice([0, 1]) for _ in range(3)], rng.choice(EH_STATUS + [rng.randrange(100, 600)]),
                              rng.choice(EH_METHODS), rng.choice([-1, 0, 1, 2]), rng.choice(EH_SAVED),
                              rng.choice(EH_METHODS), rng.choice([0, 1]), rng.choice([0, 0, 5, -1]),
                              rng.choice([0, 3, 5]), rng.choice([0, 1]), *rest()))
        ctx.dist["eh:step-random"] += 1
    # the loop of http_response_handler() from the state request_reset() leaves (saved status 0), each case
    # twice with different stale error_handler_saved_method values
    for _ in range(4000 if quick else 60000):
        cfg = [rng.choice([0, 1]) for _ in range(3)]
        n = rng.choice([1, 2, 2, 3, 4])
        passes = [(rng.choice([0, 200, 206, 301, 403, 404, 404, 500]), rng.choice([0, 0, 1])) for _ in range(n)]
        me, ve = rng.choice(EH_METHODS), rng.choice([-1, 0, 1, 2])
        rbl, bi = rng.choice([(0, 0), (0, 0), (5, 5), (5, 2), (-1, 9)])
        ka = rng.choice([0, 1])
        r7 = rest()
        sv = 0 if rng.random() < 0.9 else rng.choice(EH_SAVED)
        a, b = rng.sample(EH_METHODS + [7, 9], 2)
        for sm in (a, b):
            lines.append(_eh_line(cfg, 0, me, ve, sv, sm, 0, rbl, bi, ka, *r7, passes=passes))
        ctx.dist["eh:loop-pairs:passes=%d%s" % (n, "" if sv == 0 else ":dirty-start")] += 1
    return lines


class EhOracle:
    """independent statement on the implementation's output: from error_handler_saved_status == 0 the stale
    error_handler_saved_method must not matter; the error handler is never installed twice (at most one
    come-back); after server.error-handler ran, the original method and the original error status are back"""
    def __init__(self):
        self.seen = {}

    def __call__(self, line, out):
        t = line.split()
        if len(t) <= 20 or out in ("bad-op",):
            return None
        sv = int(t[7])
        key = " ".join(t[:8] + t[9:])
        if sv == 0:
            prev = self.seen.setdefault(key, out)
            if prev != out:
                return "answer depends on the stale error_handler_saved_method: %s vs %s" % (prev, out)
        if sv != 0:
            return None
        passes = [tuple(int(x) for x in p.split(",")) for p in t[20:]]
        if out == "fuel":
            return "no answer after %d passes" % len(passes) if len(passes) >= 2 else None
        f = out.split()
        k = int(f[-1])
        if k > 1:
            return "error handler installed more than once (pass %d reached)" % k
        eh, eh4, ic = int(t[1]), int(t[2]), int(t[3])
        st0 = passes[0][0] or 200
        if k == 1 and eh and (not passes[0][1] or ic):
            if int(f[1]) != int(t[5]):
                return "method not restored after server.error-handler: %s, request had %s" % (f[1], t[5])
            if (not passes[1][1] or ic) and int(f[0]) != st0:
                return "status %s after server.error-handler, the request's own error was %d" % (f[0], st0)
        if k == 0 and st0 >= 400 and (not passes[0][1] or ic) and (eh or (eh4 and st0 == 404)) and len(passes) >= 2:
            return "configured error handler not called for status %d" % st0
        return None


def eh_classify(line, out):
    t = line.split()
    f = out.split()
    return "eh:%s:cfg=%s%s%s:%s" % ("loop" if len(t) > 20 else "step", t[1], t[2], t[3],
                                     ":".join([f[0], f[3] if f[3] in ("0", "65535") else ("+" if int(f[3]) > 0 else "-"),
                                               f[-1]]) if len(f) > 4 else out)


def run_errh(ctx):
    exe, err = C.build_harness("h_errh")
    if exe is None:
        ctx.broken.append({"kind": "harness-build", "names": ["h_errh"], "log": err[-3000:]})
        return
    ctx.differential("error-handler(h_errh)", [exe], "server", gen_eh(ctx), EhOracle(), eh_classify,
                     stateless=False)


# =====================================================================================
# end-to-end metamorphic stream
# =====================================================================================
H1_MODES = ["keepalive", "recycled", "pipelined", "otherconn"]
H2_MODES = ["sequential", "recycled", "concurrent", "burst", "otherconn", "h2c"]
MUST_ANSWER = {"alone", "segmented", "keepalive", "recycled", "otherconn", "sequential", "h2c", "h2c-probe"}
ALL_REQS = PROBES + HIST_ONLY


def case_desc(case):
    return {"ver": ["HTTP/1.0", "HTTP/1.1", "HTTP/2"][case["ver"]], "mode": case["mode"],
            "history": [h.tag for h in case["hist"]], "probe": case["probe"].tag,
            "hist_idx": [ALL_REQS.index(h) for h in case["hist"]], "probe_idx": PROBES.index(case["probe"]),
            "nseg": case.get("nseg", 1)}


def hist_kind(q):
    if q.abort is not None:
        return "aborted"
    if q.raw_h1 is not None:
        return "malformed"
    if q.body is not None:
        return "bodied"
    if any(k.lower() == "range" for k, _ in q.headers):
        return "ranged"
    if any(k.lower() == "authorization" for k, _ in q.headers) or q.target.startswith("/auth/"):
        return "auth"
    if "env.pl" in q.target:
        return "cgi"
    return "plain"


def gen_cases(ctx):
    rng = ctx.rng
    per = 4 if ctx.quick else 66
    kinds = {}
    for q in ALL_REQS:
        kinds.setdefault(hist_kind(q), []).append(q)
    kind_names = sorted(kinds)
    cases = []
    k = 0
    for pi, q in enumerate(PROBES):
        for ver in (0, 1, 2):
            modes = list(H1_MODES if ver < 2 else H2_MODES)
            rng.shuffle(modes)
            for j in range(per):
                mode = modes[j % len(modes)]
                n = rng.choice([1, 1, 2, 3, 4, 6])
                hist = []
                # every history carries one request of a rotating kind (successful / failing / bodied /
                # ranged / authenticated / aborted / cgi) plus random others
                hist.append(rng.choice(kinds[kind_names[k % len(kind_names)]]))
                k += 1
                while len(hist) < n:
                    hist.append(rng.choice(ALL_REQS))
                rng.shuffle(hist)
                c = dict(ver=ver, mode=mode, hist=hist, probe=q)
                if mode == "pipelined" and rng.random() < 0.4:
                    c["nseg"] = rng.choice([2, 3, 7])
                cases.append(c)
            # one delivery-only variation per (probe, version): many TCP segments / upgraded connection
            if ver < 2:
                cases.append(dict(ver=ver, mode="segmented", hist=[], probe=q, nseg=rng.choice([2, 3, 5, 11])))
            elif q.body is None and (ctx.quick is False or pi % 3 == 0):
                cases.append(dict(ver=2, mode="h2c-probe", hist=[], probe=q))
    # every request of the pool once as the only history of the CGI environment probe (keep-alive / later stream)
    envp = [q for q in PROBES if q.tag == "GET env q"][0]
    for h in ALL_REQS:
        cases.append(dict(ver=1, mode="keepalive", hist=[h], probe=envp))
        cases.append(dict(ver=2, mode="sequential", hist=[h], probe=envp))
        if h.abort is None:
            cases.append(dict(ver=1, mode="pipelined", hist=[h], probe=envp))
    if ctx.quick:
        # the upgrade path for a few fixed probes in every run
        for pi in (1, 25, 13):
            cases.append(dict(ver=2, mode="h2c-probe", hist=[], probe=PROBES[pi]))
    return cases


# ---- modelled part of the site: what the Lean connection automaton predicts
MODEL_HDRS = {"content-type", "content-length", "location", "allow", "etag", "www-authenticate"}


def modelled_requests():
    R = []
    for t in ["/", "/files/a.txt", "/files/b.txt", "/files/empty.txt", "/files/noext", "/files/page.html", "/files/sub/",
              "/files/sub", "/files/sub/c.css", "/files/noindex/", "/files/missing.txt", "/files/x.inc",
              "/files/%61.txt?a=b?c", "/files/./sub/../b.txt", "/noka/k.txt", "/list", "/files/sub?x=1", "/nothere/"]:
        R.append(Req("GET", t))
    R += [Req("HEAD", "/files/a.txt"), Req("HEAD", "/files/missing.txt"), Req("HEAD", "/files/sub"),
          Req("OPTIONS", "/files/a.txt"), Req("OPTIONS", "*"), Req("OPTIONS", "/files/missing.txt"),
          Req("DELETE", "/files/a.txt"), Req("GET", "/", authority="vhost.test"),
          Req("GET", "/files/a.txt", authority="vhost.test"), Req("GET", "/files/b.txt", [("X-Variant", "b")]),
          Req("GET", "/files/b.txt", [("X-Variant", "c")]),
          Req("GET", "/files/b.txt", [("If-None-Match", "\"nomatch\"")]),
          Req("GET", "/files/page.html", [("If-None-Match", "*")]),
          Req("HEAD", "/files/page.html", [("If-None-Match", "*")]),
          Req("GET", "/files/b.txt", [("Connection", "close")], raw_h2=[(":method", "GET"), (":scheme", "http"),
                                                                        (":path", "/files/b.txt"), (":authority", "c08.test")]),
          Req("GET", "/files/a.txt", [("Cookie", "a=1"), ("Cookie", "b=2"), ("Accept", "*/*")])]
    get_b = b"GET /files/b.txt HTTP/1.1\r\nHost: c08.test\r\n\r\n"
    R += [Req("POST", "/cgi/sink.pl", [("Content-Type", "text/plain")], body=b"abc", tag="m:post-sink"),
          Req("POST", "/cgi/sink.pl", [("X-Variant", "b")], body=b"x" * 5000, tag="m:post-sink-5k"),
          Req("GET", "/cgi/sink.pl"),
          Req("POST", "/files/a.txt", [("Content-Length", "300000")], tag="m:413", no_end=True),
          Req("GET", "/h10/k.txt"), Req("HEAD", "/h10/k.txt"), Req("GET", "/h10/missing"),
          Req("HEAD", "*"), Req("HEAD", "/files/a\x01.txt", tag="HEAD bad-ctl"),
          Req("HEAD", "/files/a.txt", [("TE", "gzip")], tag="HEAD te-gzip"),
          Req("GET", "/files/b.txt", raw_h1=b"\r\n" + get_b, tag="m:blank-get"),
          Req("GET", "/files/b.txt", raw_h1=b"\n" + get_b, tag="m:lf-get"),
          Req("GET", "/files/b.txt", raw_h1=b"\r\n\r\n" + get_b, tag="m:blank2-get"),
          Req("GET", "/files/b.txt", raw_h1=b"\r\n", tag="m:lone-blank", no_response=True)]
    R += [h for h in HIST_ONLY if h.tag in ("h:bad-ctl", "h:no-host-11", "h:bad-version", "h:431", "h:unknown-method",
                                           "h:two-cl", "h:te-gzip")]
    return R


def model_site_tokens(srv, etags):
    toks = ["root=" + _hx(srv.docroot), "maxka=1000", "gextra=" + _kv([("X-Global", "g")]), "idx=" + _hx("index.html"),
            "deny=" + _hx("~"), "deny=" + _hx(".inc"), "excl=" + _hx(".pl"), "excl=" + _hx(".shtml")]
    ctypes = {".html": "text/html", ".txt": "text/plain", ".bin": "application/octet-stream", ".css": "text/css"}

    def add_tree(base, files, urlbase):
        dirs = {base}
        for rel, data in files.items():
            if len(data) > 2000:
                continue
            p = base + "/" + rel
            d = os.path.dirname(p)
            while len(d) >= len(base):
                dirs.add(d)
                d = os.path.dirname(d)
            ext = os.path.splitext(rel)[1]
            ct = ctypes.get(ext, "application/octet-stream")
            toks.append("n=%s:f:%s:%s:%s" % (_hx(p), _hx(ct), _hx(data), _hx(etags.get(urlbase + rel, ""))))
        for d in sorted(dirs):
            toks.append("n=%s:d:-:-:-" % _hx(d))
            toks.append("n=%s:d:-:-:-" % _hx(d + "/"))
    add_tree(srv.docroot, SITE_FILES, "c08.test/")
    add_tree(os.path.join(srv.root, "vhost"), VHOST_FILES, "vhost.test/")
    star = "*"
    toks.append("sc=h;%s;-;%s;*;*;%s" % (_hx("vhost.test"), _kv([("X-Vhost", "1")]), _hx(os.path.join(srv.root, "vhost"))))
    toks.append("sc=u;%s;-;%s;*;*;*" % (_hx("/files/"), _kv([("X-Url-Files", "1")])))
    toks.append("sc=u;%s;-;%s;*;*;*" % (_hx("/files/a"), _kv([("X-Url-A", "1")])))
    toks.append("sc=m;%s;-;%s;*;*;*" % (_hx("POST"), _kv([("X-Was-Post", "1")])))
    toks.append("sc=q;%s;%s;%s;*;*;*" % (_hx("x-variant"), _hx("b"), _kv([("X-Variant-Seen", "b")])))
    toks.append("sc=u;%s;-;*;*;0;*" % _hx("/noka/"))
    toks.append("sc=u;%s;-;*;*;*;*;0" % _hx("/h10/"))
    toks += ["sink=" + _hx(".pl"), "sinkbody=" + _hx("ok\n"), "sname=" + _hx("c08.test"), "maxreq=256"]
    return toks


def real_to_model_obs(o, closed):
    """project a real observation on what the model predicts: status,ka,body,selected headers"""
    hs = sorted("%s=%s" % (_hx(k), _hx(v)) for k, v in o["headers"] if k in MODEL_HDRS or k.startswith("x-"))
    body = o["body"] if isinstance(o["body"], bytes) else b"?"
    return "%d,%s,%s,%s" % (o["status"], "0" if closed else "1", _hx(body), ";".join(hs) if hs else "-")


def h1_sequence(srv, ver, reqs):
    """send the requests one after another on one keep-alive connection; returns list of
    (observation, connection-closed-after) up to the point the server closed"""
    c = H1Client(srv.port)
    out = []
    try:
        for q in reqs:
            if q.no_response:          # (only after a request that left the connection open: the server waits)
                c.send(q.h1(ver))
                out.append(("skip", False))
                continue
            c.heads.append(q.is_head())
            c.send(q.h1(ver))
            rs, err = c.read(len(c.heads))
            if len(rs) < len(c.heads):
                out.append((None, True))
                break
            r = rs[-1]
            cl = (e2e.hdr(r, "connection") or b"").lower()
            closed = b"close" in cl or c.closed or ((ver == 0 or r.get("version") == b"1.0") and b"keep-alive" not in cl)
            o = make_obs(r["status"], r["headers"], r["body"], srv)
            o["body"] = r["body"]
            out.append((o, closed))
            if closed:
                break
    finally:
        c.close()
    return out


def h2_sequence(srv, reqs):
    c = H2Client(srv.port)
    out = []
    try:
        for q in reqs:
            sid = c.request(q)
            st = c.wait([sid])
            d = st.get(sid) if "error" not in st else None
            if d is None or not [1 for k, _ in d["headers"] if k == b":status"]:
                out.append((None, True))
                break
            o = h2_obs(d, srv)
            o["body"] = d["body"]
            out.append((o, False))
            if c.goaway():
                break
    finally:
        c.close()
    return out


def model_msg(q, ver):
    if ver == 2:
        return ("0/" if q.body is not None or q.no_end else "1/") + _kv(q.h2_fields())
    return _hx(q.h1(ver))


def decoding_problem(o, q):
    """independent check of a coded representation: the body must decode, under the declared
    Content-Encoding, to the file the request names"""
    import zlib
    if o is None or o["status"] != 200 or not isinstance(o["body"], bytes):
        return None
    ce = [v for k, v in o["headers"] if k == "content-encoding"]
    if not ce:
        return None
    rel = q.target.split("?")[0].lstrip("/")
    want = (VHOST_FILES if q.authority == "vhost.test" else SITE_FILES).get(rel)
    if want is None:
        return None
    try:
        if ce[0] == "gzip":
            got = zlib.decompress(o["body"], 16 + 15)
        elif ce[0] == "deflate":
            try:
                got = zlib.decompress(o["body"])
            except zlib.error:
                got = zlib.decompress(o["body"], -15)
        else:
            return None
    except zlib.error as ex:
        return "body is not valid %s data (%s)" % (ce[0], ex)
    return None if got == want else "decoded %s body differs from the file" % ce[0]


def cold_job(bd, items):
    """each probe as the very first request a fresh server process (empty caches, new objects) ever sees"""
    out = []
    for pi, ver in items:
        srv = new_server(bd)
        try:
            with srv:
                o, log, note = run_case(srv, dict(ver=ver, mode="alone", hist=[], probe=PROBES[pi]))
            out.append((pi, ver, o, note, srv.sanitizer_report()))
        except Exception as ex:
            out.append((pi, ver, None, "server error %r" % (ex,), None))
        finally:
            import shutil
            shutil.rmtree(srv.root, ignore_errors=True)
    return out


def deep_pipeline(srv, rng, size=None):
    """>= 110 KiB of pipelined requests written while the server is busy with a slow first request (so that
    they wait, unprocessed, in the server's read buffer); every answer is compared with the answer to the
    same bytes sent alone on a fresh connection.  `size`: every request (the slow one too) is padded to
    exactly that many octets, so that request boundaries fall on the boundaries of the server's read
    buffers (power of two); None: mixed lengths, requests straddle the buffers.
    Returns (number compared, list of problems)."""
    nreq = PIPE_N if size is None else max(PIPE_N * 1024 // size, 40)
    reqs = []
    for j in range(nreq):
        i = j % PIPE_N
        r = rng.random()
        if r < 0.72:
            q = Req("GET", "/deep/%03d.txt" % i)
        elif r < 0.8:
            q = Req("HEAD", "/deep/%03d.txt" % i)
        elif r < 0.88:
            q = Req("GET", "/deep/missing-%03d" % i)
        elif r < 0.94:
            q = Req("GET", "/files/b.txt?n=%d" % i, [("X-Variant", "b")])
        else:
            q = Req("GET", "/deep/%03d.txt" % i, [("If-None-Match", "\"none-%d\"" % i)])
        want = size or rng.choice([1024, 1024, 1024, 960, 1100])
        q.headers.append(("X-Pad", "a" * max(1, want - len(q.h1(1)) - 9)))
        reqs.append(q)
    slow = Req("GET", "/cgi/slow.pl")
    if size:
        slow.headers.append(("X-Pad", "a" * max(1, size - len(slow.h1(1)) - 9)))
    refs = []
    for q in reqs:
        c = H1Client(srv.port)
        try:
            c.heads.append(q.is_head())
            c.send(q.h1(1))
            rs, err = c.read(1)
            refs.append(obs_key(h1_obs(rs[0], srv)) if rs else None)
        finally:
            c.close()
    c = H1Client(srv.port)
    problems = []
    try:
        c.s.setsockopt(socket.SOL_SOCKET, socket.SO_SNDBUF, 1 << 20)
        c.heads = [False] + [q.is_head() for q in reqs]
        c.send(slow.h1(1))
        time.sleep(0.25)
        c.send(b"".join(q.h1(1) for q in reqs))
        rs, err = c.read(1 + len(reqs), timeout=25.0)
    finally:
        c.close()
    if not rs and err and err != "timeout (None)":
        # the response stream is not a sequence of HTTP responses matching the requests (e.g. a body where a
        # HEAD was asked): answers do not belong to their requests
        return len(reqs), [{"index": -1, "offset": 0, "request": "(whole pipeline)", "alone": "(parseable)",
                            "pipelined": "response stream cannot be parsed: " + err[:200], "status": None}]
    if len(rs) < 1 or rs[0]["status"] != 200 or rs[0]["body"] != b"slow\n":
        return 0, []                       # the slow request itself failed: inconclusive, not a verdict
    n = 0
    off = 0
    for i, q in enumerate(reqs):
        got = obs_key(h1_obs(rs[1 + i], srv)) if 1 + i < len(rs) else None
        if refs[i] is not None:
            n += 1
            if got != refs[i]:
                a = h1_obs(rs[1 + i], srv) if 1 + i < len(rs) else None
                problems.append({"index": i, "offset": off, "request": q.tag,
                                 "alone": repr(refs[i])[:300], "pipelined": repr(got)[:300],
                                 "status": a["status"] if a else None})
        off += len(q.h1(1))
    return n, problems


def source_addresses(srv, rng):
    """clients from several 127.0.0.0/8 source addresses (more than the server caches, text lengths going
    up and down); the CGI environment of each request must name the client that sent it, and must be the
    same every time that client asks.  Returns (number compared, problems) or None if binding is impossible."""
    short = ["127.0.0.%d" % rng.randrange(2, 10) for _ in range(3)]
    mid = ["127.0.0.%d" % rng.randrange(10, 100) for _ in range(3)]
    long_ = ["127.0.0.%d" % rng.randrange(100, 255) for _ in range(4)] + ["127.100.%d.200" % rng.randrange(100, 255)]
    visits = []
    for _ in range(2):
        a = rng.choice(short)
        visits += [a] + rng.sample(long_, 4) + [a, a] + rng.sample(mid, 2) + rng.sample(long_, 3) + [rng.choice(mid)] * 2 + [a]
    visits += [rng.choice(short + mid + long_) for _ in range(8)]
    first = {}
    problems = []
    n = 0
    q = Req("GET", "/cgi/env.pl?who=addr")
    for vi, src in enumerate(visits):
        try:
            c = H1Client(srv.port, src=src)
        except OSError as ex:
            if vi == 0:
                return None
            problems.append({"visit": vi, "src": src, "problem": "connect failed: %r" % (ex,)})
            continue
        try:
            c.heads.append(False)
            c.send(q.h1(1))
            rs, err = c.read(1)
        finally:
            c.close()
        if not rs:
            continue
        env = norm_body(rs[0]["body"], srv)
        if not isinstance(env, dict):
            continue
        n += 1
        if env.get("REMOTE_ADDR") != src:
            problems.append({"visit": vi, "src": src, "history": visits[:vi], "key": "REMOTE_ADDR",
                             "problem": "REMOTE_ADDR=%s for a client connecting from %s" % (env.get("REMOTE_ADDR"), src)})
        elif src in first and first[src] != env:
            ks = sorted(k for k in set(env) | set(first[src]) if env.get(k) != first[src].get(k))
            problems.append({"visit": vi, "src": src, "history": visits[:vi], "key": "+".join(ks)[:60],
                             "problem": "environment differs from this client's first request: %s" % ks})
        first.setdefault(src, env)
    return n, problems


def windowed_downloads(srv, rng):
    """concurrent HTTP/2 downloads while the client keeps the connection window at its initial 65535 octets
    (stream windows are large): the server may not send more than the connection window allows, and once
    the window is opened every stream must deliver the same body as the request alone.
    Returns (number of checks, problems)."""
    big = SITE_FILES["files/big.bin"]
    nstreams = rng.choice([2, 2, 3])
    c = H2Client(srv.port, preface=False)
    problems = []
    try:
        c.send(e2e.H2_PREFACE + e2e.h2_settings(((4, 1 << 24),)))     # stream windows 16 MiB, connection window untouched
        q = Req("GET", "/files/big.bin")
        sids = [c.open(q) for _ in range(nstreams)]

        def data_len(fs):
            return sum(len(pl) for t, fl, sid, pl in fs if t == 0)
        end = time.time() + 6.0
        while time.time() < end and not c.closed:          # until the server has been silent for 0.4 s
            n0 = len(c.frames)
            c.pump(0.4, until=lambda fs: len(fs) > n0)
            if len(c.frames) == n0 and data_len(c.frames) > 0:
                break
        got = data_len(c.frames)
        if got > 65535:
            problems.append({"key": "connection-window-overrun",
                             "problem": "%d octets of DATA on %d concurrent streams although the connection flow-control "
                                        "window is 65535 and was never enlarged" % (got, nstreams)})
        c.send(e2e.h2_window_update(0, 1 << 30))
        st = c.wait(sids, timeout=15.0)
        for sid in sids:
            d = st.get(sid) if "error" not in st else None
            if d is None:
                if got > 0:            # (otherwise the server never got going: inconclusive)
                    problems.append({"key": "unanswered", "problem": "stream %d got no complete response after the window was opened" % sid})
            elif d["body"] != big:
                problems.append({"key": "body", "problem": "stream %d: body of %d octets differs from the file (%d octets) "
                                                            "the request alone gets" % (sid, len(d["body"]), len(big))})
    finally:
        c.close()
    return nstreams + 1, problems


def wide_job(bd, seed):
    """own server: deep pipeline, client source addresses"""
    import random, shutil
    rng = random.Random(seed)
    res = {"pipe": None, "addr": None, "win": None, "san": None, "error": None, "seed": seed}
    srv = new_server(bd)
    try:
        with srv:
            n1, p1 = deep_pipeline(srv, rng, size=rng.choice([1024, 1024, 512, 2048]))
            n2, p2 = deep_pipeline(srv, rng)
            res["pipe"] = (n1 + n2, p1 + p2)
            res["addr"] = source_addresses(srv, rng)
            res["win"] = windowed_downloads(srv, rng)
        res["san"] = srv.sanitizer_report()
    except Exception as ex:
        import traceback
        res["error"] = "%r\n%s" % (ex, traceback.format_exc())
    finally:
        shutil.rmtree(srv.root, ignore_errors=True)
    return res


def server_job(bd, jobs, seqs, quick):
    """one server process: references for every probe, then its shard of cases and of modelled sequences;
    a server that never answered anything (start-up lost to machine load) is started once more"""
    res = _server_job(bd, jobs, seqs, quick)
    if res["error"] and not res["refs"] and not res["san"]:
        time.sleep(1.0)
        res = _server_job(bd, jobs, seqs, quick)
    return res


def _server_job(bd, jobs, seqs, quick):
    res = {"cases": [], "refs": {}, "seqs": [], "san": None, "error": None, "closing": {}}
    srv = new_server(bd)
    try:
        with srv:
            for pi, q in enumerate(PROBES):
                for ver in (0, 1, 2):
                    o, log, note = run_case(srv, dict(ver=ver, mode="alone", hist=[], probe=q))
                    res["refs"][(pi, ver)] = (o, note)
            for case in jobs:
                o, log, note = run_case(srv, case)
                res["cases"].append((case, o, log, note))
            if seqs:
                etags = {}
                for host, files in (("c08.test", SITE_FILES), ("vhost.test", VHOST_FILES)):
                    for rel in files:
                        if len(files[rel]) > 2000:
                            continue
                        r = h1_sequence(srv, 1, [Req("GET", "/" + rel, authority=host)])
                        if r and r[0][0] is not None:
                            et = [v for k, v in r[0][0]["headers"] if k == "etag"]
                            if et and r[0][0]["status"] == 200:
                                etags[host + "/" + rel] = et[0]
                site = model_site_tokens(srv, etags)
                for ver, reqs in seqs:
                    real = h2_sequence(srv, reqs) if ver == 2 else h1_sequence(srv, ver, reqs)
                    line = "conn %d %s -- %s" % (2 if ver == 2 else 1, " ".join(site), " ".join(model_msg(q, ver) for q in reqs))
                    res["seqs"].append((ver, reqs, real, line))
            res["alive"] = srv.alive()
        res["san"] = srv.sanitizer_report()
        res["root"] = srv.root
    except Exception as ex:           # server did not start / died
        import traceback
        res["error"] = "%r\n%s\n%s" % (ex, traceback.format_exc(), srv.logs()[-2000:])
        res["san"] = srv.sanitizer_report() if hasattr(srv, "stderr_path") else None
    return res


def gen_sequences(ctx):
    rng = ctx.rng
    M = modelled_requests()
    n = 40 if ctx.quick else 500
    seqs = []
    for ver in (0, 1, 2):
        for q in M:                      # every modelled request alone
            if (ver == 0 and q.raw_h1 is not None) or q.no_response:
                continue
            seqs.append((ver, [q]))
        for _ in range(n):
            k = rng.choice([2, 2, 3, 4, 6])
            rs = [rng.choice(M) for _ in range(k)]
            if ver == 0:
                rs = [q for q in rs if q.raw_h1 is None] or [M[0]]
            if ver == 2:
                rs = [q for q in rs if not q.no_response] or [M[0]]
            while rs[0].no_response:         # first on a connection a blank line is answered 400 at once (m:blank-get)
                rs = rs[1:] or [M[0]]
            # a second lone blank line is answered 400 at once as well (m:blank2-get covers it)
            rs = [q for i, q in enumerate(rs) if not (q.no_response and i and rs[i - 1].no_response)]
            seqs.append((ver, rs))
    return seqs


def evaluate_wide(ctx, wide):
    if wide["error"]:
        wide = dict(wide, pipe=None, addr=None, win=None)       # (server start lost to load: inconclusive)
        ctx.dist["wide:server-error"] += 1
    if wide.get("san"):
        ctx.violation("e2e:sanitizer:wide", "sanitizer / assertion report from lighttpd during the deep-pipeline / "
                      "source-address stream", {"property": ctx.pid, "kind": "sanitizer-or-crash",
                                                "correspondence": "e2e-wide", "report": wide["san"][-3000:]}, found=True)
    n, probs = wide["pipe"] or (0, [])
    ctx.evaluations += n
    if probs:
        p = probs[0]
        ctx.violation("e2e:deep-pipeline:status-%s" % p["status"],
                      "a pipelined request behind %d octets of earlier pipelined requests is not answered like the same "
                      "request alone (%d of %d differ; first: #%d %s: alone %s / pipelined %s)" % (
                          p["offset"], len(probs), n, p["index"], p["request"], p["alone"][:160], p["pipelined"][:160]),
                      {"property": ctx.pid, "kind": "e2e-wide", "stream": "deep-pipeline", "first": p, "count": len(probs),
                       "seed": wide.get("seed")})
    ctx.streams.append({"name": "e2e-deep-pipeline(real server)", "cases": n, "differing": len(probs)})
    n, probs = wide.get("win") or (0, [])
    ctx.evaluations += n
    seen = set()
    for p in probs:
        if p["key"] not in seen:
            seen.add(p["key"])
            ctx.violation("e2e:h2-windowed:%s" % p["key"], "concurrent HTTP/2 downloads under a closed connection window: "
                          + p["problem"], {"property": ctx.pid, "kind": "e2e-wide", "stream": "windowed-downloads",
                                           "first": p, "seed": wide.get("seed")})
    ctx.streams.append({"name": "e2e-windowed-downloads(real server)", "cases": n, "problems": len(probs)})
    if wide["addr"] is None:
        ctx.dist["wide:source-address-bind-impossible-or-skipped"] += 1
        ctx.streams.append({"name": "e2e-source-addresses(real server)", "cases": 0, "note": "not run"})
    else:
        n, probs = wide["addr"]
        ctx.evaluations += n
        seen = set()
        for p in probs:
            k = p.get("key", "connect")
            if k in seen:
                continue
            seen.add(k)
            ctx.violation("e2e:source-address:%s" % k, "the CGI environment depends on connections made by OTHER clients: "
                          + p["problem"] + " (after clients %s)" % ", ".join(p.get("history", [])[-6:]),
                          {"property": ctx.pid, "kind": "e2e-wide", "stream": "source-addresses", "first": p,
                           "seed": wide.get("seed")})
        ctx.streams.append({"name": "e2e-source-addresses(real server)", "cases": n, "problems": len(probs)})


def run_e2e(ctx):
    bd, err = e2e.build_server()
    if bd is None:
        ctx.broken.append({"kind": "server-build", "names": ["lighttpd"], "log": (err or "")[-3000:]})
        return
    t0 = time.time()
    cases = gen_cases(ctx)
    seqs = gen_sequences(ctx)
    nsrv = min(12, C.NCPU)
    shards = [cases[i::nsrv] for i in range(nsrv)]
    sshards = [seqs[i::nsrv] for i in range(nsrv)]
    cold_items = [(pi, 1) for pi in range(len(PROBES))]
    if not ctx.quick:
        cold_items += [(pi, v) for pi in range(len(PROBES)) for v in (0, 2)]
    with ThreadPoolExecutor(nsrv + 1) as ex:
        wide_f = ex.submit(wide_job, bd, ctx.rng.randrange(1 << 30))
        results = list(ex.map(lambda a: server_job(bd, a[0], a[1], ctx.quick), zip(shards, sshards)))
        colds = [x for part in ex.map(lambda it: cold_job(bd, it), [cold_items[i::nsrv] for i in range(nsrv)]) for x in part]
        wide = wide_f.result()
    evaluate_wide(ctx, wide)
    ncase = nun = nhist_sig = 0
    seen_sig = set()
    for si, res in enumerate(results):
        if res["error"]:
            ctx.violation("e2e:server-error", "lighttpd did not survive the C08 stream",
                          {"property": ctx.pid, "kind": "e2e-server-error", "detail": res["error"][-3000:]}, found=True)
            continue
        if res["san"]:
            ctx.violation("e2e:sanitizer", "sanitizer / assertion report from lighttpd during the C08 stream",
                          {"property": ctx.pid, "kind": "sanitizer-or-crash", "correspondence": "e2e-metamorphic",
                           "report": res["san"][-3000:]}, found=True)
        refs = res["refs"]
        # (1) every probe answered alone, on every version
        for (pi, ver), (o, note) in sorted(refs.items()):
            ctx.evaluations += 1
            if o is None:
                ctx.violation("e2e:alone-unanswered:%s:%d" % (PROBES[pi].tag, ver),
                              "no response to a request sent alone on a fresh connection",
                              {"property": ctx.pid, "kind": "e2e-metamorphic",
                               "case": case_desc(dict(ver=ver, mode="alone", hist=[], probe=PROBES[pi])), "note": note})
        # (2) the same semantic request over the three protocol versions
        for pi, q in enumerate(PROBES):
            o0, o1, o2 = (refs[(pi, v)][0] for v in (0, 1, 2))
            has_range = any(k.lower() in ("range", "if-range") for k, _ in q.headers)
            pairs = [(1, 2, o1, o2)] + ([] if has_range else [(0, 1, o0, o1)])
            for va, vb, a, b in pairs:
                if a is None or b is None:
                    continue
                ctx.evaluations += 1
                ctx.keys["cross:%s:%d" % (hist_kind(q), a["status"])] += 1
                if obs_key(a, True) != obs_key(b, True) and ("x:%d%d:" % (va, vb) + "+".join(diff_classes(a, b, True))) not in seen_sig:
                    seen_sig.add("x:%d%d:" % (va, vb) + "+".join(diff_classes(a, b, True)))
                    ctx.violation("e2e:cross-version:%d-%d:%s" % (va, vb, "+".join(diff_classes(a, b, True))[:80]),
                                  "the same request is answered differently over %s and %s: %s" % (
                                      ["HTTP/1.0", "HTTP/1.1", "HTTP/2"][va], ["HTTP/1.0", "HTTP/1.1", "HTTP/2"][vb],
                                      obs_diff(a, b, True)),
                                  {"property": ctx.pid, "kind": "e2e-cross-version", "probe": q.tag,
                                   "probe_idx": pi, "versions": [va, vb], "diff": obs_diff(a, b, True)})
            if has_range and o0 is not None:
                # HTTP/1.0: Range is ignored -> must equal the same request without the Range field
                twin = [i for i, t in enumerate(PROBES) if t.method == q.method and t.target == q.target
                        and t.authority == q.authority and not t.headers and t.body is None]
                if twin and not any(k.lower() == "x-variant" for k, _ in q.headers):
                    b = refs[(twin[0], 0)][0]
                    ctx.evaluations += 1
                    if b is not None and obs_key(o0) != obs_key(b):
                        ctx.violation("e2e:h10-range:%s" % q.tag, "HTTP/1.0 request with Range not answered like the "
                                      "request without it: " + obs_diff(o0, b),
                                      {"property": ctx.pid, "kind": "e2e-cross-version", "probe": q.tag, "probe_idx": pi,
                                       "versions": [0, 0], "diff": obs_diff(o0, b)})
        # (3) probe after history == probe alone
        for case, o, log, note in sorted(res["cases"], key=lambda x: len(x[0]["hist"])):
            ncase += 1
            ctx.evaluations += 1
            pi = PROBES.index(case["probe"])
            ref = refs[(pi, case["ver"])][0]
            kinds = "+".join(sorted(set(hist_kind(h) for h in case["hist"]))) or "-"
            ctx.dist["mode:%s" % case["mode"]] += 1
            if o is None:
                nun += 1
                ctx.keys["meta:%d:%s:unanswered" % (case["ver"], case["mode"])] += 1
                if case["mode"] in MUST_ANSWER and ref is not None and ("un:" + case["mode"]) not in seen_sig:
                    seen_sig.add("un:" + case["mode"])
                    ctx.violation("e2e:unanswered:%s" % case["mode"],
                                  "request not answered (%s) although it is answered when sent alone" % note,
                                  {"property": ctx.pid, "kind": "e2e-metamorphic", "case": case_desc(case),
                                   "log": log, "note": note})
                continue
            ctx.keys["meta:%d:%s:%s:%d" % (case["ver"], case["mode"], kinds, o["status"])] += 1
            if ref is not None and obs_key(o) != obs_key(ref):
                for dc in diff_classes(ref, o):
                    sig = "e2e:history:%s" % dc
                    if sig in seen_sig:
                        continue
                    seen_sig.add(sig)
                    nhist_sig += 1
                    if nhist_sig > 8 and not any(k.get("property") == ctx.pid and k.get("status") == "known"
                                                 and re.search(k["match"], sig) for k in ctx.known):
                        continue          # (same run, many symptoms: keep the report readable)
                    ctx.violation(sig, "response depends on connection history (%s, %s; differs in %s): %s" % (
                                      ["HTTP/1.0", "HTTP/1.1", "HTTP/2"][case["ver"]], case["mode"], dc, obs_diff(ref, o)),
                                  {"property": ctx.pid, "kind": "e2e-metamorphic", "case": case_desc(case), "log": log,
                                   "differs_in": dc, "diff": obs_diff(ref, o)})
            if len(ctx.samples) < 6 and ncase % 97 == 1:
                ctx.sample({"stream": "e2e-metamorphic", "case": case_desc(case), "status": o["status"]})
    # cold start: the probe as the first request a server ever sees == the probe on a server that has
    # already answered everything else (server-wide state: caches on disk, stat cache, recycled objects)
    warm = next((r["refs"] for r in results if not r["error"]), None)
    for pi, ver, o, note, san in colds:
        ctx.evaluations += 1
        ctx.keys["cold:%d:%s" % (ver, "none" if o is None else o["status"])] += 1
        if san:
            ctx.violation("e2e:sanitizer", "sanitizer / assertion report from lighttpd (cold start)",
                          {"property": ctx.pid, "kind": "sanitizer-or-crash", "correspondence": "e2e-cold",
                           "report": san[-3000:]}, found=True)
        q = PROBES[pi]
        dp = decoding_problem(o, q)
        if dp and ("dec:" + dp[:20]) not in seen_sig:
            seen_sig.add("dec:" + dp[:20])
            ctx.violation("e2e:content-coding:%s" % dp[:30], "%s: %s" % (q.tag, dp),
                          {"property": ctx.pid, "kind": "e2e-cold", "probe": q.tag, "probe_idx": pi, "ver": ver, "problem": dp})
        if warm is None or o is None:
            if o is None and warm is not None and warm[(pi, ver)][0] is not None:
                ctx.violation("e2e:cold-unanswered", "no response to the first request of a fresh server (%s)" % note,
                              {"property": ctx.pid, "kind": "e2e-cold", "probe": q.tag, "probe_idx": pi, "ver": ver})
            continue
        w = warm[(pi, ver)][0]
        if w is not None and obs_key(o) != obs_key(w):
            for dc in diff_classes(o, w):
                sig = "e2e:server-state:%s" % dc
                if sig in seen_sig:
                    continue
                seen_sig.add(sig)
                ctx.violation(sig, "the answer depends on what the server process handled before (first request of a "
                              "fresh server vs same request after other traffic; differs in %s): %s" % (dc, obs_diff(o, w)),
                              {"property": ctx.pid, "kind": "e2e-cold", "probe": q.tag, "probe_idx": pi, "ver": ver,
                               "differs_in": dc, "diff": obs_diff(o, w)})
    ctx.streams.append({"name": "e2e-cold-start(real server)", "cases": len(colds)})
    # content codings of the warm references and of every case decode to the named file
    for res in results:
        if res["error"]:
            continue
        obs = [(PROBES[k[0]], v[0]) for k, v in res["refs"].items()] + [(c["probe"], o) for c, o, _, _ in res["cases"]]
        for q, o in obs:
            dp = decoding_problem(o, q)
            if dp and ("dec:" + dp[:20]) not in seen_sig:
                seen_sig.add("dec:" + dp[:20])
                ctx.violation("e2e:content-coding:%s" % dp[:30], "%s: %s" % (q.tag, dp),
                              {"property": ctx.pid, "kind": "e2e-cold", "probe": q.tag, "probe_idx": PROBES.index(q),
                               "ver": 1, "problem": dp})
    # references must also agree between server processes (first-ever connections included)
    first = None
    for res in results:
        if res["error"]:
            continue
        if first is None:
            first = res["refs"]
            continue
        for key, (o, note) in res["refs"].items():
            a = first[key][0]
            if a is not None and o is not None and obs_key(a) != obs_key(o):
                ctx.violation("e2e:cross-server:%s" % PROBES[key[0]].tag,
                              "two server processes answer the same request differently: " + obs_diff(a, o),
                              {"property": ctx.pid, "kind": "e2e-metamorphic",
                               "case": case_desc(dict(ver=key[1], mode="alone", hist=[], probe=PROBES[key[0]])),
                               "diff": obs_diff(a, o)})
    ctx.streams.append({"name": "e2e-metamorphic(real server)", "cases": ncase, "unanswered_inconclusive": nun,
                        "servers": nsrv, "wall_s": round(time.time() - t0, 2)})
    # (4) the Lean connection automaton against the real server on the modelled part of the site
    lines, reals = [], []
    for res in results:
        for ver, reqs, real, line in res["seqs"]:
            lines.append(line)
            reals.append((ver, reqs, real))
    nd = 0
    if lines and ctx.model_ok:
        mo, mrc, merr = C.parallel_lines([C.ltmodel_path(), "server"], lines)
        if mrc != 0 or len(mo) != len(lines):
            ctx.broken.append({"kind": "model-run", "names": ["server"], "log": merr[-2000:]})
        else:
            for line, (ver, reqs, real), m in zip(lines, reals, mo):
                ctx.evaluations += 1
                mparts = m.split(" | ")
                rparts = []
                for o, closed in real:
                    rparts.append("none" if o is None or o == "skip" else real_to_model_obs(o, closed))
                mcmp = []
                for i, mp in enumerate(mparts[:len(rparts)]):
                    f = mp.split(",")
                    if ver == 2 and len(f) == 4:
                        f[1] = "1"
                    mcmp.append(",".join(f))
                # after the point where the connection closed the model must say "none"
                tail_ok = all(x == "none" for x in mparts[len(rparts):])
                ctx.keys["model:%d:%s" % (ver, "/".join(p.split(",")[0] + ("c" if p.split(",")[1:2] == ["0"] else "") for p in rparts))[:60]] += 1
                if mcmp != rparts or not tail_ok:
                    nd += 1
                    if nd <= 3:
                        bad = [i for i, (a, b) in enumerate(zip(mcmp, rparts)) if a != b]
                        i = bad[0] if bad else len(rparts)
                        ctx.violation("corr:e2e-model:%d:%s" % (ver, reqs[min(i, len(reqs) - 1)].tag),
                                      "Lean connection automaton and real server disagree (request %d of the sequence)" % (i + 1),
                                      {"property": ctx.pid, "kind": "correspondence", "correspondence": "e2e-model",
                                       "version": ver, "sequence": [q.tag for q in reqs],
                                       "impl_obs": rparts[i][:600] if i < len(rparts) else "(connection closed)",
                                       "model_obs": (mcmp + mparts[len(rparts):])[i][:600] if i < len(mparts) else "(nothing)",
                                       "input": line[:200] + "..."}, found=False)
    ctx.streams.append({"name": "e2e-model(connection automaton vs real server)", "cases": len(lines), "disagreements": nd})


def run(ctx):
    run_inproc(ctx)
    run_errh(ctx)
    run_e2e(ctx)
    ctx.rule = ("in-process: dirty request objects (real parser + every response-side setter) x recycling op, and "
                "request heads parsed into recycled vs fresh objects; e2e: (history P, probe R) pairs over "
                "HTTP/1.0/1.1/2 x delivery mode (keep-alive, pipelined, recycled connection, other connection, "
                "sequential / concurrent / burst streams, h2c upgrade); distinct = (stream, op or version+mode, "
                "history kinds, outcome class)")
    ctx.assumptions += ["IPv6-literal Host values are skipped (inet_pton not modelled)",
                        "time-dependent response fields (Date, Expires) and connection-management fields "
                        "(Connection, Keep-Alive; REMOTE_PORT / HTTP_CONNECTION / HTTP_UPGRADE / HTTP_HTTP2_SETTINGS in the CGI "
                        "environment: the request that carried `Upgrade: h2c` keeps those fields) are excluded "
                        "from the comparison, as is the HTTP/2 `priority` scheduling hint; Accept-Ranges / Cache-Control / Transfer-Encoding and "
                        "SERVER_PROTOCOL are excluded between protocol versions only",
                        "Range on HTTP/1.0 is compared against the request without Range"]


# =====================================================================================
# replay
# =====================================================================================
def replay_line(ctx, rep):
    line = rep["input"]
    exe, err = C.build_harness("h_reset")
    base, rc, e = C.run_lines([exe], ["rst none", "rst h2init"])
    oracle = ResetOracle(base[0], base[1])
    o, rc, e = C.run_lines([exe], [line])
    m, _, _ = C.run_model("server", [line])
    print("input:", line)
    print("impl :", o, rc)
    print("model:", m)
    v = oracle(line, o[0]) if o else "crash"
    print("oracle:", v)
    if v or (o != m):
        print("VIOLATION property=%s replay=(replayed)" % ctx.pid)
        return 1
    return 0


def replay(ctx, path):
    rep = json.load(open(path))
    print(json.dumps({k: rep[k] for k in rep if k not in ("log",)}, indent=1)[:3000])
    kind = rep.get("kind")
    if kind in ("correspondence", "property-oracle", "sanitizer-or-crash") and str(rep.get("input", "")).startswith(("rst", "rp")):
        ctx.lean(())
        return replay_line(ctx, rep)
    if kind == "e2e-wide":
        bd, err = e2e.build_server()
        wide = wide_job(bd, rep.get("seed", 1))
        print("deep pipeline:", wide["pipe"] and (wide["pipe"][0], wide["pipe"][1][:2]))
        print("source addresses:", wide["addr"] and (wide["addr"][0], wide["addr"][1][:2]), wide["error"] or "")
        print("windowed downloads:", wide.get("win"))
        if (wide["pipe"] and wide["pipe"][1]) or (wide["addr"] and wide["addr"][1]) or (wide.get("win") and wide["win"][1]):
            print("VIOLATION property=%s replay=(replayed)" % ctx.pid)
            return 1
        return 0
    if kind == "e2e-cold":
        bd, err = e2e.build_server()
        q = PROBES[rep["probe_idx"]]
        cold = cold_job(bd, [(rep["probe_idx"], rep.get("ver", 1))])[0][2]
        srv = new_server(bd)
        with srv:
            for p2 in PROBES:
                run_case(srv, dict(ver=rep.get("ver", 1), mode="alone", hist=[], probe=p2))
            warm, _, _ = run_case(srv, dict(ver=rep.get("ver", 1), mode="alone", hist=[], probe=q))
        print("cold vs warm:", obs_diff(cold, warm) or "(equal)", "| decoding:", decoding_problem(cold, q), decoding_problem(warm, q))
        if obs_key(cold) != obs_key(warm) or decoding_problem(cold, q) or decoding_problem(warm, q):
            print("VIOLATION property=%s replay=(replayed)" % ctx.pid)
            return 1
        return 0
    if kind in ("e2e-metamorphic", "e2e-cross-version"):
        bd, err = e2e.build_server()
        if bd is None:
            print("server build failed", err)
            return 1
        srv = new_server(bd)
        with srv:
            if kind == "e2e-cross-version":
                q = PROBES[rep["probe_idx"]]
                obs = [run_case(srv, dict(ver=v, mode="alone", hist=[], probe=q))[0] for v in rep["versions"]]
                d = obs_diff(obs[0], obs[1], True)
                print("replayed:", d or "(equal)")
                bad = obs_key(obs[0], True) != obs_key(obs[1], True)
            else:
                cd = rep["case"]
                ver = ["HTTP/1.0", "HTTP/1.1", "HTTP/2"].index(cd["ver"])
                case = dict(ver=ver, mode=cd["mode"], hist=[ALL_REQS[i] for i in cd["hist_idx"]],
                            probe=PROBES[cd["probe_idx"]], nseg=cd.get("nseg", 1))
                ref, _, n0 = run_case(srv, dict(ver=ver, mode="alone", hist=[], probe=case["probe"]))
                o, log, note = run_case(srv, case)
                print("alone   :", None if ref is None else ref["status"], n0)
                print("in case :", None if o is None else o["status"], note, log)
                print("replayed:", obs_diff(ref, o) or "(equal)")
                bad = (o is None and ref is not None and case["mode"] in MUST_ANSWER) or \
                      (o is not None and ref is not None and obs_key(o) != obs_key(ref)) or ref is None
        if bad:
            print("VIOLATION property=%s replay=(replayed)" % ctx.pid)
            return 1
        return 0
    return 0
