"""C09 — backends receive exactly the client's request (CGI env, FastCGI, SCGI, uwsgi, proxy)."""
import re
from .. import common as C

MANIFEST = dict(
    text="PROVED in Lean 4 over executable models (clause -> theorem): header->variable mapping never yields a "
         "server-defined name or HTTP_PROXY, Content-Type -> CONTENT_TYPE, every non-empty field is mapped "
         "(c09_varname, c09_header_vars_sound/_complete, c09_no_override); in the whole variable list the "
         "request-line/body/script variables occur with exactly one value, the parsed request's component "
         "(c09_meta_rfc3875, c09_content_length_first, c09_script_name_path_info for the gw_check_extension "
         "split); FastCGI/SCGI/uwsgi/envp: decode(encode(env, body, any arrival schedule)) = (env, body), "
         "terminated once, announced length = queued length, and for lighttpd's own variable list the "
         "decoded CONTENT_LENGTH equals the decoded body's length (c09_fcgi/scgi/uwsgi_roundtrip, _e2e, "
         "c09_cgi_envp_roundtrip); scgi_create_env as written (10 reserved blanks, length rendered afterwards and "
         "copied right-aligned into them / uwsgi header stored in place, unused blanks hidden by the chunk offset, "
         "bytes_in/bytes_out corrected) yields for every variable list below 10^9 bytes exactly the front-to-back "
         "encoding, announced length and counters (c09_scgi_buffer, c09_uwsgi_buffer; that the block stays below "
         "10^9 bytes is a hypothesis, not derived from the header limit); a body that ends early never yields a complete FastCGI request, an "
         "authorizer gets no body (c09_fcgi_truncated_never_complete, c09_fcgi_authorizer); proxy: "
         "Transfer-Encoding only as lighttpd's own single 'chunked', never together with Content-Length, only "
         "in HTTP/1.1 with Host, no Proxy/Proxy-Connection, exactly one lighttpd-written Connection: close…, "
         "every other admitted field forwarded unchanged, head ++ body resp. head ++ chunked(body) under every "
         "arrival schedule, and (proxy.forwarded off) the head re-parses by RFC 9112 to exactly those fields "
         "(c09_proxy_framing, _chunked_http11, _head_hop_by_hop, _fields_complete, _head_decodes, "
         "_request, c09_hop_by_hop, c09_te_consumed_not_stored); HTTP/2 DATA frame bytes -> exactly the data, "
         "padding stripped, and with Content-Length never more than it / 'complete' only on exactly it "
         "(c09_h2_data_body, c09_h2_content_length_bound). PARTIAL (named _partial): QUERY_STRING = part after "
         "the first '?' only for un-normalised targets; with proxy.forwarded options the proxy head re-parses "
         "to the same fields only given CR-free generated values. TESTED ONLY (differential correspondence + independent Python decoders, not "
         "proved): client framing Content-Length/chunked and network segmentation (real h1_reqbody_read), "
         "h2 frame segmentation (real h2_parse_frames), stream-request-body 0/1/2, temp-file spooling, the "
         "gw_write_refill_wb hand-over gates, the mod_cgi stdin path (cgi_write_request), values of the "
         "remaining meta-variables, the generated Forwarded/X-Forwarded-* values",
    note="trusted: Lean kernel; hand-written models validated by the h_cgi correspondence: (1,2) the real "
         "request parser + gw_check_extension + the real builders (fcgi_create_env, scgi_create_env, "
         "proxy_create_env, http_cgi_headers via mod_cgi's env callback, *_stdin_append) with explicit body "
         "arrival schedules, exact byte comparison; (3) the real gw_handle_subrequest / gw_write_request / "
         "gw_write_refill_wb / h1_reqbody_read in-process on client bytes in Content-Length or chunked "
         "framing, stream-request-body 0/1/2, temp files on/off, scripted read/write timing and backend "
         "socket, compared after decoding; (6) scgi_create_env observed before any write: first chunk offset, "
         "hidden buffer prefix, wb_reqlen, wb.bytes_in/bytes_out against the buffer-level model, incl. an exhaustive "
         "sweep of block sizes over the netstring-length digit boundaries; (4) the real h2_parse_frames / h2_recv_data / h2_recv_end_data / "
         "h2_recv_reqbody on DATA frame bytes (padding, segmentation, Content-Length, max-request-size, "
         "consuming or buffering backend side); (5) request-target split through the real parser. NOT "
         "executed: backend connect(), response reading, process management (fork/exec of CGI: "
         "cgi_create_env's stdin set-up is imitated by the harness for the single-tempfile case), the event "
         "loop. NOT modelled: mod_ajp13/wstunnel/sockproxy, proxy URL/host remapping, Forwarded 'by' "
         "parameter; check-local's physical path-info split is C03's (http_response_physical_pathinfo) and "
         "is an input here; FastCGI constants regenerated from compat/fastcgi.h",
    tech="Lean 4 proof over hand-written model + differential correspondence (in-process C harness)",
    ref="6/C09")

# ----------------------------------------------------------------------------- constants
HS, HOSTS, HOSTN, UN, UU, UR, CR_, F2D, F2R, DSR, DSJ, Q20, U8R, GB = \
    1, 2, 4, 8, 16, 32, 64, 256, 512, 1024, 2048, 4096, 8192, 0x8000
DEFAULT = HS | HOSTS | HOSTN | UN | UU | CR_ | F2D | DSR | U8R
OPTS = [DEFAULT, DEFAULT, 0, HS, GB | DEFAULT, HS | UN | UR | CR_, HOSTN | UN | UR | F2R | DSJ | Q20,
        HS | HOSTS | HOSTN | UN | UR | CR_ | F2D | DSR | Q20, UN | UU]

F_AUTH, F_BREAKPHP, F_FIXROOT, F_CHECKLOCAL, F_HTTPS, F_ERRSAVED, F_H2, F_H2EXT, F_UPGRADE, F_TEMP, \
    F_STREAM, F_HTTP10 = 1, 2, 4, 8, 16, 32, 64, 128, 256, 512, 1024, 2048
F_STREAM2 = 4096            # server.stream-request-body = 2 (stream + minimal buffering)
F_STREAMING = F_STREAM | F_STREAM2

STREAM_OPS = ("fcgi", "scgi", "uwsgi", "proxy")
OPS = ("env", "cgi") + STREAM_OPS

# server-defined meta-variables (RFC 3875 4.1 + the lighttpd/PHP extras of http_cgi_headers)
META = ["CONTENT_LENGTH", "QUERY_STRING", "REQUEST_URI", "REDIRECT_URI", "REDIRECT_STATUS",
        "SCRIPT_NAME", "PATH_INFO", "PATH_TRANSLATED", "SCRIPT_FILENAME", "DOCUMENT_ROOT",
        "REQUEST_METHOD", "SERVER_PROTOCOL", "SERVER_SOFTWARE", "GATEWAY_INTERFACE", "REQUEST_SCHEME",
        "HTTPS", "SERVER_PORT", "SERVER_ADDR", "SERVER_NAME", "REMOTE_ADDR", "REMOTE_PORT"]


def hx(b):
    return C.hx(b)


def opt(b):
    return "~" if b is None else hx(b)


def unopt(s):
    return None if s == "~" else C.unhx(s)


# ----------------------------------------------------------------------------- line building
def mkline(op, head, po=0, fl=0, ext=b"/app", docroot=None, strip=None, basedir=b"/srv/www", pinfo=0,
           srv=(b"192.0.2.1:8080", "4.0.9"), sname=None, raddr=b"198.51.100.7", rport=4711,
           tag=b"lighttpd/1.4", renv=(), px="0", body="-", sched="0"):
    renvs = ",".join(hx(k) + ":" + hx(v) for k, v in renv) or "-"
    return " ".join([op, str(po), str(fl), hx(ext), opt(docroot), opt(strip), hx(basedir), str(pinfo),
                     hx(srv[0]), srv[1], opt(sname), hx(raddr), str(rport), opt(tag), renvs, px, hx(head),
                     body, sched])


class Case:
    """fields of a case line (as the oracle needs them)"""
    def __init__(self, line):
        t = line.split(" ")
        self.op = t[0]
        self.po, self.fl = int(t[1]), int(t[2])
        self.ext, self.docroot, self.strip = C.unhx(t[3]), unopt(t[4]), unopt(t[5])
        self.basedir, self.pinfo = C.unhx(t[6]), int(t[7])
        self.srvtok = C.unhx(t[8])
        a = t[9].split(".")
        self.fam, self.wild, self.colon = a[0], a[1] == "1", int(a[2]) % 256
        self.sname, self.raddr, self.rport, self.tag = unopt(t[10]), C.unhx(t[11]), int(t[12]), unopt(t[13])
        self.renv = [] if t[14] == "-" else [tuple(C.unhx(x) for x in e.split(":")) for e in t[14].split(",")]
        px = t[15].split(".")
        self.fwd = int(px[0])
        self.rhost = unopt(px[1]) if len(px) > 1 else None
        self.head = C.unhx(t[16])
        self.bodytok, self.sched = t[17], [x for x in t[18].split(",") if not x.startswith("s")]
        self.reader = [x for x in t[18].split(",") if x.startswith("s")]     # cgibody: slow reader "s<late>.<rd>"

    def body(self):
        if self.bodytok[0] == "k":
            ln, seed = self.bodytok[1:].split(".")[:2]
            return gen_body("r%s.%s" % (ln, seed))
        return gen_body(self.bodytok)


_blk_cache = {}
BLK = 65521


def gen_body(tok):
    """test body of a case: literal hex, or a pseudo-random block (LCG) of up to 65521 bytes repeated"""
    if tok == "-":
        return b""
    if tok[0] == "h":
        return C.unhx(tok[1:])
    ln, seed = (int(x) for x in tok[1:].split("."))
    n = min(ln, BLK)
    blk = _blk_cache.get(seed)
    if blk is None or len(blk) < n:
        x = seed & 0x7fffffff
        out = bytearray(n)
        for i in range(n):
            x = (x * 1103515245 + 12345) & 0x7fffffff
            out[i] = (x >> 16) & 0xff
        blk = bytes(out)
        if len(_blk_cache) > 4096:
            _blk_cache.clear()
        _blk_cache[seed] = blk
    if ln <= BLK:
        return blk[:ln]
    return (blk * (ln // BLK + 1))[:ln]


# ----------------------------------------------------------------------------- independent decoders
class Bad(Exception):
    pass


def fcgi_records(s):
    """FastCGI spec 3.3: list of (type, request id, content)"""
    recs, i = [], 0
    while i < len(s):
        if len(s) - i < 8:
            raise Bad("truncated FastCGI record header")
        ver, typ, rid, clen, pad = s[i], s[i + 1], (s[i + 2] << 8) | s[i + 3], (s[i + 4] << 8) | s[i + 5], s[i + 6]
        if ver != 1:
            raise Bad("FastCGI version %d" % ver)
        if len(s) - i - 8 < clen + pad:
            raise Bad("truncated FastCGI record content")
        recs.append((typ, rid, s[i + 8:i + 8 + clen]))
        i += 8 + clen + pad
    return recs


def fcgi_nv(s):
    """FastCGI spec 3.4 name-value pairs"""
    out, i = [], 0

    def ln():
        nonlocal i
        if i >= len(s):
            raise Bad("truncated name-value length")
        if s[i] < 128:
            i += 1
            return s[i - 1]
        if i + 4 > len(s):
            raise Bad("truncated 4-byte name-value length")
        v = ((s[i] & 0x7f) << 24) | (s[i + 1] << 16) | (s[i + 2] << 8) | s[i + 3]
        i += 4
        return v
    while i < len(s):
        kl, vl = ln(), ln()
        if i + kl + vl > len(s):
            raise Bad("name-value pair longer than PARAMS stream")
        out.append((s[i:i + kl], s[i + kl:i + kl + vl]))
        i += kl + vl
    return out


def fcgi_decode(s):
    """-> dict(role, env, body, params_closed, stdin_closed); raises Bad on a malformed stream"""
    recs = fcgi_records(s)
    if not recs or recs[0][0] != 1 or len(recs[0][2]) != 8:
        raise Bad("stream does not start with FCGI_BEGIN_REQUEST")
    rid = recs[0][1]
    if rid == 0 or any(r[1] != rid for r in recs):
        raise Bad("request id not constant / zero")
    role = (recs[0][2][0] << 8) | recs[0][2][1]
    flags = recs[0][2][2]
    params, body, st = b"", b"", "params"
    pclosed = sclosed = False
    for typ, _, c in recs[1:]:
        if st == "params":
            if typ != 4:
                raise Bad("record type %d inside PARAMS stream" % typ)
            if c:
                params += c
            else:
                pclosed, st = True, "stdin"
        elif st == "stdin":
            if typ != 5:
                raise Bad("record type %d inside STDIN stream" % typ)
            if c:
                body += c
            else:
                sclosed, st = True, "end"
        else:
            raise Bad("record after end of STDIN (stream terminated more than once)")
    if not pclosed:
        raise Bad("PARAMS stream not terminated")
    return dict(role=role, flags=flags, env=fcgi_nv(params), body=body, closed=sclosed)


def scgi_decode(s):
    m = re.match(rb"([0-9]+):", s)
    if not m:
        raise Bad("no netstring length")
    n = int(m.group(1))
    if m.group(1) != b"0" and m.group(1).startswith(b"0"):
        raise Bad("netstring length with leading zero")
    st = m.end()
    if len(s) < st + n + 1 or s[st + n:st + n + 1] != b",":
        raise Bad("netstring not closed by ','")
    blk = s[st:st + n]
    if blk and blk[-1:] != b"\0":
        raise Bad("SCGI header block does not end with NUL")
    parts = blk[:-1].split(b"\0") if blk else []
    if len(parts) % 2:
        raise Bad("odd number of strings in SCGI header block")
    env = [(parts[i], parts[i + 1]) for i in range(0, len(parts), 2)]
    return dict(env=env, body=s[st + n + 1:])


def uwsgi_decode(s):
    if len(s) < 4:
        raise Bad("short uwsgi header")
    if s[0] != 0 or s[3] != 0:
        raise Bad("uwsgi modifiers not 0")
    n = s[1] | (s[2] << 8)
    if len(s) < 4 + n:
        raise Bad("uwsgi vars truncated")
    blk, env, i = s[4:4 + n], [], 0
    while i < len(blk):
        if i + 2 > len(blk):
            raise Bad("uwsgi key size truncated")
        kl = blk[i] | (blk[i + 1] << 8)
        i += 2
        k = blk[i:i + kl]
        i += kl
        if i + 2 > len(blk):
            raise Bad("uwsgi value size truncated")
        vl = blk[i] | (blk[i + 1] << 8)
        i += 2
        v = blk[i:i + vl]
        i += vl
        if i > len(blk):
            raise Bad("uwsgi var overruns block")
        env.append((k, v))
    return dict(env=env, body=s[4 + n:])


def envp_decode(s):
    if s and s[-1:] != b"\0":
        raise Bad("envp block not NUL-terminated")
    env = []
    for e in (s[:-1].split(b"\0") if s else []):
        if b"=" not in e:
            raise Bad("envp string without '='")
        k, v = e.split(b"=", 1)
        env.append((k, v))
    return dict(env=env)


def http_decode(s):
    """backend-side HTTP/1.x request: -> dict(method, target, version, headers[(k,v)], body, chunked, closed)"""
    i = s.find(b"\r\n\r\n")
    if i < 0:
        raise Bad("no end of header block")
    lines = s[:i].split(b"\r\n")
    m = re.match(rb"^([!#$%&'*+.^_`|~0-9A-Za-z-]+) (\S+) HTTP/1\.([01])$", lines[0])
    if not m:
        raise Bad("malformed request line %r" % lines[0][:80])
    hdrs = []
    for l in lines[1:]:
        mm = re.match(rb"^([!#$%&'*+.^_`|~0-9A-Za-z-]+):[ \t]*(.*?)[ \t]*$", l, re.S)
        if not mm:
            raise Bad("malformed header line %r" % l[:80])
        if b"\r" in mm.group(2) or b"\n" in mm.group(2) or b"\0" in mm.group(2):
            raise Bad("CR/LF/NUL in forwarded field value")
        hdrs.append((mm.group(1), mm.group(2)))
    rest = s[i + 4:]
    te = [v for k, v in hdrs if k.lower() == b"transfer-encoding"]
    out = dict(method=m.group(1), target=m.group(2), minor=int(m.group(3)), headers=hdrs,
               chunked=bool(te), closed=None)
    if te:
        if te != [b"chunked"]:
            raise Bad("Transfer-Encoding %r sent to backend" % te)
        body, closed = b"", False
        while rest:
            mm = re.match(rb"^([0-9a-fA-F]+)\r\n", rest)
            if not mm:
                raise Bad("malformed chunk header")
            n = int(mm.group(1), 16)
            rest = rest[mm.end():]
            if n == 0:
                if rest != b"\r\n":
                    raise Bad("bytes after last-chunk / missing final CRLF")
                closed, rest = True, b""
                break
            if len(rest) < n + 2 or rest[n:n + 2] != b"\r\n":
                raise Bad("chunk data not followed by CRLF")
            body += rest[:n]
            rest = rest[n + 2:]
        out["body"], out["closed"] = body, closed
    else:
        out["body"] = rest
    return out


# ----------------------------------------------------------------------------- reference reading of the head
def simple_head(head):
    """request line and fields of a plainly formatted head (CRLF, no folding); None if not plain"""
    if not head.endswith(b"\r\n\r\n") or b"\0" in head:
        return None
    lines = head[:-4].split(b"\r\n")
    m = re.match(rb"^([A-Z-]+) (\S+) HTTP/1\.([01])$", lines[0])
    if not m:
        return None
    fields = []
    for l in lines[1:]:
        mm = re.match(rb"^([!#$%&'*+.^_`|~0-9A-Za-z-]+):[ \t]*([^\r\n]*?)[ \t]*$", l)
        if not mm:
            return None
        fields.append((mm.group(1), mm.group(2)))
    return dict(method=m.group(1), target=m.group(2), minor=int(m.group(3)), fields=fields)


def merged_fields(fields):
    """repeated field names (case-insensitively) are one field: values joined with ", " ("; " for Cookie);
    empty values do not count.  -> list of (first-seen name, merged value) in order of first appearance"""
    order, vals = [], {}
    for k, v in fields:
        if not v:
            continue
        lk = k.lower()
        if lk in vals and lk in (b"host", b"content-type", b"if-modified-since", b"if-none-match", b"http2-settings"):
            continue            # single-valued fields: an (identical) repeat is dropped by the parser
        if lk not in vals:
            vals[lk] = [k, [v]]
            order.append(lk)
        else:
            vals[lk][1].append(v)
    return [(vals[lk][0], (b"; " if lk == b"cookie" else b", ").join(vals[lk][1])) for lk in order]


def varname(k):
    return b"HTTP_" + bytes((c & 0xdf) if (65 <= c <= 90 or 97 <= c <= 122) else c if 48 <= c <= 57 else 95
                            for c in k)


def unq(b):
    out, i = bytearray(), 0
    while i < len(b):
        if b[i] == 37 and i + 2 < len(b) + 0 and re.match(rb"[0-9A-Fa-f]{2}", b[i + 1:i + 3]):
            out.append(int(b[i + 1:i + 3], 16))
            i += 3
        else:
            out.append(b[i])
            i += 1
    return bytes(out)


def raw_pathquery(target):
    """origin-form part of the request-target, split at the first '?' (fragment removed)"""
    t = target
    m = re.match(rb"^https?://[^/]*(/.*)$", t, re.I)
    if m:
        t = m.group(1)
    t = t.split(b"#", 1)[0]
    if b"?" in t:
        p, q = t.split(b"?", 1)
        return t, p, q
    return t, t, b""


SAFE_PATH = re.compile(rb"^(/[A-Za-z0-9_~-][A-Za-z0-9._~-]*)*/?$")


# ----------------------------------------------------------------------------- the property oracle
def declared_length(c, sh):
    """body length the client declared (Content-Length) or None for chunked"""
    cl = [v for k, v in sh["fields"] if k.lower() == b"content-length"]
    te = [v for k, v in sh["fields"] if k.lower() == b"transfer-encoding"]
    if te:
        return None
    if cl and re.match(rb"^[0-9]+$", cl[0]):
        return int(cl[0])
    return 0


def schedule(c):
    """-> (bytes delivered to the gateway, length fixed before create_env (c<n>) or None, completed 'e')"""
    delivered, fixed, done = 0, None, False
    total = len(c.body())
    for i, s in enumerate(c.sched):
        if s == "e":
            done = True
        elif s.startswith("c"):
            n = min(int(s[1:]), total - delivered)
            delivered += n
            fixed = delivered
        else:
            delivered += min(int(s), total - delivered)
    return delivered, fixed, done


def check_env(c, sh, env, what):
    """RFC 3875 reading of the variables `env` (list of (name, value)) against the client's request"""
    names = [k for k, _ in env]
    d = {}
    for k, v in env:
        d.setdefault(k, []).append(v)
    authorizer = bool(c.fl & F_AUTH) and c.op in ("env", "fcgi")
    # server-defined variables appear at most once (a client field can never add or replace one)
    for m in META:
        if len(d.get(m.encode(), [])) > 1:
            return "%s: server-defined variable %s appears more than once" % (what, m)
    for k in names:
        if not re.match(rb"^[A-Z0-9_]+$", k):
            return "%s: variable name is not [A-Z0-9_]+ || %r" % (what, k[:40])
    # request line
    tgt, rawpath, rawq = raw_pathquery(sh["target"])
    if not (c.fl & F_H2EXT):
        if d.get(b"REQUEST_METHOD") != [sh["method"]]:
            return "%s: REQUEST_METHOD is not the request method || %r for %r" % (what, d.get(b"REQUEST_METHOD"), sh["method"])
        proto = b"HTTP/2.0" if c.fl & F_H2 else b"HTTP/1.%d" % sh["minor"]
        if d.get(b"SERVER_PROTOCOL") != [proto]:
            return "%s: SERVER_PROTOCOL is not the request version || %r for %r" % (what, d.get(b"SERVER_PROTOCOL"), proto)
    special = sh["method"] == b"CONNECT" or sh["target"] == b"*"
    if not special:
        qs = d.get(b"QUERY_STRING")
        if qs is None or len(qs) != 1:
            return "%s: QUERY_STRING missing" % what
        exp_q = unq(rawq).replace(b"+", b" ")
        if unq(qs[0]).replace(b"+", b" ") != exp_q:
            return "%s: QUERY_STRING is not the request-target after the first '?' || %r for %r" % (what, qs[0][:80], rawq[:80])
        # REQUEST_URI: the target as received (minus the configured prefix)
        ru = d.get(b"REQUEST_URI", [None])[0]
        full = sh["target"]
        mabs = re.match(rb"^https?://[^/]*(/.*)$", full, re.I)
        if mabs:
            full = mabs.group(1)
        exp = [full]
        if c.strip and full.startswith(c.strip) and full[len(c.strip):len(c.strip) + 1] == b"/" and c.op in ("env", "fcgi"):
            exp = [full[len(c.strip):]]
        if ru not in exp:
            return "%s: REQUEST_URI is not the request-target || %r for %r" % (what, (ru or b"")[:80], full[:80])
        if not authorizer:
            sn = d.get(b"SCRIPT_NAME", [None])[0]
            pi = d.get(b"PATH_INFO", [b""])[0]
            if sn is None:
                return "%s: SCRIPT_NAME missing" % what
            if SAFE_PATH.match(rawpath) and b"/./" not in rawpath and b"/../" not in rawpath \
                    and not rawpath.endswith((b"/.", b"/..")) and b"//" not in rawpath:
                if sn + pi != rawpath:
                    return "%s: SCRIPT_NAME ++ PATH_INFO is not the request path || %r ++ %r for %r" % (what, sn[:60], pi[:60], rawpath[:60])
                # gw_check_extension(): a "/prefix" extension (check-local off) names the script:
                # SCRIPT_NAME runs up to the first '/' at or after the end of the prefix
                if c.op in ("env", "fcgi", "scgi", "uwsgi") and c.ext.startswith(b"/") \
                        and rawpath.startswith(c.ext) and not (c.fl & F_CHECKLOCAL) \
                        and not (len(c.ext) == 1 and c.fl & F_FIXROOT):
                    cut = rawpath.find(b"/", len(c.ext)) if len(rawpath) > len(c.ext) else -1
                    want_sn = rawpath if cut < 0 else rawpath[:cut]
                    if sn != want_sn:
                        return "%s: SCRIPT_NAME is not the script named by the extension prefix || %r for %r, prefix %r" % (
                            what, sn[:60], rawpath[:60], c.ext)
            elif b"?" in sn + pi and b"%3f" not in rawpath.lower():
                return "%s: '?' in SCRIPT_NAME/PATH_INFO || %r" % (what, (sn + pi)[:80])
            if pi and not pi.startswith(b"/"):
                return "%s: PATH_INFO does not start with '/' || %r" % (what, pi[:60])
    # connection / configuration
    if d.get(b"REMOTE_ADDR") != [c.raddr] or d.get(b"REMOTE_PORT") != [b"%d" % c.rport]:
        return "%s: REMOTE_ADDR/REMOTE_PORT are not the peer's || %r %r" % (what, d.get(b"REMOTE_ADDR"), d.get(b"REMOTE_PORT"))
    if d.get(b"GATEWAY_INTERFACE") != [b"CGI/1.1"]:
        return "%s: GATEWAY_INTERFACE is not CGI/1.1 || %r" % (what, d.get(b"GATEWAY_INTERFACE"))
    https = bool(c.fl & F_HTTPS)
    if d.get(b"REQUEST_SCHEME") != [b"https" if https else b"http"] or ((b"HTTPS" in d) != https):
        return "%s: REQUEST_SCHEME/HTTPS do not match the connection" % what
    if c.colon < len(c.srvtok) and d.get(b"SERVER_PORT") != [c.srvtok[c.colon + 1:]]:
        return "%s: SERVER_PORT is not the listening port || %r for %r" % (what, d.get(b"SERVER_PORT"), c.srvtok)
    # body length
    if not authorizer:
        delivered, fixed, _ = schedule(c) if c.op in STREAM_OPS else (0, None, False)
        decl = declared_length(c, sh)
        want = fixed if fixed is not None else decl
        cl = d.get(b"CONTENT_LENGTH")
        if cl is None or len(cl) != 1:
            return "%s: CONTENT_LENGTH missing" % what
        if want is not None and cl != [b"%d" % want]:
            return "%s: CONTENT_LENGTH is not the request body length || %r for %d" % (what, cl, want)
        if c.op == "scgi" and names[0] != b"CONTENT_LENGTH":
            return "%s: CONTENT_LENGTH is not the first SCGI header" % what
    elif b"CONTENT_LENGTH" in d:
        return "%s: CONTENT_LENGTH sent to an authorizer" % what
    # client fields
    exp = []
    te_present = any(k.lower() == b"transfer-encoding" for k, _ in sh["fields"])
    for k, v in merged_fields(sh["fields"]):
        lk = k.lower()
        if lk == b"proxy" or lk == b"transfer-encoding":
            continue
        if lk == b"content-type":
            exp.append((b"CONTENT_TYPE", v))
        else:
            exp.append((varname(k), v))
    got = [(k, v) for k, v in env if k.startswith(b"HTTP_") or k == b"CONTENT_TYPE"]
    admin = set(varname(k)[5:] for k, _ in c.renv)
    got = [(k, v) for k, v in got if k not in admin]
    if c.fl & F_H2EXT:
        got = [(k, v) for k, v in got if (k, v) not in ((b"HTTP_UPGRADE", b"websocket"), (b"HTTP_CONNECTION", b"upgrade"),
                                                        (b"HTTP_SEC_WEBSOCKET_KEY", b"MDAwMDAwMDAwMDAwMDAwMA=="))]
    for k, v in got:
        if k == b"HTTP_PROXY":
            return "%s: client field passed as HTTP_PROXY" % what
        if k == b"HTTP_TRANSFER_ENCODING":
            return "%s: Transfer-Encoding passed through as HTTP_TRANSFER_ENCODING" % what
    optional = {b"HTTP_HOST"}                      # value is normalised by the host policy (C01/C02)
    if te_present:
        optional.add(b"HTTP_CONTENT_LENGTH")       # dropped when Transfer-Encoding decides the framing
    optional.add(b"HTTP_UPGRADE")                  # hop-by-hop: removed unless the upgrade is honoured
    gm = sorted((k, v) for k, v in got if k not in optional)
    em = sorted((k, v) for k, v in exp if k not in optional)
    if gm != em:
        extra = [x for x in gm if x not in em]
        miss = [x for x in em if x not in gm]
        return "%s: client fields not passed one-to-one || unexpected %r missing %r" % (what, extra[:3], miss[:3])
    for k, v in got:
        if k in optional and k != b"HTTP_HOST" and (k, v) not in exp:
            return "%s: hop-by-hop variable has a value not sent by the client || %s %r" % (what, k.decode(), v[:60])
    return None


def check_body(c, sh, body, closed, what, framed):
    """body handed to the backend: identical to the client's bytes, complete, closed exactly once"""
    delivered, fixed, done = schedule(c)
    src = c.body()
    decl = declared_length(c, sh)
    length = fixed if fixed is not None else decl
    if c.fl & F_AUTH and c.op in ("fcgi", "proxy"):
        if body:
            return "%s: request body sent to an authorizer" % what
        return None
    if length == 0 and decl is not None and fixed is None:
        delivered = 0           # nothing is read from the client for a bodiless request
    if body != src[:delivered][:len(body)] or len(body) > delivered:
        return "%s: body bytes differ from the client's || at offset %d" % (
            what, next((i for i in range(min(len(body), delivered)) if body[i] != src[i]), min(len(body), delivered)))
    if len(body) != delivered:
        return "%s: not all received body bytes were passed on || %d of %d" % (what, len(body), delivered)
    if framed:
        complete = (length is not None and delivered == length) or (length is None and done)
        upgrade = bool(c.fl & F_UPGRADE) and (bool(c.fl & F_H2EXT) or
                                              any(k.lower() == b"upgrade" for k, _ in sh["fields"]))
        if complete and not closed and not upgrade:
            return "%s: body complete but the stream is not terminated" % what
        if closed and not complete:
            return "%s: stream terminated before the body was complete || %d of %s" % (what, delivered, length)
    return None


def parse_obs(out):
    """impl/model observation -> (parsed, result) ; parsed None when the request was rejected"""
    if " | " not in out:
        return None, out
    p, r = out.split(" | ", 1)
    return p, r


def h2_frames(t):
    """(data bytes, Pad Length or -1, END_STREAM, padding octets present) per frame of an h2data line"""
    body, pos, out = gen_body(t[4]), 0, []
    for f in t[5].split(","):
        p = f.split(".")
        n = min(int(p[0]), len(body) - pos)
        out.append((body[pos:pos + n], int(p[1]), p[2] == "1", len(p) < 4))
        pos += n
    return body, out


def h2_oracle(line, out):
    """HTTP/2 DATA: the request body is the concatenation of the frames' data (padding removed), whatever
    the segmentation of the byte stream; a well-formed body is accepted without RST_STREAM; a body is
    reported complete to the backend side only when exactly the announced amount arrived"""
    t = line.split(" ")
    m = re.match(r"h2data state=(\w+) len=(-?\d+) rst=(\d+) goaway=(\d) st=(\d+) rb=(\S+) rq=(\d+) out=(\S+)$", out)
    if not m:
        return "h2 data: unreadable observation || " + out[:60]
    cl, maxkb = int(t[1]), int(t[2])
    body, frames = h2_frames(t)
    got = C.unhx(m.group(8))
    plain = all(f[3] for f in frames)          # every announced padding is really there
    if plain:
        # the body is the data of the accepted frames, in order (a refused frame is dropped as a whole)
        reach = {0}
        for d, _, _, _ in frames:
            reach |= {p + len(d) for p in reach if got[p:p + len(d)] == d}
        if len(got) not in reach or (m.group(5) == "0" and m.group(3) == "0" and got != body[:len(got)]):
            return "h2 data: request body contains bytes the client did not send as data"
    total = sum(len(f[0]) for f in frames)
    wellformed = plain and all(not f[2] for f in frames[:-1]) and frames[-1][2] and cl in (-1, total) \
        and (maxkb == 0 or total <= maxkb * 1024)
    if wellformed:
        if int(m.group(3)) or m.group(4) != "0" or m.group(5) != "0":
            return "h2 data: well-formed request body answered with RST_STREAM / GOAWAY / error status"
        if len(got) != total or int(m.group(2)) != total:
            return "h2 data: request body length differs from the data sent || %d / %s of %d" % (len(got), m.group(2), total)
        if int(m.group(7)):
            return "h2 data: frame bytes left unconsumed"
        if m.group(1) != "hcr" or m.group(6) != "ready":
            return "h2 data: complete body not reported ready / END_STREAM did not half-close the stream"
    if cl >= 0 and len(got) > cl:
        return "h2 data: more body accepted than Content-Length"
    if m.group(6) == "ready" and cl >= 0 and len(got) != cl:
        return "h2 data: body reported complete with other than Content-Length bytes"
    if m.group(6) == "ready" and plain and len(got) != int(m.group(2)):
        return "h2 data: body reported complete but its length is not the request body length"
    return None


def oracle_full(line, out):
    if line.startswith(("target ", "norm ")):
        return oracle_url(line, out)
    if line.startswith("h2data "):
        return h2_oracle(line, out) if out not in ("<crash>", "bad-op") else None
    if out == "<crash>" or out == "bad-op":
        return None
    c = Case(line.split(" P ")[0])
    parsed, res = parse_obs(out)
    if parsed is None:
        return None
    if c.op in BUF_OPS:
        return buf_oracle(c, res)
    if c.op in ("fcgi", "scgi", "uwsgi", "cgibody") and " len=-1 " in parsed and not c.sched[0].startswith("c"):
        # CGI-style gateways need CONTENT_LENGTH: gw_handle_subrequest() collects a chunked body first
        # (sched "c<n>") or answers 411 when streaming; create_env with an open length is not a server state
        return None
    if "ERROR" in res:
        return "harness: temp-file / drain error: " + res[:60]
    sh = simple_head(c.head)
    if sh is None:
        return None
    if c.op in GW_OPS:
        return gw_oracle(c, sh, res)
    try:
        if res.startswith("env "):
            toks = res.split(" ")
            env = [] if toks[1] == "-" else [tuple(C.unhx(x) for x in e.split("=")) for e in toks[1].split(",")]
            return check_env(c, sh, env, "env")
        if res.startswith("cgi "):
            return check_env(c, sh, envp_decode(C.unhx(res.split(" ")[2]))["env"], "cgi envp")
        if res.startswith("cgibody "):
            m = re.match(r"cgibody eof=(\d) pend=(\d+) out=(\S+)$", res)
            if not m:
                return "cgi stdin: " + res[:40]
            delivered, fixed, _ = schedule(c)
            decl = declared_length(c, sh)
            length = fixed if fixed is not None else decl
            if length is None:
                return None
            if length == 0:
                delivered = 0
            got, src = C.unhx(m.group(3)), c.body()
            if got != src[:delivered]:
                return "cgi stdin: body bytes differ from the client's || %d read, %d delivered" % (len(got), delivered)
            if int(m.group(2)):
                return "cgi stdin: request body bytes left behind in the server"
            if (m.group(1) == "1") != (delivered == length):
                return "cgi stdin: end of input does not coincide with the end of the body || eof=%s %d of %d" % (
                    m.group(1), delivered, length)
            return None
        if res.startswith("ok "):
            m = re.match(r"ok reqlen=(-?\d+) in=(\d+) pend=(\d+) out=(\S+)$", res)
            stream = C.unhx(m.group(4))
            if int(m.group(2)) != len(stream):
                return "%s: bytes queued and bytes drained differ || %s %d" % (c.op, m.group(2), len(stream))
            if c.op == "fcgi":
                dd = fcgi_decode(stream)
                want_role = 2 if c.fl & F_AUTH else 1
                if dd["role"] != want_role or dd["flags"] != 0:
                    return "fcgi: wrong role / flags in BEGIN_REQUEST || %d %d" % (dd["role"], dd["flags"])
                return check_env(c, sh, dd["env"], "fcgi") or check_body(c, sh, dd["body"], dd["closed"], "fcgi", True)
            if c.op == "scgi":
                dd = scgi_decode(stream)
                if dd["env"][-1:] != [(b"SCGI", b"1")]:
                    return "scgi: SCGI=1 header missing"
                return check_env(c, sh, dd["env"][:-1], "scgi") or check_body(c, sh, dd["body"], None, "scgi", False)
            if c.op == "uwsgi":
                dd = uwsgi_decode(stream)
                return check_env(c, sh, dd["env"], "uwsgi") or check_body(c, sh, dd["body"], None, "uwsgi", False)
            if c.op == "proxy":
                return check_proxy(c, sh, http_decode(stream))
    except Bad as e:
        return "%s: malformed backend message || %s" % (c.op, e)
    return None


BUF_OPS = ("scgibuf", "uwsgibuf")


def buf_fields(res):
    if not res.startswith("buf off="):
        return None
    try:
        return dict(x.split("=", 1) for x in res.split(" ")[1:])
    except ValueError:
        return None


def buf_oracle(c, res):
    """scgi_create_env() right after it returned: what the backend will read is a complete SCGI netstring /
    uwsgi packet followed by nothing but the body bytes queued so far; none of the reserved blanks is visible;
    the queue counters and the announced total describe exactly the visible bytes (stated on the
    implementation's own observation, decoded by the independent decoders)"""
    if "ERROR" in res or res.startswith("buf no-mem-chunk"):
        return "buf: unexpected observation: " + res[:60]
    o = buf_fields(res)
    if o is None:
        return None          # not routed to the backend / refused (nomatch, st=405, uwsgi st=400 / 431): nothing queued
    try:
        off, rl, bi, bo = int(o["off"]), int(o["reqlen"]), int(o["in"]), int(o["bo"])
        hid = b"" if o["hid"] == "-" else C.unhx(o["hid"])
        vis = b"" if o["out"] == "-" else C.unhx(o["out"])
    except (KeyError, ValueError):
        return "buf: unexpected observation: " + res[:60]
    try:
        d = scgi_decode(vis) if c.op == "scgibuf" else uwsgi_decode(vis)
    except Bad as e:
        return "buf: queued bytes are not a well-formed message: %s" % e
    hdr_len = len(vis) - len(d["body"])
    if c.op == "scgibuf":
        digits = len(re.match(rb"[0-9]+", vis).group(0))
        if off + digits + 1 != 10:
            return "buf: chunk offset %d + %d length digits + ':' is not the 10 reserved bytes" % (off, digits)
    elif off != 6:
        return "buf: uwsgi chunk offset %d (4-byte header in 10 reserved bytes)" % off
    if len(hid) != off or hid.strip(b" "):
        return "buf: bytes in front of the chunk offset are not the unused blanks"
    if bo != 0:
        return "buf: wb.bytes_out = %d after create_env (nothing was written)" % bo
    if bi != len(vis):
        return "buf: wb.bytes_in = %d but %d bytes are readable from the queue" % (bi, len(vis))
    env = dict(d["env"])
    try:
        cl = int(env.get(b"CONTENT_LENGTH", b""))
    except ValueError:
        return "buf: CONTENT_LENGTH missing or not a number"
    first = c.sched[0] if c.sched else "0"
    n0 = int(first[1:] if first.startswith("c") else first)
    want_body = c.body()[:n0] if cl != 0 else b""
    if d["body"] != want_body:
        return "buf: bytes behind the header block are not the body bytes queued so far"
    if rl != hdr_len + cl:
        return "buf: wb_reqlen %d != header block %d + CONTENT_LENGTH %d" % (rl, hdr_len, cl)
    return None


def oracle(line, out):
    """violation class only (one report per class); replay prints the details"""
    v = oracle_full(line, out)
    return v.split(" || ")[0] if v else None


HOP = (b"connection", b"proxy-connection", b"transfer-encoding", b"proxy", b"keep-alive-x")


def check_proxy(c, sh, req):
    what = "proxy"
    if c.fl & F_H2EXT:
        if req["method"] != b"GET":
            return "proxy: extended CONNECT not translated to GET"
    elif req["method"] != sh["method"]:
        return "proxy: method not forwarded unchanged || %r as %r" % (sh["method"], req["method"])
    tgt, rawpath, rawq = raw_pathquery(sh["target"])
    if b"?" in req["target"]:
        fq = req["target"].split(b"?", 1)[1]
    else:
        fq = b""
    if sh["method"] != b"CONNECT" and sh["target"] != b"*" and \
            unq(fq).replace(b"+", b" ") != unq(rawq).replace(b"+", b" "):
        return "proxy: query not forwarded unchanged || %r as %r" % (rawq[:60], fq[:60])
    hd = {}
    for k, v in req["headers"]:
        hd.setdefault(k.lower(), []).append(v)
    for k in (b"proxy", b"proxy-connection"):
        if k in hd:
            return "proxy: %s forwarded to the backend" % k.decode()
    conn = hd.get(b"connection")
    if conn is None or len(conn) != 1 or not re.match(rb"^close(, te)?(, upgrade)?$", conn[0]):
        return "proxy: Connection field is not 'close[, te][, upgrade]' || %r" % conn
    if b"te" in hd and hd[b"te"] != [b"trailers"] and [v.lower() for v in hd[b"te"]] != [b"trailers"]:
        return "proxy: TE other than trailers forwarded || %r" % hd[b"te"]
    if b", te" in conn[0] and b"te" not in hd:
        return "proxy: Connection: te without TE field"
    if len(hd.get(b"host", [])) > 1 or len(hd.get(b"content-length", [])) > 1:
        return "proxy: duplicate Host / Content-Length"
    if req["minor"] == 1 and b"host" not in hd:
        return "proxy: HTTP/1.1 request without Host"
    # body
    delivered, fixed, done = schedule(c)
    decl = declared_length(c, sh)
    length = fixed if fixed is not None else decl
    if c.fl & F_AUTH:
        if hd.get(b"content-length") != [b"0"] or req["body"]:
            return "proxy: authorizer request with a body"
    elif c.fl & F_H2EXT:
        pass                    # extended CONNECT: a tunnel, not a framed request body
    else:
        if req["chunked"]:
            if b"content-length" in hd:
                return "proxy: both Transfer-Encoding and Content-Length sent"
            v = check_body(c, sh, req["body"], req["closed"], what, True)
            if v:
                return v
        else:
            if length is None:
                if delivered or req["body"]:
                    return "proxy: body of unknown length forwarded without framing"
            else:
                cl = hd.get(b"content-length")
                if (length > 0 or sh["method"] not in (b"GET", b"HEAD")) and cl != [b"%d" % length]:
                    return "proxy: Content-Length is not the body length || %r for %d" % (cl, length)
                v = check_body(c, sh, req["body"], None, what, False)
                if v:
                    return v
    # end-to-end fields are forwarded unchanged
    skip = {b"host", b"connection", b"proxy-connection", b"proxy", b"transfer-encoding", b"te", b"upgrade",
            b"content-length", b"set-cookie", b"x-forwarded-for", b"x-forwarded-proto", b"x-forwarded-host",
            b"x-host", b"forwarded"}
    for k, v in merged_fields(sh["fields"]):
        if k.lower() in skip:
            continue
        if hd.get(k.lower()) != [v]:
            return "proxy: end-to-end field not forwarded unchanged || %r: %r as %r" % (k, v[:60], hd.get(k.lower()))
    for k in hd:
        if k not in skip and k not in (b"sec-websocket-key",) and \
                k not in [kk.lower() for kk, _ in sh["fields"]]:
            return "proxy: field forwarded that the client did not send || %r" % k
    xff = hd.get(b"x-forwarded-for", [b""])[0]
    if not xff.endswith(c.raddr):
        return "proxy: X-Forwarded-For does not end with the peer address || %r" % xff[:60]
    return None


def oracle_url(line, out):
    """url stream (h_url): with any normalisation options the query starts after the FIRST '?'"""
    t = line.split(" ")
    if t[0] != "target":
        return None
    o = out.split(" ")
    if o[0] != "ok" or t[2] != "0":
        return None
    raw = C.unhx(t[3])
    _, rawpath, rawq = raw_pathquery(raw)
    q = C.unhx(o[3])
    if unq(q).replace(b"+", b" ") != unq(rawq).replace(b"+", b" "):
        return "http_request_parse_target: query is not the request-target after the first '?' || %r for %r" % (q[:60], rawq[:60])
    return None


# ----------------------------------------------------------------------------- gw_handle_subrequest stream
GW_OPS = ("gfcgi", "gscgi", "guwsgi", "gproxy")


def chunk_raw(body, cseed):
    """chunked framing of `body` as the harness builds it for a k<len>.<seed>.<cseed>.<rawlen> token"""
    x = cseed & 0x7fffffff
    m = (16, 1000, 70000)[cseed % 3]
    out, pos = bytearray(), 0
    while pos < len(body):
        x = (x * 1103515245 + 12345) & 0x7fffffff
        sz = min(1 + (x >> 4) % m, len(body) - pos)
        out += b"%x%s\r\n" % (sz, b";ext=1" if (x & 3) == 0 else b"")
        out += body[pos:pos + sz] + b"\r\n"
        pos += sz
    return bytes(out + b"0\r\n\r\n")


def canon(out):
    """the record / chunk boundaries of a gw_handle_subrequest() run depend on read/write timing; both
    sides are compared after decoding with the independent decoders (env, body digest, termination)"""
    if " | g" not in out or " out=" not in out:
        return out
    import hashlib
    pre, hexs = out.rsplit(" out=", 1)
    op = pre.split(" | ", 1)[1].split(" ")[0]
    try:
        s = C.unhx(hexs)
        if op == "gfcgi":
            d = fcgi_decode(s)
            dec = "fcgi role=%d flags=%d closed=%d env=%s body=%d:%s" % (
                d["role"], d["flags"], d["closed"], ",".join(hx(k) + "=" + hx(v) for k, v in d["env"]),
                len(d["body"]), hashlib.sha1(d["body"]).hexdigest())
        elif op == "gproxy":
            d = http_decode(s)
            i = s.find(b"\r\n\r\n")
            dec = "http chunked=%d closed=%s head=%s body=%d:%s" % (
                d["chunked"], d["closed"], hx(s[:i + 4]), len(d["body"]), hashlib.sha1(d["body"]).hexdigest())
        else:
            d = scgi_decode(s) if op == "gscgi" else uwsgi_decode(s)
            dec = "%s env=%s body=%d:%s" % (op[1:], ",".join(hx(k) + "=" + hx(v) for k, v in d["env"]),
                                            len(d["body"]), hashlib.sha1(d["body"]).hexdigest())
    except Bad as e:
        return pre + " UNDECODABLE(%s) out=%s" % (e, hexs)
    return pre + " dec=" + dec


def gw_oracle(c, sh, res):
    """whole-request run: every client byte was delivered and the backend socket drained"""
    import hashlib
    if res in ("nomatch", "st=405"):
        return None
    m = re.match(r"g(\w+) rc=(\d+) st=(\d+)(?: gs=(\d+) d=(-?\d+) pend=(\d+) rq=(\d+) (.*))?$", res)
    if not m:
        return "gw: unreadable observation"
    op, st = m.group(1), int(m.group(3))
    decl = declared_length(c, sh)
    body = c.body()
    if st:
        if st == 411 and decl is None and c.fl & F_STREAMING and (op != "proxy" or c.fl & F_HTTP10):
            return None         # CGI-style gateway / HTTP/1.0 backend, streamed chunked body: Length Required
        if st in (400, 431) and len(c.head) > 60000:
            return None         # variables do not fit the protocol's size fields
        return "gw %s: request answered with an error instead of being passed to the backend || %d" % (op, st)
    rest = m.group(8)
    if rest.startswith("UNDECODABLE") or "dec=" not in rest:
        return "gw %s: malformed backend message || %s" % (op, rest[:120])
    if int(m.group(6)) or int(m.group(7)):
        return "gw %s: request body bytes left behind in the server || pend=%s rq=%s" % (op, m.group(6), m.group(7))
    dec = rest.split("dec=", 1)[1]
    mb = re.search(r"body=(\d+):([0-9a-f]{40})$", dec)
    if int(mb.group(1)) != len(body) or mb.group(2) != hashlib.sha1(body).hexdigest():
        return "gw %s: body received by the backend differs from the client's || %s of %d bytes" % (op, mb.group(1), len(body))
    env = None
    me = re.search(r" env=(\S+) body=", dec)
    if me:
        env = [tuple(C.unhx(x) for x in e.split("=")) for e in me.group(1).split(",")]
    if op == "fcgi":
        if " closed=1 " not in dec:
            return "gw fcgi: body complete but the stream is not terminated"
        if " role=1 flags=0 " not in dec:
            return "gw fcgi: wrong role / flags in BEGIN_REQUEST"
    if op == "scgi":
        if env[-1:] != [(b"SCGI", b"1")]:
            return "gw scgi: SCGI=1 header missing"
        env = env[:-1]
    if env is not None:
        cc = Case.__new__(Case)
        cc.__dict__.update(c.__dict__)
        cc.op = op
        cc.sched = ["c%d" % len(body)]      # CONTENT_LENGTH must be the (decoded) body length
        cc.bodytok = c.bodytok
        return check_env(cc, sh, env, "gw " + op)
    # proxy
    mh = re.search(r"http chunked=(\d) closed=(\S+) head=(\S+) body=", dec)
    head = C.unhx(mh.group(3))
    req = http_decode(head)
    hd = {}
    for k, v in req["headers"]:
        hd.setdefault(k.lower(), []).append(v)
    if mh.group(1) == "1":
        if mh.group(2) != "True":
            return "gw proxy: chunked upload not terminated by a last-chunk"
        if b"content-length" in hd:
            return "gw proxy: both Transfer-Encoding and Content-Length sent"
    elif (len(body) or sh["method"] not in (b"GET", b"HEAD")) and hd.get(b"content-length") != [b"%d" % len(body)]:
        return "gw proxy: Content-Length is not the body length || %r for %d" % (hd.get(b"content-length"), len(body))
    for k in (b"proxy", b"proxy-connection"):
        if k in hd:
            return "gw proxy: %s forwarded to the backend" % k.decode()
    if not re.match(rb"^close(, te)?(, upgrade)?$", (hd.get(b"connection") or [b""])[0]):
        return "gw proxy: Connection field is not 'close[, te][, upgrade]'"
    return None


# ----------------------------------------------------------------------------- coverage classes
def size_class(n):
    for b, name in ((0, "0"), (1, "1"), (127, "<128"), (65534, "<64K"), (65535, "65535"), (65536, "65536"),
                    (131070, "<128K"), (262143, "<256K"), (262144, "256K"), (1048576, "<=1M")):
        if n <= b:
            return name
    return ">1M"


def classify(line, out):
    t = line.split(" ", 3)
    if t[0] in ("target", "norm"):
        return "url:%s:%s" % (t[1], out.split(" ")[0])
    if t[0] == "h2data":
        tt = line.split(" ")
        frames = tt[5].split(",")
        o = dict(x.split("=", 1) for x in out.split(" ")[1:] if "=" in x)
        return "h2data:%s,rst%s,ga%s,st%s,%s:cl%s:max%d:cons%s:f%d:pad%d%s:seg%s:b%s" % (
            o.get("state"), min(int(o.get("rst", "0")), 2), o.get("goaway"), o.get("st"), o.get("rb"),
            "-" if tt[1] == "-1" else "+", tt[2] != "0", tt[3], min(len(frames), 5),
            any(f.split(".")[1] != "-1" for f in frames), "x" if any(f.endswith(".x") for f in frames) else "",
            tt[6].split(",")[0] if len(tt[6]) < 6 else "mix",
            size_class(sum(int(f.split(".")[0]) for f in frames)))
    parsed, res = parse_obs(out)
    if parsed is None:
        return "%s:rejected:%s" % (t[0], res[:8])
    if t[0] in BUF_OPS:
        o = buf_fields(res)
        if o is None:
            return "%s:%s" % (t[0], res[:8])
        fl = int(t[2])
        n = 0 if o["out"] == "-" else len(o["out"]) // 2
        return "%s:off%s:pend%d:body%d:tmp%d:h2%d:len%s" % (t[0], o["off"], o["pend"] != "0", int(o["in"]) != int(o["reqlen"]),
                                                     bool(fl & F_TEMP), bool(fl & F_H2), size_class(n))
    fl = int(t[2])
    if t[0] in GW_OPS:
        m = re.match(r"g\w+ rc=(\d+) st=(\d+)(?: gs=(\d+) d=(-?\d+))?", res)
        if not m:
            return "%s:%s" % (t[0], res[:8])
        c = Case(line.split(" P ")[0])
        return "%s:st%s:gs%s:d%s:fl%x:b%s:%s:steps%d" % (t[0], m.group(2), m.group(3), m.group(4), fl & (F_STREAMING | F_HTTP10 | F_CHECKLOCAL),
                                                     size_class(len(c.body())), c.bodytok[0], min(len(c.sched), 6))
    if t[0] == "cgibody":
        c = Case(line.split(" P ")[0])
        delivered, fixed, done = schedule(c)
        return "cgibody:%s:fl%x:b%s:seg%d%s" % (res[:13], fl & (F_TEMP | F_STREAMING), size_class(delivered),
                                                min(len(c.sched), 4), ":slow" if c.reader else "")
    kind = res.split(" ")[0]
    key = "%s:%s:fl%x" % (t[0], kind if not kind.startswith("st=") else kind, fl & (F_AUTH | F_CHECKLOCAL | F_H2EXT | F_UPGRADE | F_TEMP | F_STREAMING | F_HTTP10))
    if kind == "ok":
        c = Case(line.split(" P ")[0])
        delivered, fixed, done = schedule(c)
        key += ":b%s:seg%d%s" % (size_class(delivered), min(len(c.sched), 4), "e" if done else "")
        m = re.search(r"reqlen=(-?\d+) in=(\d+)", res)
        key += ":" + ("complete" if m.group(1) == m.group(2) else "neg" if m.group(1).startswith("-") else "open")
    return key


# ----------------------------------------------------------------------------- generators
METHODS = [b"GET", b"GET", b"POST", b"POST", b"PUT", b"HEAD", b"DELETE", b"OPTIONS", b"PATCH", b"PROPFIND"]
PATHS = [b"/app", b"/app/", b"/app/x/y", b"/app.php", b"/app.php/info/more", b"/index.php", b"/", b"/cgi-bin/t.cgi/pi",
         b"/app/a%20b", b"/app/%7Euser", b"/app/a/../b", b"/app//x", b"/app/./y", b"/App/X", b"/app/x%3fy", b"/app/%2e%2e/z",
         b"/app/caf%C3%A9", b"/other/file.txt", b"/app/x.php", b"/a", b"/app/x%2fy", b"/app;v=1/z"]
QUERIES = [b"", b"", b"?", b"?a=1", b"?a=1&b=2", b"?a?b", b"?a=1?b=2?c", b"??", b"?a%3fb", b"?a+b%20c", b"?a#frag", b"#frag?x",
           b"?x=/../y", b"?%00"[:1] + b"a=%41", b"?q=caf%C3%A9", b"?a=b=c;d"]
HOSTS_ = [b"www.example.org", b"Example.ORG", b"example.org:8080", b"127.0.0.1", b"a-b.c:80", b"ex.org."]
EXTS = [b"/", b"/", b"/", b"/", b"/app", b"/app", b"/app", b".php", b"/app/", b"/cgi-bin/", b".cgi", b"/app.php", b"/a", b"/a"]
FIELDS = [(b"Accept", [b"*/*", b"text/html, */*;q=0.1"]), (b"User-Agent", [b"x/1.0 (y; z)"]),
          (b"Cookie", [b"a=1", b"b=2; c=3"]), (b"X-Foo", [b"bar", b"a b", b"\"q\""]), (b"X_Foo", [b"under"]),
          (b"x-foo", [b"lower"]), (b"X.Foo", [b"dot"]), (b"Content-Type", [b"text/plain", b"application/x-www-form-urlencoded"]),
          (b"content-type", [b"text/plain"]), (b"Content_Type", [b"evil/underscore"]), (b"Content_Length", [b"999"]),
          (b"Proxy", [b"http://evil.example:3128/"]), (b"proxy", [b"evil"]), (b"PROXY", [b"evil"]),
          (b"Proxy-Connection", [b"keep-alive"]), (b"Proxy-Authorization", [b"Basic eA=="]), (b"Proxy_", [b"x"]),
          (b"Http-Proxy", [b"x"]), (b"Connection", [b"close", b"keep-alive", b"keep-alive, TE", b"Upgrade", b"TE, close"]),
          (b"TE", [b"trailers", b"Trailers", b"gzip", b"trailers, deflate"]), (b"Upgrade", [b"websocket", b"h2c"]),
          (b"Remote-Addr", [b"6.6.6.6"]), (b"Remote_Addr", [b"6.6.6.6"]), (b"Script-Name", [b"/evil"]),
          (b"Server-Name", [b"evil"]), (b"Query-String", [b"evil=1"]), (b"Request-Uri", [b"/evil"]),
          (b"Https", [b"on"]), (b"Document-Root", [b"/evil"]), (b"Gateway-Interface", [b"x"]),
          (b"X-Forwarded-For", [b"10.0.0.1", b"10.0.0.1, 2001:db8::2 ,  \"q\""]), (b"Forwarded", [b"for=10.0.0.9;proto=http"]),
          (b"X-Forwarded-Proto", [b"https"]), (b"X-Host", [b"evil"]), (b"Set-Cookie", [b"reflected=1"]),
          (b"Sec-WebSocket-Key", [b"dGhlIHNhbXBsZSBub25jZQ=="]), (b"Authorization", [b"Basic dTpw"]),
          (b"Range", [b"bytes=0-1"]), (b"If-None-Match", [b"\"a\"", b"\"b\""]), (b"X-1", [b"digit"]), (b"X-Y-", [b"dash"]),
          (b"X!y~z", [b"odd"]), (b"Keep-Alive", [b"timeout=5"]), (b"Expect", [b"100-continue"]),
          (b"X-Long-Name-" + b"n" * 120, [b"k128"]), (b"X-V128", [b"v" * 128, b"v" * 127, b"v" * 300])]
SRVS = [(b"192.0.2.1:8080", "4.0.9"), (b":80", "4.1.0"), (b"[2001:db8::1]:443", "6.0.13"), (b"[::]:80", "6.1.4"),
        (b"/run/lighttpd.sock", "u.0.18"), (b"192.0.2.1", "4.0.9"), (b"0.0.0.0:81", "4.1.7")]
SNAMES = [None, None, None, b"conf.example.org", b"name.example:81", b"[2001:db8::5]:8443", b"[::1]", b""]
RENVS = [(), (), ((b"REMOTE_USER", b"bob"), (b"AUTH_TYPE", b"Basic")), ((b"weird-key.1", b"v"),),
         ((b"REMOTE_USER", b"o\"brien\\"),), ((b"SSL_PROTOCOL", b"TLSv1.3"), (b"empty", b""))]
RADDRS = [b"198.51.100.7", b"198.51.100.7", b"2001:db8::7", b"10.1.2.3"]


def gen_head(rng, body_len=None, chunked=False, extra=(), v11=False):
    m = rng.choice(METHODS)
    if body_len is not None or chunked:
        m = rng.choice([b"POST", b"PUT", b"POST", b"PATCH"])
    path = rng.choice(PATHS)
    q = rng.choice(QUERIES)
    tgt = path + q
    if rng.random() < 0.04:
        tgt = rng.choice([b"http://", b"https://", b"HTTP://"]) + rng.choice(HOSTS_) + tgt
    v = b"HTTP/1.1" if v11 or rng.random() < 0.85 else b"HTTP/1.0"
    fl = []
    if v == b"HTTP/1.1" or rng.random() < 0.5:
        fl.append((rng.choice([b"Host", b"host", b"HOST"]), rng.choice(HOSTS_)))
    for _ in range(rng.choice([0, 1, 2, 3, 3, 4, 6, 9])):
        k, vs = rng.choice(FIELDS)
        fl.append((k, rng.choice(vs)))
    fl += list(extra)
    if chunked:
        fl.append((rng.choice([b"Transfer-Encoding", b"transfer-encoding"]), rng.choice([b"chunked", b"Chunked"])))
        if rng.random() < 0.1:
            fl.append((b"Content-Length", b"7"))
    elif body_len is not None:
        fl.append((rng.choice([b"Content-Length", b"content-length"]), b"%d" % body_len))
    elif m in (b"POST", b"PUT", b"PATCH"):
        fl.append((b"Content-Length", b"0"))
    rng.shuffle(fl)
    out = m + b" " + tgt + b" " + v + b"\r\n"
    for k, val in fl:
        r = rng.random()
        if r < 0.9:
            out += k + b": " + val + b"\r\n"
        elif r < 0.94:
            out += k + b":" + val + b"\r\n"
        elif r < 0.97:
            out += k + b":  \t" + val + b" \r\n"
        else:
            out += k + b": " + val + b"\r\n " + b"folded\r\n"
    return out + b"\r\n"


def stream_flag(rng):
    """server.stream-request-body 1 or 2"""
    return F_STREAM if rng.random() < 0.6 else F_STREAM2


def gen_cfg(rng, op):
    fl = 0
    for bit, p in ((F_AUTH, 0.06), (F_BREAKPHP, 0.15), (F_FIXROOT, 0.2), (F_CHECKLOCAL, 0.15), (F_HTTPS, 0.2),
                   (F_ERRSAVED, 0.1), (F_H2, 0.1), (F_H2EXT, 0.04), (F_UPGRADE, 0.25)):
        if rng.random() < p:
            fl |= bit
    if op == "proxy":
        if rng.random() < 0.15:
            fl |= F_HTTP10
    d = dict(po=rng.choice(OPTS), fl=fl, ext=rng.choice(EXTS),
             docroot=rng.choice([None, None, None, b"/var/www", b"/var/www/", b"/", b""]),
             strip=rng.choice([None, None, None, b"/app", b"/ap", b"/app/x", b"", b"/"]),
             basedir=rng.choice([b"/srv/www", b"/srv/www/", b"/"]),
             pinfo=rng.choice([0, 0, 0, 0, 1, 1, 2, 3]),
             srv=rng.choice(SRVS), sname=rng.choice(SNAMES), raddr=rng.choice(RADDRS),
             rport=rng.choice([4711, 1, 65535, 0]), tag=rng.choice([b"lighttpd/1.4.82", b"lighttpd", None, b""]),
             renv=rng.choice(RENVS))
    if not (fl & F_CHECKLOCAL or op == "cgi") or op == "proxy":
        d["pinfo"] = 0          # the filesystem path-info split only happens on the check-local route
    if op == "proxy":
        px = str(rng.choice([0, 0, 1, 2, 4, 6, 16, 23, 7]))
        if rng.random() < 0.15:
            px += "." + hx(rng.choice([b"backend.internal:8080", b"b"]))
        d["px"] = px
    return d


def rand_sched(rng, total, partial_ok=True):
    """arrival schedule for `total` body bytes"""
    k = rng.random()
    if total == 0:
        return "0"
    if k < 0.3:
        parts = [total]
    elif k < 0.45:
        parts = [0, total]
    elif k < 0.6:
        parts = [1, total - 1]
    else:
        n = rng.randint(2, 6)
        cuts = sorted(rng.randint(0, total) for _ in range(n - 1))
        parts = [b - a for a, b in zip([0] + cuts, cuts + [total])]
    if partial_ok and rng.random() < 0.08 and parts:
        parts[-1] = parts[-1] // 2
    return ",".join(str(p) for p in parts)


def body_tok(rng, n):
    if n == 0:
        return "-"
    if n <= 48 and rng.random() < 0.5:
        return "h" + hx(bytes(rng.choice(b"abc\x00\r\n\xff01") for _ in range(n)))
    return "r%d.%d" % (n, rng.randint(0, 99999))


SMALL_SIZES = [0, 0, 1, 2, 5, 17, 100, 127, 128, 1000, 4096]
EDGE_SIZES = [65527, 65528, 65534, 65535, 65536, 65537, 131069, 131070, 131071, 131072, 196605, 196606,
              262143, 262144, 262145, 262151, 300000, 327675, 524287, 524288, 524289]


def gen_cases(ctx):
    rng = ctx.rng
    q = ctx.quick
    lines = []
    # 1. variables and small bodies, all ops
    n_small = 26000 if q else 200000
    for i in range(n_small):
        op = OPS[i % len(OPS)]
        cfg = gen_cfg(rng, op)
        if op in STREAM_OPS:
            kind = rng.random()
            if kind < 0.55:
                n = rng.choice(SMALL_SIZES)
                head = gen_head(rng, body_len=n if (n or rng.random() < 0.5) else None)
                cfg["body"], cfg["sched"] = body_tok(rng, n), rand_sched(rng, n)
            elif kind < 0.8:
                # chunked request body: collected first (c<n>), or streamed to the backend
                n = rng.choice(SMALL_SIZES)
                head = gen_head(rng, chunked=True, v11=True)
                cfg["body"] = body_tok(rng, n)
                if rng.random() < 0.5:
                    cfg["sched"] = "c%d" % n
                else:
                    cfg["fl"] |= stream_flag(rng)
                    cfg["sched"] = rand_sched(rng, n, False) + (",e" if rng.random() < 0.9 else "")
            else:
                head = gen_head(rng)
            if rng.random() < 0.1:
                cfg["fl"] |= F_TEMP
            if rng.random() < 0.15:
                cfg["fl"] |= stream_flag(rng)
        else:
            n = rng.choice(SMALL_SIZES)
            head = gen_head(rng, body_len=n) if rng.random() < 0.4 else gen_head(rng, chunked=rng.random() < 0.1, v11=True)
        lines.append(mkline(op, head, **fix_cfg(cfg, op)))
    # 2. PARAMS / vars block around the 65535 limit, 4-byte name lengths
    for pad in list(range(63800, 65300, 97 if q else 13)) + [65300 + 7 * i for i in range(0, 30 if q else 200)]:
        for op in ("fcgi", "uwsgi", "scgi"):
            cfg = gen_cfg(rng, op)
            cfg["po"] = 0
            cfg["ext"] = b"/"
            cfg["fl"] &= ~(F_H2EXT | F_AUTH | F_CHECKLOCAL)
            head = b"POST /app/x?q HTTP/1.1\r\nHost: h\r\nContent-Length: 3\r\nX-Pad: " + b"p" * pad + b"\r\n\r\n"
            if len(head) > 65535:
                continue
            cfg["body"], cfg["sched"] = "h616263", "3"
            lines.append(mkline(op, head, **fix_cfg(cfg, op)))
    # 3. bodies around the record / write-limit boundaries, every framing backend, schedules, temp files
    sizes = list(EDGE_SIZES)
    if q:
        sizes = rng.sample(sizes, 12) + [65535, 65536, 262144, 262145]
        sizes += [1048576 + rng.randint(-2, 2)]
    else:
        sizes = sizes * 3 + [1048575, 1048576, 1048577, 2 * 1048576 + 1, 4 * 1048576, 4 * 1048576 + 65535]
    for n in sizes:
        for op in STREAM_OPS:
            for rep in range(1 if q else 2):
                cfg = gen_cfg(rng, op)
                cfg["fl"] &= ~(F_H2EXT | F_AUTH)
                cfg["ext"] = b"/"
                chunked = rng.random() < 0.3
                head = gen_head(rng, body_len=None if chunked else n, chunked=chunked, v11=chunked)
                cfg["body"] = body_tok(rng, n)
                if chunked:
                    if op == "proxy" and rng.random() < 0.6:
                        cfg["fl"] |= stream_flag(rng)
                        cfg["sched"] = rand_sched(rng, n, False) + ",e"
                    else:
                        cfg["sched"] = "c%d" % n
                else:
                    cfg["sched"] = rand_sched(rng, n)
                if rng.random() < 0.5:
                    cfg["fl"] |= F_TEMP
                lines.append(mkline(op, head, **fix_cfg(cfg, op)))
    # 4. mod_cgi: request body to the script's stdin (pipe, or the single temp file itself)
    csizes = SMALL_SIZES + [16383, 16384, 16385, 65535, 65536, 65537, 131072, 300000] + ([1048576 + 1] if q else [1048576 + 1, 4194304 + 7])
    for i in range(700 if q else 6000):
        n = csizes[i % len(csizes)] if i < 3 * len(csizes) else rng.choice(SMALL_SIZES + [16384, 65536, 70000])
        cfg = gen_cfg(rng, "cgi")
        chunked = rng.random() < 0.25
        head = gen_head(rng, body_len=None if chunked else n, chunked=chunked, v11=chunked)
        cfg["body"] = body_tok(rng, n)
        cfg["fl"] &= ~(F_H2EXT | F_STREAMING | F_TEMP)
        if rng.random() < 0.5:
            cfg["fl"] |= F_TEMP
        if rng.random() < 0.4:
            cfg["fl"] |= stream_flag(rng)
        # (not streaming: the script is started once the body is complete, so no partial deliveries)
        cfg["sched"] = "c%d" % n if chunked else rand_sched(rng, n, bool(cfg["fl"] & F_STREAMING))
        lines.append(mkline("cgibody", head, **fix_cfg(cfg, "cgi")))
    # 5. mod_cgi with back-pressure: bodies well beyond the 64 KiB pipe, streamed (the script runs while the body
    #    arrives) or collected first, in memory or temp-file chunks, and a script that starts reading late and
    #    reads slowly: write attempts meet a completely full pipe (EAGAIN) at chunk / 16 KiB block boundaries
    bsizes = [65536, 65537, 81920, 98304, 131072, 200000, 262144, 300000, 400000, 524288 + 3]
    for i in range(160 if q else 1500):
        n = bsizes[i % len(bsizes)]
        cfg = gen_cfg(rng, "cgi")
        chunked = rng.random() < 0.15
        head = gen_head(rng, body_len=None if chunked else n, chunked=chunked, v11=chunked)
        cfg["body"] = body_tok(rng, n)
        cfg["fl"] &= ~(F_H2EXT | F_STREAMING | F_TEMP)
        if rng.random() < 0.5:
            cfg["fl"] |= F_TEMP
        if not chunked and i % 5 != 4:
            cfg["fl"] |= F_STREAM if i % 2 else F_STREAM2
        streaming = bool(cfg["fl"] & F_STREAMING)
        if chunked or not streaming:
            sched = "c%d" % n if chunked else str(n)
        else:
            k = rng.random()
            if k < 0.3:
                sched = str(n)                                     # whole body there before the first write
            elif k < 0.6:
                step = rng.choice([16384, 32768, 65536, 65536, 100000])
                sched = ",".join(str(min(step, n - o)) for o in range(0, n, step))
            else:
                sched = rand_sched(rng, n, rng.random() < 0.2)
        late = rng.choice([0, 1, 2, 3, 5, 8, 20])
        rd = rng.choice([0, 1024, 4096, 16384, 16384, 65536, 70000])
        cfg["sched"] = sched + ",s%d.%d" % (late, rd)
        lines.append(mkline("cgibody", head, **fix_cfg(cfg, "cgi")))
    return lines


def buf_cases(ctx):
    """scgi_create_env() at buffer level: the reserved 10 bytes, the right-aligned length / poked-in packet header,
    the chunk offset and the queue counters.  Generated requests + an exhaustive sweep of the header-block size
    over the 3->4 and 4->5 digit boundaries of the netstring length + the uwsgi 65535 limit"""
    rng = ctx.rng
    q = ctx.quick
    lines = []

    def one(op, head, n=None, chunked=False, fixed_cfg=False):
        base = op[:-3]
        cfg = gen_cfg(rng, base)
        if fixed_cfg:
            cfg["po"], cfg["ext"] = 0, b"/"
            cfg["fl"] &= ~(F_H2EXT | F_AUTH | F_CHECKLOCAL)
        if n is not None:
            cfg["body"] = body_tok(rng, n)
            cfg["sched"] = ("c%d" % n) if chunked else rand_sched(rng, n)
            if rng.random() < 0.2:
                cfg["fl"] |= F_TEMP
        lines.append(mkline(op, head, **fix_cfg(cfg, base)))
        ctx.dist["buf:%s:%s" % (op, "chunked-collected" if chunked else "no-body" if n is None else
                                "body-" + size_class(n))] += 1

    for i in range(4000 if q else 40000):
        op = BUF_OPS[i % 2]
        k = rng.random()
        if k < 0.5:
            n = rng.choice(SMALL_SIZES + [65536, 70000])
            one(op, gen_head(rng, body_len=n if (n or rng.random() < 0.5) else None), n)
        elif k < 0.7:
            n = rng.choice(SMALL_SIZES)
            one(op, gen_head(rng, chunked=True, v11=True), n, chunked=True)
        else:
            one(op, gen_head(rng))
    # exhaustive small scope: every header-block size in two windows (netstring length 999|1000, 9999|10000)
    sweep = list(range(0, 1100)) + list(range(8900, 9800))
    for pad in sweep:
        head = b"POST /app/x?q HTTP/1.1\r\nHost: h\r\nContent-Length: 3\r\nX-Pad: " + b"p" * pad + b"\r\n\r\n"
        for op in BUF_OPS if pad < 1100 else ("scgibuf",):
            cfg = dict(po=0, fl=0, ext=b"/", body="h616263", sched="3")
            lines.append(mkline(op, head, **cfg))
            ctx.dist["buf:%s:pad-sweep-%s" % (op, "0..1099" if pad < 1100 else "8900..9799")] += 1
    # uwsgi block around 65535 (431), SCGI with 5 digits
    for pad in list(range(64700, 65300, 23 if q else 3)):
        head = b"POST /app/x?q HTTP/1.1\r\nHost: h\r\nContent-Length: 3\r\nX-Pad: " + b"p" * pad + b"\r\n\r\n"
        if len(head) > 65535:
            continue
        for op in BUF_OPS:
            cfg = dict(po=0, fl=0, ext=b"/", body="h616263", sched="3")
            lines.append(mkline(op, head, **cfg))
            ctx.dist["buf:%s:pad-64700..65300" % op] += 1
    return lines


def gw_cases(ctx):
    """requests run by the real gw_handle_subrequest(): client framing x streaming mode x read/write timing"""
    rng = ctx.rng
    q = ctx.quick
    lines = []
    sizes = [0, 0, 1, 5, 100, 4096, 16384, 49151, 49152, 65535, 65536, 65537, 70000, 131072, 200000, 262144, 262145,
             300000]
    big = [524289, 1048576 + 3] if q else [524289, 1048576 + 3, 2097152 + 1, 4194304, 4194304 + 65536]
    n_cases = 2400 if q else 20000
    for i in range(n_cases):
        op = GW_OPS[i % 4]
        n = rng.choice(sizes if i >= len(big) * 8 else big + sizes)
        if i < len(big) * 8:
            n = big[(i // 8) % len(big)]
        elif rng.random() < 0.5:
            n = rng.choice([0, 1, 3, 17, 200, 1000, 5000])
        cfg = gen_cfg(rng, op[1:])
        cfg["fl"] &= ~(F_AUTH | F_H2 | F_H2EXT | F_UPGRADE | F_TEMP)
        mode = rng.random()
        if mode < 0.45:
            cfg["fl"] |= stream_flag(rng)
        chunked = rng.random() < 0.45
        seed = rng.randint(0, 99999)
        head = gen_head(rng, body_len=None if chunked else n, chunked=chunked, v11=chunked)
        head = head.replace(b"Expect:", b"X-Expect:").replace(b"Upgrade:", b"X-Upgrade:")
        if rng.random() < 0.85:
            cfg["ext"] = b"/"
        if chunked:
            cseed = rng.randint(0, 9999)
            raw = chunk_raw(gen_body("r%d.%d" % (n, seed)) if n else b"", cseed)
            cfg["body"] = "k%d.%d.%d.%d" % (n, seed, cseed, len(raw))
            total = len(raw)
        else:
            cfg["body"] = "r%d.%d" % (n, seed) if n else "-"
            total = n
        # timing: interleaved client deliveries and backend socket capacities
        steps = []
        k = rng.random()
        if k < 0.25:
            steps = []
        elif k < 0.5:
            steps = ["c%d" % total]
        else:
            left = total
            for _ in range(rng.randint(1, 7)):
                if rng.random() < 0.6 and left:
                    d = rng.choice([1, 2, 7, 100, 4096, 16384, 65536, left, max(1, left // 2)])
                    d = min(d, left)
                    left -= d
                    steps.append("c%d" % d)
                else:
                    steps.append("w%d" % rng.choice([0, 1, 8, 100, 4096, 16384, 32768, 49152, 65536, 262144, 10 ** 9]))
        cfg["sched"] = ",".join(steps) if steps else "x"
        lines.append(mkline(op, head, **fix_cfg(cfg, op[1:])))
    return lines


def h2_cases(ctx):
    """HTTP/2 request bodies: DATA frame sizes, padding, END_STREAM placement, Content-Length, max-request-size,
    a streaming consumer, segmentation"""
    rng = ctx.rng
    lines = []
    segs = ["0", "0", "9", "9", "10", "1", "2", "7", "16384", "8192", "4096", "9,1", "9,5000", "3,6,1"]
    for i in range(6000 if ctx.quick else 60000):
        k = rng.random()
        if k < 0.55:
            n = rng.randint(0, 40)
        elif k < 0.88:
            n = rng.choice([0, 1, 2, 5, 17, 100, 1000, 5000])
        else:
            n = rng.choice([16128, 16384, 20000, 65535, 65536, 65537, 70000, 200000])
        frames, left = [], n
        while True:
            pad = -1 if rng.random() < 0.5 else rng.choice([0, 1, 2, 7, 100, 255])
            room = 16384 - (1 + pad if pad >= 0 else 0)
            d = min(left, rng.choice([0, 1, 2, 9, 100, 1000, 8192, room, room]) if left else 0)
            left -= d
            last = left == 0 and (rng.random() < 0.8 or len(frames) > 40)
            frames.append([d, pad, 1 if last else 0, ""])
            if last:
                break
        cl = -1 if rng.random() < 0.4 else n
        k = rng.random()
        if k < 0.08:
            cl = max(n + rng.choice([1, -1, 5, -5, 100]), 0) if n else 1   # Content-Length mismatch
        elif k < 0.12 and len(frames) > 1:
            frames[rng.randrange(len(frames) - 1)][2] = 1                  # END_STREAM too early
        elif k < 0.16:
            f = rng.choice(frames)                                         # Pad Length without the padding octets
            if f[0] < 16384:                                               # (frame stays within SETTINGS_MAX_FRAME_SIZE)
                if f[1] < 0:
                    f[1] = rng.choice([0, 1, 3, 200])
                f[3] = ".x"
        maxkb = 0
        if rng.random() < 0.15:
            maxkb = rng.choice([1, 1, 4, 16, 64, 100])
        cons = 1 if rng.random() < 0.35 else 0
        seg = rng.choice(segs) if rng.random() < 0.8 else ",".join(str(rng.choice([1, 2, 9, 10, 100, 5000, 16393])) for _ in range(rng.randint(2, 5)))
        body = "r%d.%d" % (n, rng.randint(0, 99999)) if n else "-"
        lines.append("h2data %d %d %d %s %s %s" % (cl, maxkb, cons, body,
                                                  ",".join("%d.%d.%d%s" % tuple(f) for f in frames), seg))
    return lines


def url_cases(ctx):
    """query delimiter under every normalisation option set (defect D4: last '?' taken)"""
    rng = ctx.rng
    lines = []
    alpha = [b"/", b"a", b"?", b"?", b"%3f", b"%3F", b"=", b"&", b"%20", b"+", b"#", b".", b"%2f", b"b"]
    for _ in range(6000 if ctx.quick else 60000):
        s = b"/" + b"".join(rng.choice(alpha) for _ in range(rng.randint(1, 10)))
        lines.append("target %d 0 %s" % (rng.choice(OPTS), hx(s)))
    for p in PATHS:
        for qq in QUERIES:
            for po in OPTS:
                lines.append("target %d 0 %s" % (po, hx(p + qq)))
    return lines


def fix_cfg(cfg, op):
    """the filesystem path-info split (pinfo) only exists on the check-local route / for mod_cgi"""
    if op == "proxy" or not (cfg["fl"] & F_CHECKLOCAL or op == "cgi"):
        cfg["pinfo"] = 0
    return cfg


def add_parsed(exe, lines):
    """stage 1: let the real parser produce the parsed request that the model takes as input"""
    pl = []
    for l in lines:
        t = l.split(" ")
        pl.append("parse %s %s %s" % (t[1], t[2], t[16]))
    o, rc, e = C.parallel_lines([exe], pl)
    if rc != 0 or len(o) != len(pl):
        o = o + ["err 0"] * (len(pl) - len(o))
    return [l + " P " + (p if p and p != "<crash>" else "err 0") for l, p in zip(lines, o)]


def run(ctx):
    exe, err = C.build_harness("h_cgi")
    if exe is None:
        ctx.broken.append({"kind": "harness-build", "names": ["h_cgi"], "log": err[-3000:]})
        return
    lines = add_parsed(exe, gen_cases(ctx))
    small = [l for l in lines if len(l) < 20000 and " r" not in l]
    big = [l for l in lines if not (len(l) < 20000 and " r" not in l)]
    ctx.differential("backend-request(env/cgi/fcgi/scgi/uwsgi/proxy)", [exe], "cgi", small, oracle, classify)
    ctx.differential("backend-request(large PARAMS / large bodies)", [exe], "cgi", big, oracle, classify)
    ctx.differential("scgi_create_env at buffer level (reserved bytes, in-place header, chunk offset, counters)", [exe],
                     "cgi", add_parsed(exe, buf_cases(ctx)), oracle, classify)
    glines = add_parsed(exe, gw_cases(ctx))
    ctx.differential("gw_handle_subrequest (client framing, streaming modes, read/write timing)", [exe], "cgi",
                     glines, oracle, classify, canon=canon)
    ctx.differential("HTTP/2 DATA -> request body (frame sizes, padding, segmentation)", [exe], "cgi", h2_cases(ctx),
                     oracle, classify)
    uexe, uerr = C.build_harness("h_url")
    if uexe is None:
        ctx.broken.append({"kind": "harness-build", "names": ["h_url"], "log": uerr[-3000:]})
    else:
        ctx.differential("request-target split (first '?')", [uexe], "url", url_cases(ctx), oracle, classify)
    ctx.rule = ("cases: grammar-generated request heads (meta-variable look-alike, Proxy*, hop-by-hop, colliding "
                "and long field names) x backend configuration (extension kind, check-local, docroot, "
                "strip-request-uri, authorizer, upgrade, h2) x body size and arrival schedule; distinct = "
                "(operation, outcome, mode flags, body size class, schedule shape, completion state) tuples")
    ctx.assumptions += ["the request head is parsed by the real parser (modelled and checked under C01); the model "
                        "takes the parsed field list and re-derives path/query with the C02 target model; that a "
                        "Transfer-Encoding field is never stored is C01's model (c09_te_consumed_not_stored) and a "
                        "hypothesis (WfReq) of the proxy framing theorems",
                        "backend connect(), response reading, process management and the event loop of gw_backend.c are "
                        "not executed in-process; the backend socket is scripted (accepts a given number of bytes per event)",
                        "HTTP/2: stream 4 runs h2_parse_frames/h2_recv_data/h2_recv_reqbody on DATA frames of one stream; "
                        "HEADERS decoding, flow-control credit and multi-stream scheduling are C05/C06/C07",
                        "with check-local enabled the path-info split is done by http_response_physical_pathinfo "
                        "(modelled and checked end-to-end under C03); here the harness applies a stat-free imitation "
                        "and the model receives its result as input",
                        "mod_cgi: the variable list and the envp block are the real code's; the stdin hand-over runs "
                        "the real cgi_write_request on the pipe path; the single-tempfile shortcut of cgi_create_env "
                        "(fd passed to the child) is imitated by the harness, not executed",
                        "getsockname() on the client socket fails in the harness (SERVER_ADDR empty for wildcard sockets)"]


def replay_line(ctx, rep):
    line = rep["input"]
    if line.startswith(("target ", "norm ")):
        exe, err = C.build_harness("h_url")
        model = "url"
    else:
        exe, err = C.build_harness("h_cgi")
        model = "cgi"
        if not line.startswith("h2data "):
            base = line.split(" P ")[0]
            line = add_parsed(exe, [base])[0]       # re-parse with the current tree
    o, rc, e = C.run_lines([exe], [line])
    m, _, _ = C.run_model(model, [line])
    if line.split(" ")[0] in GW_OPS:
        o, m = [canon(x) for x in o], [canon(x) for x in m]
    print("input:", line[:2000])
    print("impl :", [x[:2000] for x in o], rc)
    print("model:", [x[:2000] for x in m])
    v = oracle_full(line, o[0]) if o else "crash"
    print("oracle:", v)
    if v or (o != m):
        print("VIOLATION property=%s replay=(replayed)" % ctx.pid)
        return 1
    return 0
