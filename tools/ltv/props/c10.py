"""C10 — backend responses are relayed faithfully; broken ones never look complete."""
import collections, itertools, os, select, socket, struct, threading, time
from .. import common as C

MANIFEST = dict(
    text="Lean 4 theorems over executable byte automata of the backend response path. PROVED (all inputs): the "
         "backend chunked decoder (round trip incl. the encoder's own hex rendering, truncated never complete, "
         "malformed rejected, same result for every split) and FastCGI record reassembly (padding never leaks, "
         "truncated stream never ends the request, same result for every split) as separate layers; storage of "
         "end-to-end fields; exact HTTP/1.1 wire image of a one-read Content-Length response; and, over ALL runs of "
         "the composite relay (reachability invariant), what lighttpd does when the backend stream breaks: own "
         "complete 500/502 with the exact Content-Length while the response head is unsent, otherwise nothing "
         "appended + keep-alive off (HTTP/2: RST_STREAM), a bodiless response (HEAD, 304) is complete with its "
         "head. TESTED ONLY (correspondence + oracle, not theorems): that every split of a WHOLE response gives the "
         "client the same message, CGI/NPH status mapping, 1xx, trailers, re-chunking, 64 KiB head limit, that a "
         "failure detected while reading (bad chunk framing, early END_REQUEST) ends in the same paths, and that "
         "an abort is visible to the client (false for HTTP/1.0 close-delimited responses: known finding KF10, "
         "witness theorem). The model is tied to the C by differential runs of the real gw_backend.c/mod_fastcgi.c/"
         "http-header-glue.c/http_chunk.c/response.c/h1.c code over a socketpair (every split of short responses, "
         "every cut point, all end kinds, HEAD/304/204, temp-file spill and splice) under ASan/UBSan, and by "
         "running the real sanitized lighttpd (mod_proxy, mod_scgi, mod_fastcgi, mod_cgi; h1.c and h2.c) against "
         "scripted backends over TCP with HTTP/1.0, HTTP/1.1 and HTTP/2 clients, with an independent strict "
         "client-side parser as property oracle and a segmentation oracle (same octets, different reads, same "
         "client-side response)",
    note="trusted: Lean kernel; hand-written models validated by the h_beresp correspondence; the "
         "harness-owned connection state machine stub (mirrors connection_state_machine_loop / the h2 "
         "per-stream loop; in the harness HTTP/2 is observed at the level of logical frames, h2.c itself and "
         "mod_cgi.c's event glue run only in the end-to-end stream); one unproved model invariant is a "
         "hypothesis of the truncation theorems (a body that lighttpd chunk-encodes itself has no known "
         "Content-Length); socket behaviour beyond read() results, authorizer/upgrade/X-Sendfile/"
         "local-redirect modes and reconnects (C11) are outside the model",
    tech="Lean 4 proof over hand-written model + differential correspondence (in-process C harness and real server)",
    ref="6/C10")

CRLF = b"\r\n"


# ------------------------------------------------------------------ building backend responses
def hexsz(n, rng=None):
    s = b"%x" % n
    if rng is not None:
        r = rng.random()
        if r < 0.15:
            s = s.upper()
        elif r < 0.25:
            s = b"0" * rng.randint(1, 2) + s
    return s


def enchunk(body, sizes, trailers=(), rng=None, exts=False):
    out, i = b"", 0
    for n in sizes:
        if n <= 0:
            continue
        piece = body[i:i + n]
        if not piece:
            break
        i += len(piece)
        ext = b""
        if exts and rng is not None and rng.random() < 0.3:
            ext = rng.choice([b";a=b", b" ;x", b";", b"\t"])
        out += hexsz(len(piece), rng) + ext + CRLF + piece + CRLF
    if i < len(body):
        out += hexsz(len(body) - i) + CRLF + body[i:] + CRLF
    out += b"0" + CRLF
    for k, v in trailers:
        out += k + b": " + v + CRLF
    return out + CRLF


def render(d):
    """d: dict(style, status, reason, fields, framing, body, sizes, trailers, interim, eol)"""
    eol = d.get("eol", CRLF)
    out = b""
    for st, fl in d.get("interim", ()):
        if d["style"] == "nph":
            out += b"HTTP/1.1 %d Info" % st + eol
        else:
            out += b"Status: %d" % st + eol
        for k, v in fl:
            out += k + b": " + v + eol
        out += eol
    fl = list(d["fields"])
    if d["style"] == "nph":
        out += d.get("proto", b"HTTP/1.1") + b" %d" % d["status"] + d.get("reason", b" OK") + eol
    elif d["style"] == "cgi" and d["status"] is not None:
        fl.insert(d.get("statuspos", 0) % (len(fl) + 1), (b"Status", b"%d" % d["status"] + d.get("reason", b"")))
    body = d["body"]
    fr = d["framing"]
    if fr == "cl":
        fl.insert(d.get("clpos", len(fl)) % (len(fl) + 1), (b"Content-Length", b"%d" % d.get("clen", len(body))))
    elif fr == "chunked":
        fl.insert(d.get("clpos", len(fl)) % (len(fl) + 1), (b"Transfer-Encoding", b"chunked"))
        ann = d.get("announce")          # None: as sent; True: announce although none is sent; False: never
        if (d.get("trailers") and ann is not False) or ann:
            fl.append((b"Trailer", b", ".join(k for k, _ in d["trailers"]) if d.get("trailers") else b"X-T"))
    for k, v in fl:
        out += k + b": " + v + eol
    out += eol
    if fr == "chunked":
        out += enchunk(body, d.get("sizes", [len(body)]), d.get("trailers", ()), d.get("rng"), d.get("exts", False))
    else:
        out += body
    return out


FIELD_POOL = [(b"Content-Type", [b"text/plain", b"text/html; charset=utf-8", b"application/javascript",
                                 b"application/javascript; charset=x", b"application/json"]),
              (b"X-Foo", [b"bar", b"a b", b"\"q\"", b"x" * 40]), (b"x-foo", [b"second"]),
              (b"Set-Cookie", [b"a=1", b"b=2; Path=/", b"c=3"]), (b"Cache-Control", [b"no-cache", b"max-age=60"]),
              (b"ETag", [b"\"abc\"", b"W/\"x\""]), (b"Last-Modified", [b"Sat, 29 Oct 1994 19:43:31 GMT"]),
              (b"Vary", [b"Accept-Encoding", b"*"]), (b"Link", [b"</a>; rel=preload"]),
              (b"Content-Encoding", [b"gzip"]), (b"Server", [b"backend/1.0"]), (b"Date", [b"Tue, 15 Nov 1994 08:12:31 GMT"]),
              (b"Location", [b"/there", b"http://ex.org/x"]), (b"WWW-Authenticate", [b"Basic realm=\"r\""]),
              (b"X-Long-Header-Name-For-Testing", [b"v"]), (b"Content-Language", [b"en"]),
              (b"Expires", [b"0"]), (b"Pragma", [b"no-cache"]), (b"Age", [b"1"])]
KBPS_VALUES = [b"100", b"0", b"-1", b"-5", b"9007199254740993", b"9223372036854775807", b"-9223372036854775808",
               b"99999999999999999999", b"abc", b" 7"]
ODD_FIELDS = [(b"Connection", [b"close", b"keep-alive", b"Close", b"foo, close", b"closed", b"upgrade"]),
              (b"Upgrade", [b"websocket", b"h2c"]), (b"HTTP2-Settings", [b"AAAA"]),
              (b"Status", [b"201", b"404 Not Found", b"abc", b"99", b"2000", b"200x"]),
              (b"X-Sendfile", [b"/etc/passwd"]), (b"X-LIGHTTPD-send-file", [b"/x"]), (b"X-Lighttpd-Foo", [b"1"]),
              (b"X-LIGHTTPD-KBytes-per-second", KBPS_VALUES),
              (b"Content-Length", [b"3", b"+4", b"5 ", b"abc", b"", b"99999999999999999999", b"0"]),
              (b"Transfer-Encoding", [b"chunked", b"gzip"]), (b"Bad Name", [b"v"]), (b"Bad ", [b"v"]),
              (b"Empty", [b""]), (b"", [b"v"]), (b"Keep-Alive", [b"timeout=5"])]
STATUSES = [200, 200, 200, 200, 201, 204, 206, 301, 302, 304, 400, 401, 403, 404, 500, 502, 503, 599, 205, 299]
BODY_ALPHA = b"ab\r\n0;:\x00\xff "


def rand_body(rng, n):
    return bytes(rng.choice(BODY_ALPHA) for _ in range(n))


def rand_fields(rng, n, odd=0.0):
    out = []
    for _ in range(n):
        k, vs = rng.choice(ODD_FIELDS if rng.random() < odd else FIELD_POOL)
        out.append((k, rng.choice(vs)))
    return out


def rand_resp(rng, be, valid=True):
    d = {}
    d["style"] = "nph" if be == "proxy" or rng.random() < 0.25 else "cgi"
    d["status"] = rng.choice(STATUSES)
    if d["style"] == "cgi" and rng.random() < 0.4:
        d["status"] = None
    d["reason"] = rng.choice([b" OK", b" OK", b"", b" Some Reason", b" "]) if d["style"] == "nph" else \
        rng.choice([b"", b"", b" OK"])
    d["proto"] = rng.choice([b"HTTP/1.1", b"HTTP/1.1", b"HTTP/1.0"]) if valid else \
        rng.choice([b"HTTP/1.1", b"HTTP/1.0", b"HTTP/2.0", b"HTTP/1.2", b"HTTP/11", b"http/1.1", b"HTTP/1.1x"])
    d["fields"] = rand_fields(rng, rng.randint(0, 4), 0.0 if valid else 0.35)
    d["statuspos"] = rng.randint(0, 5)
    d["clpos"] = rng.randint(0, 5)
    fr = rng.choice(["cl", "cl", "chunked", "chunked", "eof"])
    if be != "proxy" and fr == "chunked" and rng.random() < 0.5:
        fr = "eof"
    d["framing"] = fr
    n = rng.choice([0, 1, 2, 3, 5, 8, 13, 30, 100])
    d["body"] = rand_body(rng, n)
    if fr == "chunked":
        k = rng.randint(1, 3)
        d["sizes"] = [rng.randint(1, max(1, n)) for _ in range(k)]
        d["rng"] = rng
        d["exts"] = rng.random() < 0.3
        if rng.random() < 0.3:
            d["trailers"] = [(rng.choice([b"X-T", b"X-Sum", b"ETag"]), rng.choice([b"v", b"\"t\"", b"a b"]))
                             for _ in range(rng.randint(1, 2))]
        if rng.random() < 0.15:
            d["announce"] = rng.random() < 0.7
    if fr == "cl" and not valid and rng.random() < 0.5:
        d["clen"] = max(0, n + rng.choice([-2, -1, 1, 3]))
    if rng.random() < 0.15:
        d["interim"] = [(rng.choice([100, 102, 103, 103, 199]),
                         rand_fields(rng, rng.randint(0, 2)) + ([(b"Content-Length", b"0")] if rng.random() < 0.2 else []))
                        for _ in range(rng.randint(1, 2))]
    if rng.random() < 0.12:
        d["eol"] = b"\n"
    return d


# ------------------------------------------------------------------ FastCGI records
def fcgi_rec(t, data, pad=0, rid=1, ver=1):
    return struct.pack(">BBHHBB", ver, t, rid, len(data), pad, 0) + data + b"\0" * pad


def fcgi_wrap(rng, data, end=True, stderr=True):
    """pack a CGI-style response into STDOUT records (random sizes/padding, STDERR interleaved)"""
    out, i = b"", 0
    while i < len(data):
        n = rng.choice([1, 2, 3, 5, 8, 16, 40, 200, len(data)])
        piece = data[i:i + n]
        i += len(piece)
        out += fcgi_rec(6, piece, rng.choice([0, 0, 0, 1, 3, 7, 8]), rng.choice([1, 1, 1, 0, 7]))
        if stderr and rng.random() < 0.1:
            out += fcgi_rec(7, rng.choice([b"warn", b"", b"x" * 20]), rng.choice([0, 4]))
        if rng.random() < 0.04:
            out += fcgi_rec(rng.choice([1, 2, 4, 5, 8, 9, 10, 11, 99]), b"zz", rng.choice([0, 2]))
        if rng.random() < 0.05:
            out += fcgi_rec(6, b"", rng.choice([0, 5]))
    if end:
        if rng.random() < 0.8:
            out += fcgi_rec(6, b"")
        out += fcgi_rec(3, b"\0" * 8, rng.choice([0, 0, 8]))
    return out


# ------------------------------------------------------------------ segmentation
def all_splits(data):
    n = len(data)
    for mask in range(1 << max(0, n - 1)):
        segs, cur = [], data[:1]
        for i in range(1, n):
            if mask >> (i - 1) & 1:
                segs.append(cur); cur = b""
            cur += data[i:i + 1]
        segs.append(cur)
        yield segs


def rand_split(rng, data, k=None):
    if len(data) <= 1:
        return [data] if data else []
    if k is None:
        k = rng.choice([1, 1, 2, 2, 3, 4, 6, len(data)])
    k = min(k, len(data))
    cuts = sorted(rng.sample(range(1, len(data)), k - 1))
    return [data[a:b] for a, b in zip([0] + cuts, cuts + [len(data)])]


def split_region(data, lo, hi):
    """every composition of data[lo:hi] (≤ 13 bytes), the rest in one piece each side"""
    for mid in all_splits(data[lo:hi]):
        segs = []
        if lo:
            segs.append(data[:lo])
        segs += mid
        if hi < len(data):
            segs.append(data[hi:])
        yield segs


def line(be, ver, stream, meth, end, segs):
    return "relay %s %d %d %s %s %s" % (be, ver, stream, meth, end, " ".join(C.hx(s) for s in segs if s) or "-")


BES = ["proxy", "cgi", "scgi", "fcgi"]
VERS = [11, 11, 11, 10, 20]
ENDS = ["eof", "eof", "eof", "rst", "err", "hup", "none"]


def corrupt1(blk, rng, nonul=False):
    i = rng.randrange(len(blk))
    b = bytes([rng.choice([0, 9, 10, 13, 32, 58, 59, 48, 49, 65, 102, 103, 127, 255, rng.randint(0, 255)])])
    if nonul and b == b"\0":
        b = b"\x01"
    kind = rng.randint(0, 2)
    if kind == 0:
        return blk[:i] + b + blk[i + 1:]
    if kind == 1:
        return blk[:i] + b + blk[i:]
    return blk[:i] + blk[i + 1:]


import re as _re
_NUL_LASTCHUNK = _re.compile(rb"(?:^|\n)[ \t]*0+(?:[^0-9a-fA-F\n][^\n]*)?\x00[^\n]*\n|\r\n\r\n\x00|\n\n\x00")


def outside_model(data):
    """Inputs on which the C is read-boundary dependent in ways the byte automaton does not describe
    (documented in Model/HttpChunkDecode.lean): a NUL byte inside a last-chunk line, or as the first
    byte after an empty line, of a stream that may be decoded as chunked.  Conservative over-approximation."""
    if b"\x00" not in data:
        return False
    if b"ransfer-" not in data and b"RANSFER-" not in data.upper():
        return False
    return _NUL_LASTCHUNK.search(data) is not None


def gen_relay(ctx):
    rng = ctx.rng
    lines = []
    n = 30000 if ctx.quick else 300000
    for _ in range(n):
        be = rng.choice(BES)
        valid = rng.random() < 0.7
        d = rand_resp(rng, be, valid)
        data = render(d)
        if not valid and rng.random() < 0.5 and data:
            data = corrupt1(data, rng, d["framing"] == "chunked")
        end = rng.choice(ENDS)
        if rng.random() < 0.3 and data:
            data = data[:rng.randrange(len(data) + 1)]           # backend stops early
        if outside_model(data):
            data = data.replace(b"\x00", b"\x01")
        if be == "fcgi":
            complete = rng.random() < 0.75
            data = fcgi_wrap(rng, data, end=complete)
            if rng.random() < 0.15 and data:
                data = data[:rng.randrange(len(data) + 1)]
        segs = rand_split(rng, data)
        lines.append(line(be, rng.choice(VERS), rng.choice([0, 1, 1, 2]), "H" if rng.random() < 0.08 else "G", end, segs))
    return lines


# ------------------------------------------------------------------ independent reference: backend side
TOKEN = set(b"!#$%&'*+-.^_`|~0123456789abcdefghijklmnopqrstuvwxyzABCDEFGHIJKLMNOPQRSTUVWXYZ")
HOP = {b"connection", b"keep-alive", b"transfer-encoding", b"content-length", b"date", b"server", b"status",
       b"upgrade", b"http2-settings", b"trailer", b"te", b"proxy-connection"}


def fcgi_decode(data):
    """independent FastCGI record decoder: (stdout bytes, END_REQUEST seen, clean=no partial record)"""
    out, i, ended = b"", 0, False
    while len(data) - i >= 8 and not ended:
        ver, t, rid, clen, pad, _ = struct.unpack(">BBHHBB", data[i:i + 8])
        if len(data) - i - 8 < clen + pad:
            break
        if t == 6:
            out += data[i + 8:i + 8 + clen]
        elif t == 3:
            ended = True
        i += 8 + clen + pad
    return out, ended, i == len(data)


def ref_dechunk(data):
    """strict RFC 9112 7.1 decoder: ('ok', body, trailers, used) | ('more', body) | ('bad', body)"""
    i, body = 0, b""
    while True:
        j = data.find(b"\n", i)
        if j < 0:
            return ("more", body) if len(data) - i < 1024 else ("bad", body)
        ln = data[i:j + 1]
        if len(ln) > 1024:
            return ("lenient", body)          # implementation limit of lighttpd (any split: rejected)
        if not ln.endswith(CRLF):
            return ("bad", body)
        k = 0
        while k < len(ln) and chr(ln[k]) in "0123456789abcdefABCDEF":
            k += 1
        if k == 0:
            return ("bad", body)
        rest = ln[k:-2].lstrip(b" \t")
        if k > 15 or (rest and not rest.startswith(b";")):
            return ("lenient", body)          # not RFC syntax, but not clearly broken framing either
        size = int(ln[:k], 16)
        i = j + 1
        if size == 0:
            e = data.find(b"\r\n\r\n", j - 1)
            if e < 0:
                return ("more", body)
            tr = []
            for tl in data[i:e + 2].split(CRLF):
                if tl and b":" in tl:
                    a, b_ = tl.split(b":", 1)
                    tr.append((a, b_.strip(b" \t")))
            return ("ok", body, tr, e + 4)
        take = data[i:i + size]
        body += take
        if len(take) < size:
            return ("more", body)
        i += size
        tail = data[i:i + 2]
        if len(tail) < 2:
            if tail and tail != b"\r":
                return ("bad", body)
            return ("more", body)
        if tail != CRLF:
            return ("bad", body)
        i += 2


def ref_fields(lines):
    """strict field-line parser; None when any line is not `token ":" OWS value OWS` """
    out = []
    for l in lines:
        if b":" not in l:
            return None
        k, v = l.split(b":", 1)
        if not k or any(c not in TOKEN for c in k):
            return None
        v = v.strip(b" \t")
        if any((c < 32 and c != 9) or c == 127 for c in v):
            return None
        out.append((k, v))
    return out


def ref_backend(data, be):
    """Classify what the backend sent (independent of lighttpd's leniency).
    returns dict(kind=..., ...):
      kind 'nohead'   the header block was never completed
      kind 'badhead'  not acceptable as a response head at all (proxy: no HTTP/1.x status line;
                      SCGI/FastCGI: first line is not a field)
      kind 'lenient'  something a strict parser would not accept (or a lighttpd special case) that is not
                      clearly broken: only the generic checks apply
      kind 'msg'      strictly well-formed head: interims, status, fields, framing, body, complete, badframing"""
    msgs = []
    rest = data
    while True:
        # header block: lines up to the first empty line
        pos, lines, eols, end = 0, [], set(), None
        while True:
            j = rest.find(b"\n", pos)
            if j < 0:
                break
            l = rest[pos:j]
            pos = j + 1
            if l in (b"", b"\r"):
                eols.add(b"\r\n" if l else b"\n")
                end = pos
                break
            if l.endswith(b"\r"):
                eols.add(b"\r\n"); l = l[:-1]
            else:
                eols.add(b"\n")
            lines.append(l)
        if lines:
            first = lines[0]
            if b":" not in first and (not first.startswith(b"HTTP/") or len(first) < 11):
                # lighttpd: CGI output without header is passed on as body; others: 502
                return dict(kind="lenient" if be == "cgi" else "badhead")
        if end is None:
            return dict(kind="nohead")
        if not lines:
            return dict(kind="lenient", why="empty head")
        if len(eols) != 1 or any(b"\r" in l for l in lines):
            return dict(kind="lenient", why="mixed line ends")
        if end > 60000:
            return dict(kind="lenient", why="huge head")
        after = rest[end:]
        status = None
        first = lines[0]
        if first.startswith(b"HTTP/"):
            ok = len(first) >= 12 and first[5:6] == b"1" and first[6:7] == b"." and first[7:8] in (b"0", b"1") \
                and first[8:9] == b" " and first[9:12].isdigit()
            if not ok:
                return dict(kind="badhead" if be == "proxy" else "lenient", why="status line")
            if not (len(first) == 12 or first[12:13] == b" ") or int(first[9:12]) < 100:
                return dict(kind="lenient", why="status line tail")
            status = int(first[9:12])
            lines = lines[1:]
        elif be == "proxy":
            return dict(kind="badhead")
        fl = ref_fields(lines)
        if fl is None:
            return dict(kind="lenient", why="field syntax")
        names = [k.lower() for k, _ in fl]
        if status is None:
            st = [v for k, v in fl if k.lower() == b"status"]
            if len(st) > 1:
                return dict(kind="lenient", why="two Status")
            if st:
                if not (st[0][:3].isdigit() and len(st[0]) >= 3 and (len(st[0]) == 3 or st[0][3:4] == b" ")):
                    return dict(kind="lenient", why="Status value")
                status = int(st[0][:3])
            elif b"location" in names:
                status = 302
            else:
                status = 200
        elif b"status" in names:
            return dict(kind="lenient", why="Status with status line")
        if status < 100 or status > 599:
            return dict(kind="lenient", why="status range")
        for odd in (b"connection", b"upgrade", b"http2-settings", b"keep-alive", b"x-sendfile", b"x-sendfile2"):
            if odd in names:
                return dict(kind="lenient", why="hop-by-hop field from backend")
        if any(n.startswith(b"x-lighttpd-") for n in names):
            return dict(kind="lenient", why="x-lighttpd")
        if 100 <= status < 200 and status != 101:
            # ("Content-Length: 0" in an interim response is common and harmless: it says nothing about the final one)
            if b"transfer-encoding" in names or any(v.strip() != b"0" for k, v in fl if k.lower() == b"content-length"):
                return dict(kind="lenient", why="framing in 1xx")
            msgs.append((status, [(k, v) for k, v in fl if k.lower() != b"status"]))
            rest = after
            continue
        if status == 101:
            return dict(kind="lenient", why="101")
        cl = [v for k, v in fl if k.lower() == b"content-length"]
        te = [v for k, v in fl if k.lower() == b"transfer-encoding"]
        if len(cl) > 1 or len(te) > 1 or (cl and te):
            return dict(kind="lenient", why="ambiguous framing")
        r = dict(kind="msg", interims=msgs, status=status, trailers=[], excess=0, afterlen=len(after),
                 fields=[(k, v) for k, v in fl if k.lower() not in HOP], badframing=False)
        if te:
            if te[0].lower() != b"chunked":
                return dict(kind="lenient", why="transfer-encoding value")
            d = ref_dechunk(after)
            r["framing"] = "chunked"
            r["body"] = d[1]
            if d[0] == "lenient":
                return dict(kind="lenient", why="chunk-size line syntax")
            r["complete"] = d[0] == "ok"
            r["badframing"] = d[0] == "bad"
            if d[0] == "ok":
                if ref_fields([k + b":" + v for k, v in d[2]]) is None or \
                        any(b":" not in tl for tl in after[:d[3]].split(b"\r\n0")[-1].split(CRLF)[1:] if tl):
                    return dict(kind="lenient", why="trailer syntax")
                if (b"trailer" in names) != bool(d[2]):
                    return dict(kind="lenient", why="Trailer announcement does not match")
                r["trailers"] = d[2]
                r["excess"] = len(after) - d[3]
        elif cl:
            if not cl[0].isdigit() or int(cl[0]) > 2 ** 62:
                return dict(kind="lenient", why="content-length value")
            n = int(cl[0])
            r["framing"] = "cl"
            r["clen"] = n
            r["body"] = after[:n]
            r["complete"] = len(after) >= n
            r["excess"] = max(0, len(after) - n)
        else:
            r["framing"] = "eof"
            r["body"] = after
            r["complete"] = None          # decided by how the stream ended
        return r


# ------------------------------------------------------------------ independent reference: client side
def client_h1(wire, head_req):
    """strict HTTP/1.x client: interim responses, then one final response.
    returns dict(ok=False, why) on a syntax error, else
    dict(ok, interims, version, status, fields, framing, body, trailers, complete, excess)"""
    pos, interims = 0, []
    while True:
        e = wire.find(b"\r\n\r\n", pos)
        if e < 0:
            if pos == len(wire) and not interims:
                return dict(ok=True, empty=True, complete=False, interims=[], status=None)
            return dict(ok=True, empty=False, complete=False, interims=interims, status=None, headonly=True)
        lines = wire[pos:e].split(CRLF)
        sl = lines[0]
        if not (len(sl) >= 13 and sl[:7] == b"HTTP/1." and sl[7:8] in (b"0", b"1") and sl[8:9] == b" "
                and sl[9:12].isdigit() and sl[12:13] == b" "):
            return dict(ok=False, why="status line")
        status = int(sl[9:12])
        fields = []
        for l in lines[1:]:
            if b":" not in l:
                return dict(ok=False, why="field line without colon")
            k, v = l.split(b":", 1)
            if not k or any(c not in TOKEN for c in k):
                return dict(ok=False, why="field name is not a token", fieldsyntax=True)
            v = v.strip(b" \t")
            if b"\r" in v or b"\n" in v or b"\x00" in v:
                return dict(ok=False, why="field value contains CR, LF or NUL", fieldsyntax=True)
            fields.append((k, v))
        pos = e + 4
        if 100 <= status < 200 and status != 101:
            interims.append((status, fields))
            continue
        break
    names = [k.lower() for k, _ in fields]
    cl = [v for k, v in fields if k.lower() == b"content-length"]
    te = [v for k, v in fields if k.lower() == b"transfer-encoding"]
    r = dict(ok=True, empty=False, interims=interims, version=sl[5:8], status=status, fields=fields, trailers=[],
             excess=0, conn=[v.lower() for k, v in fields if k.lower() == b"connection"])
    after = wire[pos:]
    if head_req or status in (204, 304) or 100 <= status < 200:
        r.update(framing="none", body=b"", complete=True, excess=len(after))
    elif te:
        if len(te) != 1 or te[0].lower() != b"chunked" or cl or sl[5:8] != b"1.1":
            return dict(ok=False, why="contradictory framing fields (Transfer-Encoding / Content-Length / version)")
        d = ref_dechunk(after)
        if d[0] in ("bad", "lenient"):
            return dict(ok=False, why="chunked framing invalid", chunksyntax=True)
        r.update(framing="chunked", body=d[1], complete=d[0] == "ok")
        if d[0] == "ok":
            r["trailers"] = d[2]
            r["excess"] = len(after) - d[3]
    elif cl:
        if len(cl) != 1 or not cl[0].isdigit():
            return dict(ok=False, why="Content-Length is not a number", clsyntax=True)
        n = int(cl[0])
        r.update(framing="cl", clen=n, body=after[:n], complete=len(after) >= n, excess=max(0, len(after) - n))
    else:
        r.update(framing="close", body=after, complete=None)
    return r


def client_h2(evs):
    """logical HTTP/2 view from the harness events"""
    r = dict(ok=True, empty=not evs, interims=[], status=None, fields=[], body=b"", trailers=[], complete=False,
             rst=False, framing="h2", excess=0)
    for t in evs:
        if t[0] in "IH":
            _, st, hx_ = t.split(":")
            fl = []
            for l in C.unhx(hx_).split(CRLF):
                if l and b": " in l:
                    k, v = l.split(b": ", 1)
                    fl.append((k, v))
            if t[0] == "I":
                r["interims"].append((int(st), fl))
            else:
                r["status"], r["fields"] = int(st), fl
        elif t[0] == "W":
            r["body"] += C.unhx(t[2:])
        elif t[0] == "T":
            for l in C.unhx(t[2:]).split(CRLF):
                if l and b":" in l:
                    k, v = l.split(b":", 1)
                    r["trailers"].append((k, v.strip(b" \t")))
            r["complete"] = True
        elif t == "E":
            r["complete"] = True
        elif t == "R":
            r["rst"] = True
    return r


def by_name(fields):
    d = {}
    for k, v in fields:
        lk = k.lower()
        if lk in HOP or lk.startswith(b"x-lighttpd-") or lk in (b"x-sendfile",):
            continue
        v = v.strip(b" \t\r")
        if not v:
            continue                          # lighttpd does not store fields with an empty value
        if lk == b"content-type" and v.startswith(b"application/javascript"):
            v = b"text/javascript" + v[22:]   # documented rewrite in http_response_process_headers
        d.setdefault(lk, []).append(v)
    return d


def backend_bad_cl(resp):
    """the (last) response head from the backend carries a Content-Length that is not a number < 2^63"""
    for l in resp.split(b"\n"):
        if l[:15].lower() == b"content-length:":
            v = l[15:].strip(b" \t\r")
            if v.startswith(b"+"):
                v = v[1:]
            if v and (not v.isdigit() or int(v) > 2 ** 63 - 1):
                return True
    return False


M_KA_CL = ("Content-Length-delimited response cut short by the backend is relayed with keep-alive: the client "
           "cannot see the truncation and takes the next response as body")
M_KA_BADCL = ("invalid Content-Length value from the backend is relayed verbatim and the connection is kept alive "
              "(the client cannot delimit the message)")
M_KA_INC = "connection kept alive although the client-side message is incomplete or not self-delimited"
M_KA_EXC = "bytes follow the end of the client-side message on a kept-alive connection"
M_CL_EXC = "more body bytes sent to the client than the announced Content-Length"
M_SYNTAX = "client-side message is not valid HTTP: "
M_NOHEAD = "response ended without a response head"
M_PRE = "backend failed before it delivered a usable response head, but the client did not get a 5xx"
M_BROKEN_H1 = ("backend response that is truncated / has malformed chunked framing / was cut off by a backend "
               "failure is presented to the HTTP/1.x client as a complete non-5xx response (failure after the "
               "backend head was parsed, before the client head was sent: computed Content-Length)")
M_BROKEN_H1S = ("backend response that is truncated / has malformed chunked framing / was cut off by a backend "
                "failure is completed towards the HTTP/1.x client although the response head had already been "
                "sent (chunked message terminated with a last-chunk / Content-Length fulfilled)")
M_BROKEN_H2 = ("backend response that is truncated / malformed / cut off by a backend failure ends the HTTP/2 "
               "stream with END_STREAM (complete) instead of RST_STREAM")
M_BROKEN_H10 = ("HTTP/1.0 client: a backend response cut off after the response head was sent ends like a complete "
                "close-delimited message (orderly close; the client cannot tell it from the end of the body)")
M_RELAY = "complete well-formed backend response is not relayed faithfully: "


def oracle(line, out):
    t = line.split(" ")
    if t[0] == "dechunk":
        return oracle_dechunk(t, out)
    if t[0] == "fcgi":
        return oracle_fcgi(t, out)
    if t[0] != "relay":
        return None
    be, ver, stream, head_req, end = t[1], int(t[2]), int(t[3]), t[4] == "H", t[5]
    data = b"".join(C.unhx(x) for x in t[6:])
    o = out.split(" ")
    evs = [x for x in o if x in ("E", "R") or x[:2] in ("W:", "I:", "H:", "T:")]
    kv = dict(x.split("=", 1) for x in o if "=" in x and x[:2] not in ("W:", "I:", "H:", "T:"))
    cend = kv.get("end")
    if "READERR" in out:
        return "harness could not read back the client queue"
    # ---- what the backend sent
    ended = True
    if be == "fcgi":
        resp, ended, _ = fcgi_decode(data)
    else:
        resp = data
    ref = ref_backend(resp, be)
    if ref["kind"] == "msg" and (head_req or ref["status"] == 304):
        # RFC 9112 6.3: a response to HEAD and a 304 end with the head, whatever Content-Length / Transfer-Encoding
        # announce: the backend message is complete, however the stream ends afterwards
        ref = dict(ref, framing="none", complete=True, badframing=False, trailers=[],
                   excess=ref["afterlen"], body=b"")      # (octets behind the head: sloppy backend, lenient)
    good = ref["kind"] == "msg" and not ref["badframing"]
    # ---- what the client saw
    if ver == 20:
        cv = client_h2(evs)
    else:
        wire = b"".join(C.unhx(x[2:]) for x in evs if x[0] == "W")
        cv = client_h1(wire, head_req)
    if not cv["ok"]:
        if cv.get("clsyntax") and cend == "ka" and backend_bad_cl(resp):
            return M_KA_BADCL
        if (cv.get("fieldsyntax") or cv.get("clsyntax") or cv.get("chunksyntax")) and not good:
            return None                      # garbage from the backend passed through (lenient territory)
        return M_SYNTAX + cv["why"]
    if cv.get("status") == 101:
        return None                          # protocol switch: outside this property (Upgrade is switched off)
    started = not cv.get("empty") and cv.get("status") is not None
    # ---- generic: keep-alive only after exactly one complete, self-delimited message
    if cend == "ka":
        if not started:
            return M_KA_INC
        if cv["complete"] is not True:
            if cv.get("framing") == "cl" and backend_bad_cl(resp):
                return M_KA_BADCL
            if cv.get("framing") == "cl" and good and ref.get("framing") == "cl" and ref.get("complete"):
                return M_RELAY + ("fewer body bytes than the Content-Length the backend announced and delivered, "
                                  "on a connection that is kept alive")
            return M_KA_CL if cv.get("framing") == "cl" else M_KA_INC
        if cv["excess"]:
            return M_KA_EXC
    if started and ver != 20 and cv["framing"] == "cl" and cv["excess"]:
        return M_CL_EXC
    if not started:
        return None if cend == "pend" else M_NOHEAD
    nobody = head_req or cv["status"] in (204, 205, 304)
    # ---- is the backend stream, as a whole, broken?
    clean = end in ("eof", "hup")
    broken = pre = False
    if end != "none" or (be == "fcgi" and ended):
        if ref["kind"] == "nohead":
            pre = True
        elif ref["kind"] == "badhead":
            pre = True
        elif ref["kind"] == "msg":
            if ref["badframing"]:
                broken = True
            elif ref["framing"] == "cl":
                broken = not ref["complete"]
            elif ref["framing"] == "chunked":
                broken = not ref["complete"]
            elif ref["framing"] == "none":
                broken = False                # bodiless: complete with its head
            else:
                broken = (not ended) if be == "fcgi" else (not clean)
    elif ref["kind"] == "badhead":
        pre = True
    elif ref["kind"] == "msg" and ref["badframing"]:
        broken = True
    if pre:
        if cend != "pend" and cv["status"] < 500:
            return M_PRE
        return None
    if be == "fcgi" and not ended and end != "none" and not broken:
        return None     # body complete by its own framing, record stream not: either outcome is acceptable
    if broken:
        # (a 4xx/5xx status, be it the backend's or lighttpd's own error document, is not a success)
        if cend != "pend" and cv["complete"] is True and cv["status"] < 400 and not nobody:
            if ver == 20:
                return M_BROKEN_H2
            computed = cv.get("framing") == "cl" and not (ref["kind"] == "msg" and ref.get("framing") == "cl")
            return M_BROKEN_H1 if computed else M_BROKEN_H1S
        if ver == 10 and cend == "close" and cv.get("framing") == "close" and cv["status"] < 400 and not nobody:
            return M_BROKEN_H10               # (known finding: nothing short of a TCP reset could show it)
        return None
    if not good or ref["excess"]:
        return None                           # lenient territory: only the generic checks above
    if end == "none" and not (be == "fcgi" and ended):
        if be == "fcgi" and not (ref["framing"] == "chunked" and ref["complete"]):
            return None                       # FastCGI: waiting for END_REQUEST
        if not (ref["framing"] in ("cl", "chunked") and ref["complete"]):
            return None                       # backend has not finished yet
    # ---- faithful relay of a complete, well-formed backend response
    if cend == "pend":
        if nobody:
            return None
        return M_RELAY + "the response is complete at the backend but never finished towards the client"
    if cv["status"] != ref["status"]:
        return M_RELAY + "status differs"
    want_i = [s for s, _ in ref["interims"]] if ver != 10 else []
    if [s for s, _ in cv["interims"]] != want_i:
        return M_RELAY + "interim (1xx) responses are not relayed in order"
    if ver != 10:
        for (s, bf), (_, cf) in zip(ref["interims"], cv["interims"]):
            if by_name(bf) != by_name(cf):
                return M_RELAY + "fields of an interim (1xx) response differ"
    bfields, cfields = by_name(ref["fields"]), by_name(cv["fields"])
    tr, ctr = by_name(ref["trailers"]), by_name(cv["trailers"])
    if cv["status"] == 304:
        bfields.pop(b"content-encoding", None)          # h1_send_headers drops it for 304 on purpose
        cfields.pop(b"content-encoding", None)
    for k, vs in bfields.items():
        if k in tr or k in ctr:
            continue
        if cfields.get(k, []) != vs:
            return M_RELAY + "an end-to-end header field is missing or altered"
    for k, vs in cfields.items():
        if k not in bfields and k not in tr:
            return M_RELAY + "the client response has a header field the backend did not send"
    if tr and not nobody and not (ver == 10 and cv.get("framing") == "close"):
        for k, vs in tr.items():
            got = ctr.get(k, []) + [v for v in cfields.get(k, []) if v not in bfields.get(k, [])]
            if sorted(got) != sorted(vs) and k not in bfields:
                return M_RELAY + "a trailer field is missing or altered"
    if nobody:
        if cv["body"]:
            return M_RELAY + "body sent for a HEAD request / 204 / 304 response"
        return None
    if cv["complete"] is False or (cv["complete"] is None and cend != "close"):
        if cv.get("framing") == "chunked":
            return M_RELAY + "the chunked client message lacks its last-chunk (looks truncated)"
        return M_RELAY + "the client message is incomplete"
    if cv["body"] != ref["body"]:
        return M_RELAY + "body bytes differ"
    return None


def oracle_dechunk(t, out):
    data = b"".join(C.unhx(x) for x in t[3:])
    if b"\x00" in data:
        return None
    ref = ref_dechunk(data)
    if ref[0] == "lenient":
        return None
    o = dict(x.split("=", 1) for x in out.split(" ")[1:] if "=" in x)
    if out.startswith("err"):
        if ref[0] == "ok" and len(data) == ref[3]:
            return "valid chunked body rejected by the backend decoder for this segmentation"
        if ref[0] == "more":
            return "valid prefix of a chunked body rejected by the backend decoder for this segmentation"
        return None
    if o.get("fin") == "1":
        if ref[0] == "more":
            return "backend chunked decoder reports a complete body for an incomplete chunked stream"
        if ref[0] == "bad":
            return None                       # lenient chunk-size line syntax
        if C.unhx(o["out"]) != ref[1] and t[2] == "0":
            return "decoded chunked body differs from the RFC decoding"
    elif ref[0] == "ok" and len(data) == ref[3]:
        return "complete chunked body not recognised as complete"
    if ref[0] == "bad" and not (len(data) - data.rfind(b"\n") > 1000):
        # lenient size lines are not errors of the property: only report accepted *data* framing errors
        return None
    if t[2] == "0" and ref[0] in ("ok", "more") and C.unhx(o["out"]) != ref[1][:len(C.unhx(o["out"]))]:
        return "decoded bytes are not a prefix of the RFC decoding"
    return None


def oracle_fcgi(t, out):
    data = b"".join(C.unhx(x) for x in t[1:])
    want, ended, _ = fcgi_decode(data)
    o = dict(x.split("=", 1) for x in out.split(" ")[1:] if "=" in x)
    if C.unhx(o["out"]) != want:
        return "FastCGI STDOUT content not reassembled exactly (padding / record boundaries)"
    if (out.split(" ")[0] == "fin") != ended:
        return "FastCGI END_REQUEST detection differs from the record stream"
    return None


def classify(line, out):
    t = line.split(" ")
    o = out.split(" ")
    if t[0] == "relay":
        kv = dict(x.split("=", 1) for x in o if "=" in x and x[0] not in "WIHT")
        nseg = min(len(t) - 6, 4)
        ni = sum(1 for x in o if x.startswith("I:"))
        wire = b"".join(C.unhx(x[2:]) for x in o if x.startswith("W:"))
        fr = "te" if b"\r\nTransfer-Encoding: chunked\r\n" in wire[:600] else ("cl" if b"\r\nContent-Length: " in wire[:600] else "x")
        if t[2] != "20":
            ni = wire.count(b"HTTP/1.1 1")
        return "relay:%s:%s:%s:%s:%s:n%d:%s:st%s:fl%s:i%d:%s" % (t[1], t[2], t[3], t[4], t[5], nseg, kv.get("end"),
                                                              kv.get("st", "")[:1], kv.get("fl"), min(ni, 2), fr)
    if t[0] == "dechunk":
        return "dechunk:%s:n%d:%s:%s" % (t[2], min(len(t) - 3, 4), o[0], [x for x in o if x.startswith("fin=")][:1])
    return "fcgi:n%d:%s" % (min(len(t) - 1, 4), o[0])


# ------------------------------------------------------------------ exhaustive small scope
SHORT_PROXY = [
    b"HTTP/1.1 200 OK\r\nContent-Length: 3\r\n\r\nabc",
    b"HTTP/1.1 200 OK\r\nTransfer-Encoding: chunked\r\n\r\n2\r\nhi\r\n0\r\n\r\n",
    b"HTTP/1.1 200 OK\r\nTransfer-Encoding: chunked\r\nTrailer: X-T\r\n\r\n1\r\na\r\n0\r\nX-T: v\r\n\r\n",
    b"HTTP/1.1 103 Early Hints\r\nLink: </a>\r\n\r\nHTTP/1.1 200 OK\r\nContent-Length: 1\r\n\r\nx",
    b"HTTP/1.0 404 Not Found\r\nX-A: b\r\n\r\nnope",
    b"HTTP/1.1 200 OK\nContent-Length: 2\n\nok",
    b"HTTP/1.1 200 OK\r\nTransfer-Encoding: chunked\r\nTrailer: X-T\r\n\r\n1\r\na\r\n0\r\n\r\n",      # (announced, none sent)
]
SHORT_CGI = [
    b"Status: 201\r\nContent-Length: 2\r\n\r\nok",
    b"Content-Type: text/plain\r\n\r\nhello",
    b"Location: /x\r\n\r\n",
    b"Status: 200\r\nTransfer-Encoding: chunked\r\n\r\n3\r\nabc\r\n0\r\n\r\n",
    b"no header here\nbody",
    b"\r\nbody only",
]


def gen_exhaustive(ctx):
    """every composition of the interesting region (≤ 11/13 bytes) of short responses, with every end kind,
    and every cut point (truncation) of the same responses"""
    lines = []
    width = 11 if ctx.quick else 13
    for be, pool in (("proxy", SHORT_PROXY), ("scgi", SHORT_CGI), ("cgi", SHORT_CGI[4:])):
        for data in pool:
            # regions: end of the head + start of the body, and the tail of the message
            hb = max(data.find(b"\r\n\r\n"), data.find(b"\n\n"))
            regions = {(max(0, hb - 3), min(len(data), max(0, hb - 3) + width)),
                       (max(0, len(data) - width), len(data)), (0, min(len(data), width))}
            for lo, hi in sorted(regions):
                for segs in split_region(data, lo, hi):
                    for ver, stream in ((11, 1), (11, 0)) if ctx.quick else ((11, 1), (11, 0), (10, 1), (20, 1), (11, 2)):
                        lines.append(line(be, ver, stream, "G", "eof", segs))
            for cut in range(len(data) + 1):
                for end in ("eof", "rst", "err", "hup", "none"):
                    for ver in (11, 10, 20):
                        for stream in (0, 1, 2):
                            lines.append(line(be, ver, stream, "G", end, [data[:cut]]))
                            if 1 < cut:
                                lines.append(line(be, ver, stream, "G", end, [data[:cut - 1], data[cut - 1:cut]]))
    # FastCGI: every cut point of a record stream, and every split of its tail
    for body in (b"Status: 200\r\nContent-Type: a/b\r\n\r\nhello", b"Content-Length: 3\r\n\r\nabc"):
        recs = fcgi_rec(6, body[:9], 3) + fcgi_rec(6, body[9:], 0) + fcgi_rec(7, b"e!", 2) + fcgi_rec(6, b"") \
            + fcgi_rec(3, b"\0" * 8)
        for cut in range(len(recs) + 1):
            for end in ("eof", "rst", "none"):
                for ver, stream in ((11, 0), (11, 1), (10, 1), (20, 1)):
                    lines.append(line("fcgi", ver, stream, "G", end, [recs[:cut]]))
        for lo in range(0, len(recs) - width, 7):
            for segs in split_region(recs, lo, lo + (width - 2)):
                lines.append(line("fcgi", 11, 1, "G", "eof", segs))
    return lines


def gen_dechunk(ctx):
    rng = ctx.rng
    lines = []
    shorts = [b"2\r\nhi\r\n0\r\n\r\n", b"1\r\na\r\n0\r\nA:b\r\n\r\n", b"1;x\r\na\r\n00\r\n\r\n", b"1\r\na\rX", b"1\na\r\n0\r\n\r\n",
              b"0\r\nA: b\r\nC:d\r\n\r\n"[:13], b"a\r\n0123456789\r\n0\r\n\r\n"[-13:], b"0\r\n\r\nX"]
    for d in shorts:
        d = d[:13] if ctx.quick else d[:15]
        for segs in all_splits(d):
            for sc in (0, 1):
                lines.append("dechunk 8192 %d %s" % (sc, " ".join(C.hx(s) for s in segs)))
    n = 20000 if ctx.quick else 200000
    for _ in range(n):
        body = rand_body(rng, rng.choice([0, 1, 2, 5, 17, 40])).replace(b"\x00", b"a")
        k = rng.randint(1, 3)
        tr = [(rng.choice([b"X-T", b"A"]), rng.choice([b"v", b"a b"])) for _ in range(rng.randint(0, 2))] if rng.random() < 0.3 else []
        data = enchunk(body, [rng.randint(1, max(1, len(body))) for _ in range(k)], tr, rng, rng.random() < 0.3)
        r = rng.random()
        if r < 0.25 and data:
            data = corrupt1(data, rng).replace(b"\x00", b"b")
        if rng.random() < 0.3 and data:
            data = data[:rng.randrange(len(data) + 1)]
        if rng.random() < 0.1:
            data += rng.choice([b"X", b"\r\n", b"0\r\n\r\n"])
        segs = rand_split(rng, data) or [b""]
        lines.append("dechunk 8192 %d %s" % (rng.randint(0, 1), " ".join(C.hx(s) for s in segs)))
    for hx_ in (b"7" + b"f" * 14, b"8" + b"0" * 14, b"f" * 15, b"f" * 16, b"1" + b"0" * 15, b"7" + b"f" * 15):
        lines.append("dechunk 8192 0 %s" % C.hx(hx_ + b"\r\n"))
        lines.append("dechunk 8192 0 %s %s" % (C.hx(hx_[:5]), C.hx(hx_[5:] + b"\r\n")))
    # chunk-size lines around the 1024-octet limit (line incl. CRLF = ln + 4): the same verdict for every split
    for ln in (900, 1015, 1018, 1019, 1020, 1021, 1022, 1100, 3000):
        d = b"1;" + b"x" * ln + b"\r\na\r\n0\r\n\r\n"
        for cuts in ((), (5,), (ln + 2,), (ln + 3,), (ln + 4,), (1, ln + 3), (1023,), (1024,), (1025,)):
            cuts = [c for c in cuts if 0 < c < len(d)]
            segs = [d[a:b] for a, b in zip([0] + list(cuts), list(cuts) + [len(d)])]
            lines.append("dechunk 8192 0 %s" % " ".join(C.hx(x) for x in segs))
        d = b"2\r\nab\r\n0;" + b"y" * ln + b"\r\n\r\n"          # ... and a long last-chunk line, not first in its read
        for cuts in ((), (7,), (9,), (len(d) - 2,)):
            segs = [d[a:b] for a, b in zip([0] + list(cuts), list(cuts) + [len(d)])]
            lines.append("dechunk 8192 %d %s" % (rng.randint(0, 1), " ".join(C.hx(x) for x in segs)))
    return lines


def gen_fcgi(ctx):
    rng = ctx.rng
    lines = []
    n = 8000 if ctx.quick else 80000
    for _ in range(n):
        data = fcgi_wrap(rng, rand_body(rng, rng.choice([0, 1, 5, 30, 300])), end=rng.random() < 0.7)
        if rng.random() < 0.3 and data:
            data = data[:rng.randrange(len(data) + 1)]
        segs = rand_split(rng, data) or [b""]
        lines.append("fcgi %s" % " ".join(C.hx(s) for s in segs))
    recs = fcgi_rec(6, b"ab", 3) + fcgi_rec(7, b"x") + fcgi_rec(6, b"c", 1) + fcgi_rec(3, b"\0" * 8)
    width = 11 if ctx.quick else 13
    for lo in range(0, len(recs) - width + 1, 4):
        for segs in split_region(recs, lo, lo + width):
            lines.append("fcgi %s" % " ".join(C.hx(s) for s in segs))
    # record size limits
    for n_ in (65535, 65534, 32768, 256, 255):
        for pad in (0, 255):
            lines.append("fcgi %s" % C.hx(fcgi_rec(6, b"z" * n_, pad) + fcgi_rec(3, b"\0" * 8)))
    return lines


def gen_big(ctx):
    """bodies around the 64 KiB write-queue / temp-file thresholds (buffered and Content-Length streaming)"""
    rng = ctx.rng
    lines = []
    sizes = [4096, 65535, 65536, 65537, 70000] if ctx.quick else [4095, 4096, 8192, 32768, 65535, 65536, 65537, 70000, 200000]
    for n in sizes:
        body = bytes(rng.randrange(256) for _ in range(251)) * (n // 251 + 1)
        body = body[:n]
        for be, head in (("proxy", b"HTTP/1.1 200 OK\r\nContent-Length: %d\r\n\r\n" % n), ("scgi", b"Status: 200\r\n\r\n")):
            data = head + body
            for stream, end in ((0, "eof"), (1, "eof")) if be == "proxy" else ((0, "eof"),):
                k = rng.choice([1, 3, 9])
                cuts = sorted(rng.sample(range(1, len(data)), k - 1))
                segs = [data[a:b] for a, b in zip([0] + cuts, cuts + [len(data)])]
                # one read is at most a few KiB here: cut the segments so that reads and segments coincide
                small = []
                for s in segs:
                    small += [s[i:i + 3000] for i in range(0, len(s), 3000)]
                lines.append(line(be, 11, stream, "G", end, small))
        recs = fcgi_rec(6, b"Status: 200\r\n\r\n") + b"".join(fcgi_rec(6, body[i:i + 60000], 5) for i in range(0, n, 60000)) \
            + fcgi_rec(6, b"") + fcgi_rec(3, b"\0" * 8)
        lines.append(line("fcgi", 11, 0, "G", "eof", [recs[i:i + 3000] for i in range(0, len(recs), 3000)]))
        if n >= 70000:
            # FastCGI records whose contentLength + paddingLength exceeds 65535
            for clen, pad in ((65535, 1), (65528, 8), (65300, 255), (65535, 255)):
                if clen <= n:
                    recs = fcgi_rec(6, b"Status: 200\r\n\r\n") + fcgi_rec(6, body[:clen], pad) + fcgi_rec(6, body[clen:clen + 10], 3) \
                        + fcgi_rec(6, b"") + fcgi_rec(3, b"\0" * 8)
                    for stream in (0, 1):
                        lines.append(line("fcgi", 11, stream, "G", "eof", [recs[i:i + 3000] for i in range(0, len(recs), 3000)]))
            # Content-Length body, > 64 KiB queued (temp file), then small reads (accumulated) alternating with reads of
            # >= 8 KiB (spliced into the temp file): the octets must stay in order
            nn = n + 80000
            bb = (body * (nn // len(body) + 1))[:nn]
            for be, head in (("proxy", b"HTTP/1.1 200 OK\r\nContent-Length: %d\r\n\r\n" % nn), ("scgi", b"Content-Length: %d\r\n\r\n" % nn)):
                data = head + bb
                pre = 66000 + len(head)
                segs = [data[i:i + 3000] for i in range(0, pre, 3000)]
                segs[-1] = segs[-1][:pre - 3000 * (len(segs) - 1)]
                rest = data[pre:]
                pat, i = [700, 9000, 300, 12000, 1, 8192, 2500, 40000], 0
                while rest:
                    k = pat[i % len(pat)]; i += 1
                    segs.append(rest[:k]); rest = rest[k:]
                for stream in (0, 1):
                    lines.append(line(be, 11, stream, "G", "eof", segs))
            # Content-Length body that spills into a temp file and then keeps arriving in small reads
            # (lighttpd accumulates those before appending to the temp file: the remaining-length counter
            # must come out the same), buffered and streaming
            for be, head in (("proxy", b"HTTP/1.1 200 OK\r\nContent-Length: %d\r\n\r\n" % n),
                             ("scgi", b"Status: 200\r\nContent-Length: %d\r\n\r\n" % n)):
                data = head + body
                for seg in (3000, 1000):
                    for stream in (0, 1):
                        lines.append(line(be, 11, stream, "G", "eof", [data[i:i + seg] for i in range(0, len(data), seg)]))
    return lines


def gen_special(ctx):
    """fields lighttpd interprets itself instead of relaying: every listed X-LIGHTTPD-KBytes-per-second value
    (negative / beyond 2^53: the KiB conversion must not overflow), per backend kind and client protocol"""
    lines = []
    for v in KBPS_VALUES:
        for be, head in (("proxy", b"HTTP/1.1 200 OK\r\nContent-Length: 2\r\n"), ("scgi", b"Status: 200\r\n"),
                         ("cgi", b"Content-Type: a/b\r\n")):
            data = head + b"X-LIGHTTPD-KBytes-per-second: " + v + b"\r\nX-A: b\r\n\r\nok"
            for ver in (11, 10, 20):
                lines.append(line(be, ver, ctx.rng.choice([0, 1, 2]), "G", "eof", [data]))
        data = b"Status: 200\r\nx-lighttpd-kbytes-per-second: " + v + b"\r\n\r\nok"
        lines.append(line("fcgi", 11, 1, "G", "eof", [fcgi_rec(6, data) + fcgi_rec(6, b"") + fcgi_rec(3, b"\0" * 8)]))
    # framing state must not leak from an interim response into the final one
    for icl in (b"Content-Length: 0\r\n", b"Content-Length: 0\r\nLink: </a>\r\n", b""):
        for fin in (b"\r\nhello", b"Content-Length: 5\r\n\r\nhello", b"Transfer-Encoding: chunked\r\n\r\n5\r\nhello\r\n0\r\n\r\n"):
            for be in ("proxy", "scgi", "fcgi"):
                if be == "proxy":
                    data = b"HTTP/1.1 103 Early Hints\r\n" + icl + b"\r\nHTTP/1.1 200 OK\r\nX-A: b\r\n" + fin
                else:
                    data = b"Status: 103\r\n" + icl + b"\r\nStatus: 200\r\nX-A: b\r\n" + fin
                for ver in (11, 10, 20):
                    for stream in (0, 1):
                        i = data.find(b"\r\n\r\n") + 4
                        for segs in ([data], [data[:i], data[i:]]):
                            if be == "fcgi":
                                segs = [fcgi_rec(6, x) for x in segs] + [fcgi_rec(6, b"") + fcgi_rec(3, b"\0" * 8)]
                            lines.append(line(be, ver, stream, "G", "eof", segs))
    return lines


def gen_bodiless(ctx):
    """responses that end with their head although they announce a body: answers to HEAD, 304 (with
    Content-Length / Transfer-Encoding / neither), 204, each also behind a 1xx; every end kind x protocol x mode.
    A complete bodiless response is relayed as such (never 5xx), however the backend stream ends afterwards."""
    rng = ctx.rng
    lines = []
    for be in BES:
        for meth, status in (("H", 200), ("H", 404), ("G", 304), ("H", 304), ("G", 204)):
            for fr in (b"Content-Length: 5\r\n", b"Transfer-Encoding: chunked\r\n", b""):
                if status == 204 and fr:
                    continue
                for pre in (b"", b"103"):
                    if be == "proxy":
                        head = (b"HTTP/1.1 103 Early Hints\r\nLink: </a>\r\n\r\n" if pre else b"") + \
                            b"HTTP/1.1 %d X\r\nETag: \"e\"\r\n" % status + fr + b"\r\n"
                    else:
                        head = (b"Status: 103\r\nLink: </a>\r\n\r\n" if pre else b"") + \
                            b"Status: %d\r\nETag: \"e\"\r\n" % status + fr + b"\r\n"
                    for end in ("eof", "rst", "err", "hup", "none"):
                        for ver in (11, 10, 20):
                            for stream in (0, 1, 2):
                                segs = [head] if rng.random() < 0.6 else rand_split(rng, head, 2)
                                if be == "fcgi":
                                    done = end in ("eof", "none") or rng.random() < 0.5
                                    segs = [fcgi_rec(6, x, rng.choice([0, 5])) for x in segs]
                                    if done:
                                        segs.append(fcgi_rec(6, b"") + fcgi_rec(3, b"\0" * 8))
                                lines.append(line(be, ver, stream, meth, end, segs))
    return lines


def unexplained_disagreements(ctx, name, exe, lines):
    """The runner attributes every model/implementation disagreement to the oracle hits of the same stream.
    With open findings that would hide a drift the oracle does not see on the same inputs: report
    disagreements on inputs the oracle has nothing to say about as a broken correspondence of their own."""
    impl, rc, _ = C.parallel_lines([exe], lines)
    mod, mrc, _ = C.parallel_lines([C.ltmodel_path(), "beresp"], lines)
    if rc or mrc or len(impl) != len(lines) or len(mod) != len(lines):
        return
    un = [(l, a, b) for l, a, b in zip(lines, impl, mod) if a != b and not oracle(l, a)]
    if not un:
        return
    un.sort(key=lambda d: len(d[0]))
    l, a, b = un[0]
    ctx.violation("corr-unexplained:%s" % name,
                  "model/implementation correspondence %s broken on %d inputs the property oracle does not flag" % (name, len(un)),
                  {"property": ctx.pid, "kind": "correspondence", "correspondence": name, "input": l, "impl_obs": a,
                   "model_obs": b, "more": [list(d) for d in un[1:5]],
                   "oracle_verdict": "no property-level failure on these inputs; the code no longer is the function "
                                     "the theorems are about"}, found=False)


# ------------------------------------------------------------------ end to end: real server, real sockets
class ScriptedBackend:
    """HTTP / SCGI / FastCGI backend on one TCP port.  Per connection: read the request lighttpd sends, take
    the case id from the request URI (/p/<id>, /s/<id>, /f/<id>) and play the case's script — byte segments
    separated by pauses, then close (eof), reset (SO_LINGER 0) or stall until released."""

    def __init__(self):
        self.s = socket.socket()
        self.s.setsockopt(socket.SOL_SOCKET, socket.SO_REUSEADDR, 1)
        self.s.bind(("127.0.0.1", 0))
        self.s.listen(256)
        self.port = self.s.getsockname()[1]
        self.scripts, self.played, self.release = {}, {}, {}
        self.conns = collections.Counter()
        self.stop = False
        threading.Thread(target=self.loop, daemon=True).start()

    def add(self, cid, segs, end, gap):
        self.scripts[cid] = (segs, end, gap)
        self.played[cid] = threading.Event()
        self.release[cid] = threading.Event()

    def close(self):
        self.stop = True
        for e in self.release.values():
            e.set()
        try:
            self.s.close()
        except OSError:
            pass

    def loop(self):
        while not self.stop:
            try:
                c, _ = self.s.accept()
            except OSError:
                return
            threading.Thread(target=self.serve, args=(c,), daemon=True).start()

    @staticmethod
    def req_complete(buf):
        if buf[:1] == b"\x01":                         # FastCGI: up to the empty FCGI_STDIN record
            i = 0
            while i + 8 <= len(buf):
                t, n, pad = buf[i + 1], (buf[i + 4] << 8) | buf[i + 5], buf[i + 6]
                if i + 8 + n + pad > len(buf):
                    return False
                if t == 5 and n == 0:
                    return True
                i += 8 + n + pad
            return False
        if buf[:1].isdigit():                          # SCGI netstring
            j = buf.find(b":")
            return j > 0 and len(buf) >= j + 1 + int(buf[:j]) + 1
        return b"\r\n\r\n" in buf

    def serve(self, c):
        cid = None
        try:
            c.settimeout(5)
            c.setsockopt(socket.IPPROTO_TCP, socket.TCP_NODELAY, 1)
            buf = b""
            while not self.req_complete(buf):
                d = c.recv(65536)
                if not d:
                    return
                buf += d
            m = _re.search(rb"/[psf]/([0-9]+)", buf)
            if not m or int(m.group(1)) not in self.scripts:
                return
            cid = int(m.group(1))
            self.conns[cid] += 1
            segs, end, gap = self.scripts[cid]
            for sg in segs:
                c.sendall(sg)
                time.sleep(gap)
            self.played[cid].set()
            if end == "none":
                self.release[cid].wait(15)
            elif end == "rst":
                c.setsockopt(socket.SOL_SOCKET, socket.SO_LINGER, struct.pack("ii", 1, 0))
        except (OSError, ValueError):
            pass
        finally:
            if cid is not None:
                self.played[cid].set()
            try:
                c.close()
            except OSError:
                pass


E2E_CONF = """
server.stream-response-body = %d
server.max-keep-alive-requests = 1000
server.max-keep-alive-idle = 30
server.max-read-idle = 60
server.max-write-idle = 60
server.range-requests = "disable"
proxy.server = ("/p/" => (("host" => "127.0.0.1", "port" => %d)))
scgi.server = ("/s/" => (("host" => "127.0.0.1", "port" => %d, "check-local" => "disable")))
fastcgi.server = ("/f/" => (("host" => "127.0.0.1", "port" => %d, "check-local" => "disable")))
"""
PROBE_BODY = b"C10-PROBE-BODY\n"
E2E_PATH = {"proxy": "/p/", "scgi": "/s/", "fcgi": "/f/"}
M_ISOLATION = ("after the backend response the client connection is left in a state where the next exchange "
               "(keep-alive request / another HTTP/2 stream) is not answered intact")


def _read_quiet(s, buf, quiet, stop=None, deadline=8.0):
    """append what arrives on s to buf until the peer closes, or nothing arrived for `quiet` seconds and
    stop() (if given) holds; returns (buf, closed)"""
    t_end = time.time() + deadline
    while time.time() < t_end:
        r, _, _ = select.select([s], [], [], quiet)
        if r:
            try:
                d = s.recv(65536)
            except OSError:
                return buf, True
            if not d:
                return buf, True
            buf += d
            continue
        if stop is None or stop():
            break
    return buf, False


def e2e_h1(port, path, ver, head_req, played, quiet):
    """one HTTP/1.x exchange; returns the harness-format observation and the isolation verdict"""
    req = b"%s %s HTTP/1.%d\r\nHost: localhost\r\n%s\r\n" % (
        b"HEAD" if head_req else b"GET", path.encode(), 1 if ver == 11 else 0,
        b"Connection: keep-alive\r\n" if ver == 10 else b"")
    s = socket.create_connection(("127.0.0.1", port), timeout=5)
    s.setsockopt(socket.IPPROTO_TCP, socket.TCP_NODELAY, 1)
    iso = None
    try:
        s.sendall(req)
        wire, closed = _read_quiet(s, b"", quiet, played.is_set)
        cend = "close"
        if not closed:
            # is the connection kept alive (response done), or is the response still pending?
            try:
                s.sendall(b"GET /probe.txt HTTP/1.1\r\nHost: localhost\r\n\r\n")
            except OSError:
                closed = True
            more, closed = _read_quiet(s, b"", max(quiet, 0.4), lambda: True, 3.0) if not closed else (b"", True)
            i = more.rfind(b"HTTP/1.1 200 OK\r\n")
            if i >= 0 and more.endswith(PROBE_BODY):
                wire += more[:i]                # (late bytes of the first response)
                cend = "ka"
            elif closed:
                wire += more
            elif more:
                cend, iso = "ka", M_ISOLATION
            else:
                cend = "pend"
    finally:
        s.close()
    return "W:%s end=%s" % (C.hx(wire), cend) if wire else "end=%s" % cend, iso


def e2e_h2(port, path, head_req, played, quiet):
    from .. import e2e
    h = e2e.H2Conn(port)
    iso = None
    try:
        h.request(1, "HEAD" if head_req else "GET", path)

        def ended(sid):
            return lambda fr: any(x[2] == sid and ((x[0] in (0, 1) and x[1] & 1) or x[0] == 3) for x in fr)
        t_end = time.time() + 8
        while time.time() < t_end and not h.closed:
            h.pump(quiet, until=ended(1))
            if ended(1)(h.frames) or played.is_set():
                break
        if not ended(1)(h.frames) and not h.closed:
            h.pump(quiet, until=ended(1))
        n1 = len(h.frames)
        # isolation: another stream of the same connection is still served
        if not h.closed:
            h.request(3, "GET", "/probe.txt")
            h.pump(1.5, until=ended(3))
        frames = list(h.frames)
    finally:
        h.close()
    hp = e2e.Hpack()
    evs, cont, seen_final, body3, st3, goaway = [], None, False, b"", None, False
    for k, (t, fl, sid, pl) in enumerate(frames):
        if t in (1, 9):
            if t == 1:
                off, padlen = 0, 0
                if fl & 8:
                    padlen, off = pl[0], 1
                if fl & 0x20:
                    off += 5
                cont = [sid, pl[off:len(pl) - padlen], fl & 1]
            elif cont:
                cont[1] += pl
            if fl & 4 and cont:
                hs = hp.decode(cont[1])
                if cont[0] == 1 and k < n1 + 64:
                    st = [v for n, v in hs if n == b":status"]
                    txt = b"".join(n + b": " + v + CRLF for n, v in hs if not n.startswith(b":"))
                    if st and 100 <= int(st[0]) < 200 and int(st[0]) != 101:
                        evs.append("I:%d:%s" % (int(st[0]), C.hx(txt)))
                    elif st and not seen_final:
                        seen_final = True
                        evs.append("H:%d:%s" % (int(st[0]), C.hx(txt)))
                    else:
                        evs.append("T:%s" % C.hx(txt))
                    if cont[2] and not (evs[-1][0] == "T"):
                        evs.append("E")
                elif cont[0] == 3:
                    st3 = [v for n, v in hs if n == b":status"]
                cont = None
        elif t == 0:
            padlen, off = 0, 0
            if fl & 8:
                padlen, off = pl[0], 1
            d = pl[off:len(pl) - padlen]
            if sid == 1:
                if d:
                    evs.append("W:" + C.hx(d))
                if fl & 1:
                    evs.append("E")
            elif sid == 3:
                body3 += d
        elif t == 3 and sid == 1:
            evs.append("R")
        elif t == 7:
            goaway = True
    if st3 != [b"200"] or body3 != PROBE_BODY or goaway:
        iso = M_ISOLATION
    cend = "close" if "R" in evs else "ka" if ("E" in evs or any(x[0] == "T" for x in evs)) else "pend"
    return " ".join(evs + ["end=" + cend]), iso


def view(ver, head_req, out):
    """client-level outcome of a harness-format observation (harness, model or real server)"""
    o = out.split(" ")
    evs = [x for x in o if x in ("E", "R") or x[:2] in ("W:", "I:", "H:", "T:")]
    kv = dict(x.split("=", 1) for x in o if "=" in x and x[:2] not in ("W:", "I:", "H:", "T:"))
    if ver == 20:
        cv = client_h2(evs)
    else:
        cv = client_h1(b"".join(C.unhx(x[2:]) for x in evs if x[0] == "W"), head_req)
    if not cv["ok"]:
        return dict(bad=cv["why"], cend=kv.get("end"))
    return dict(cend=kv.get("end"), status=cv.get("status"), interims=[s_ for s_, _ in cv.get("interims", [])],
                fields=by_name(cv.get("fields") or []), trailers=by_name(cv.get("trailers") or []),
                body=cv.get("body") or b"", complete=cv.get("complete"), rst=bool(cv.get("rst")),
                framing=cv.get("framing"),
                announces=any(k.lower() == b"trailer" for k, _ in (cv.get("fields") or [])))


def view_diff(a, b):
    """None if the real server's outcome `a` is the model's outcome `b` (timing-independent part)"""
    if ("bad" in a) != ("bad" in b):
        return "client-side syntax: %s vs %s" % (a.get("bad"), b.get("bad"))
    if "bad" in a:
        return None
    for k in ("cend", "status", "interims", "complete", "rst"):
        if a[k] != b[k]:
            return "%s: %r vs model %r" % (k, a[k], b[k])
    fa, fb = dict(a["fields"]), dict(b["fields"])
    if a["status"] == 304:
        # h1_send_headers / h2_send_headers drop Content-Encoding from a 304 on purpose; the model does so for
        # HTTP/1.x only (the harness observes HTTP/2 before h2_send_headers)
        fa.pop(b"content-encoding", None)
        fb.pop(b"content-encoding", None)
    if a["complete"] is True or a["cend"] == "ka":
        if a["body"] != b["body"]:
            return "body differs from the model's"
        ta, tb = dict(a["trailers"]), dict(b["trailers"])
        if ta != tb:
            return "trailers differ from the model's"
    elif not (a["body"].startswith(b["body"]) or b["body"].startswith(a["body"])):
        return "partial body is not a prefix of the model's"
    if fa != fb:
        return "fields differ from the model's: %r vs %r" % (sorted(fa.items())[:6], sorted(fb.items())[:6])
    return None


def coalescings(segs):
    """every way the kernel may merge adjacent backend writes into one read"""
    segs = [x for x in segs if x]
    if len(segs) <= 1:
        return [segs]
    out = []
    for mask in range(1 << (len(segs) - 1)):
        cur, res = segs[0], []
        for i in range(1, len(segs)):
            if mask >> (i - 1) & 1:
                cur += segs[i]
            else:
                res.append(cur)
                cur = segs[i]
        res.append(cur)
        out.append(res)
    return out


E2E_CORE_PROXY = [
    (b"HTTP/1.1 200 OK\r\nContent-Length: 5\r\nX-A: b\r\n\r\n", b"hello", "complete"),
    (b"HTTP/1.1 200 OK\r\nContent-Length: 9\r\n\r\n", b"hello", "short of Content-Length"),
    (b"HTTP/1.1 200 OK\r\nTransfer-Encoding: chunked\r\nTrailer: X-T\r\n\r\n", b"5\r\nhello\r\n0\r\nX-T: v\r\n\r\n", "complete"),
    (b"HTTP/1.1 200 OK\r\nTransfer-Encoding: chunked\r\n\r\n", b"5\r\nhello\r\n", "cut inside the chunked body"),
    (b"HTTP/1.1 200 OK\r\nTransfer-Encoding: chunked\r\n\r\n", b"5\r\nhello\r\n0\r\n", "cut inside the trailer section"),
    (b"HTTP/1.1 200 OK\r\nTransfer-Encoding: chunked\r\n\r\n", b"5\r\nhelloXX3\r\nabc\r\n0\r\n\r\n", "bad chunk framing"),
    (b"HTTP/1.0 200 OK\r\nX-A: b\r\n\r\n", b"until close", "EOF-delimited"),
    (b"HTTP/1.1 200 OK\r\nContent-Length: 5x\r\n\r\n", b"hello", "invalid Content-Length"),
    (b"HTTP/1.1 103 Early Hints\r\nLink: </a>\r\n\r\nHTTP/1.1 200 OK\r\nContent-Length: 2\r\n\r\n", b"ok", "interim"),
    (b"HTTP/1.1 200 OK\r\nContent-Le", b"", "head cut"),
    (b"HTTP/1.1 204 No Content\r\nX-A: b\r\n\r\n", b"", "no body"),
]
E2E_CORE_CGI = [
    (b"Status: 201\r\nContent-Length: 5\r\nX-A: b\r\n\r\n", b"hello", "complete"),
    (b"Content-Length: 9\r\n\r\n", b"hello", "short of Content-Length"),
    (b"Content-Type: text/plain\r\n\r\n", b"until close", "EOF-delimited"),
    (b"Status: 200\r\nContent-Ty", b"", "head cut"),
    (b"no header here\n", b"body", "no head"),
    # (1xx and final head in one read / one FastCGI record: h2 sends the 1xx while the rest is still unparsed)
    (b"Status: 103\r\nLink: </a>\r\n\r\nStatus: 200\r\nContent-Encoding: gzip\r\nContent-Length: 2\r\n\r\n", b"ok", "interim"),
    (b"Status: 102\r\n\r\nStatus: 103\r\nLink: </b>\r\n\r\nContent-Type: text/plain\r\nX-A: b\r\n\r\n", b"done", "two interims"),
]


def gen_e2e(ctx):
    """cases for the real server: (line in the relay format, gap).  Backend kinds proxy/scgi/fcgi; ends
    eof/rst/none (a TCP peer has no other); at most 4 segments."""
    rng = ctx.rng
    cases = []
    ends = ("eof", "rst", "none")
    for be, pool in (("proxy", E2E_CORE_PROXY), ("scgi", E2E_CORE_CGI), ("fcgi", E2E_CORE_CGI)):
        for head, body, _ in pool:
            for end in ends:
                for ver in (11, 10, 20):
                    for stream in (0, 1, 2):
                        if ctx.quick and rng.random() < 0.5 and not (end != "none" and stream < 2 and ver != 10):
                            continue
                        segs = [head] + ([body[:3], body[3:]] if len(body) > 3 and rng.random() < 0.5 else [body])
                        if be == "fcgi":
                            done = rng.random() < 0.6
                            segs = [fcgi_rec(6, x, rng.choice([0, 3])) for x in segs if x]
                            if done:
                                segs.append(fcgi_rec(6, b"") + fcgi_rec(3, b"\0" * 8))
                        cases.append(line(be, ver, stream, "G", end, segs))
    # responses that end with their head (answers to HEAD, 304, 204), with and without framing fields
    for be in ("proxy", "scgi", "fcgi"):
        for meth, status in (("H", 200), ("G", 304), ("H", 304), ("G", 204)):
            for fr in (b"Content-Length: 5\r\n", b"Transfer-Encoding: chunked\r\n", b""):
                if (status == 204 and fr) or (ctx.quick and fr.startswith(b"T") and be != "proxy"):
                    continue
                head = (b"HTTP/1.1 %d X\r\n" if be == "proxy" else b"Status: %d\r\n") % status + b"ETag: \"e\"\r\n" + fr + CRLF
                for end in ("eof", "rst"):
                    for ver in (11, 10, 20):
                        for stream in (0, 1):
                            if ctx.quick and rng.random() < 0.5:
                                continue
                            segs = [head]
                            if be == "fcgi":
                                segs = [fcgi_rec(6, head)] + ([fcgi_rec(6, b"") + fcgi_rec(3, b"\0" * 8)] if end == "eof" or rng.random() < 0.5 else [])
                            cases.append(line(be, ver, stream, meth, end, segs))
    n = 150 if ctx.quick else 2500
    while n > 0:
        be = rng.choice(["proxy", "proxy", "scgi", "fcgi"])
        valid = rng.random() < 0.75
        d = rand_resp(rng, be, valid)
        data = render(d)
        if not valid and rng.random() < 0.5 and data:
            data = corrupt1(data, rng, True)
        if rng.random() < 0.3 and data:
            data = data[:rng.randrange(len(data) + 1)]
        if b"\x00" in data and outside_model(data):
            data = data.replace(b"\x00", b"\x01")
        if be == "fcgi":
            data = fcgi_wrap(rng, data, end=rng.random() < 0.75)
            if rng.random() < 0.15 and data:
                data = data[:rng.randrange(len(data) + 1)]
        segs = rand_split(rng, data, rng.choice([1, 1, 2, 2, 3, 4]))
        cases.append(line(be, rng.choice([11, 11, 10, 20, 20]), rng.choice([0, 1, 1, 2]),
                          "H" if rng.random() < 0.08 else "G", rng.choice(["eof", "eof", "rst", "none"]), segs))
        n -= 1
    return cases


def e2e_parse(l):
    t = l.split(" ")
    return t[1], int(t[2]), int(t[3]), t[4] == "H", t[5], [C.unhx(x) for x in t[6:] if x != "-"]


def e2e_one(ports, backend, cid, l, gap):
    be, ver, stream, head_req, end, segs = e2e_parse(l)
    backend.add(cid, segs, end, gap)
    path = "%s%d" % (E2E_PATH[be], cid)
    quiet = max(0.25, 2.5 * gap)
    try:
        if ver == 20:
            out, iso = e2e_h2(ports[stream], path, head_req, backend.played[cid], quiet)
        else:
            out, iso = e2e_h1(ports[stream], path, ver, head_req, backend.played[cid], quiet)
    except OSError as ex:
        out, iso = "end=clienterror:%s" % type(ex).__name__, None
    finally:
        backend.release[cid].set()
    return out, iso


def e2e_expect(lines_):
    """model outcomes for every coalescing of the backend writes of every case"""
    var, idx = [], []
    for k, l in enumerate(lines_):
        be, ver, stream, head_req, end, segs = e2e_parse(l)
        for sg in coalescings(segs):
            var.append(line(be, ver, stream, "H" if head_req else "G", end, sg))
            idx.append(k)
    mo, rc, err = C.parallel_lines([C.ltmodel_path(), "beresp"], var)
    if rc or len(mo) != len(var):
        return None
    exp = collections.defaultdict(list)
    for k, v, o in zip(idx, var, mo):
        exp[k].append(o)
    return exp


def e2e_judge(l, out, iso, exp):
    """(oracle verdict, correspondence diff) of one real-server observation"""
    be, ver, stream, head_req, end, segs = e2e_parse(l)
    v = oracle(l, out) or iso
    if v:
        return v, None
    a = view(ver, head_req, out)
    ds = [view_diff(a, view(ver, head_req, m)) for m in exp]
    if all(ds):
        return None, ds[0]
    return None, None


def e2e_servers(bd, backend):
    from .. import e2e
    srvs = []
    for mode in (0, 1, 2):
        for attempt in (0, 1):
            srv = e2e.Server(bd, E2E_CONF % (mode, backend.port, backend.port, backend.port),
                             modules=("mod_proxy", "mod_scgi", "mod_fastcgi"))
            with open(os.path.join(srv.docroot, "probe.txt"), "wb") as f:
                f.write(PROBE_BODY)
            try:
                srv.start()
                break
            except RuntimeError:            # (port taken between free_port() and bind: once more with another port)
                srv.stop()
                if attempt:
                    for s_ in srvs:
                        s_.stop()
                    raise
        srvs.append(srv)
    return srvs


E2E_CGI_CONF = """
server.stream-response-body = 1
server.range-requests = "disable"
$HTTP["url"] =~ "^/b/" { server.stream-response-body = 0 }
cgi.assign = (".sh" => "/bin/sh")
cgi.limits = ("read-timeout" => 1)
"""
M_CGI_TIMEOUT = ("CGI killed by cgi.limits read-timeout after its response had started: the cut-off response is "
                 "presented as a complete successful response")


def e2e_cgi_timeout(bd):
    """real mod_cgi (its own event glue is not in the harness): a CGI that stalls after the head and part of an
    EOF-delimited body is killed by the read timeout; a CGI that finishes is relayed.  Returns
    [(case, observation, verdict|None)]."""
    from concurrent.futures import ThreadPoolExecutor
    from .. import e2e
    srv = e2e.Server(bd, E2E_CGI_CONF, modules=("mod_cgi",))
    for d in ("s", "b"):
        os.makedirs(os.path.join(srv.docroot, d), exist_ok=True)
        with open(os.path.join(srv.docroot, d, "stall.sh"), "w") as f:
            f.write('printf "Content-Type: text/plain\\r\\n\\r\\nhello"\nsleep 30\n')
        with open(os.path.join(srv.docroot, d, "ok.sh"), "w") as f:
            f.write('printf "Content-Type: text/plain\\r\\n\\r\\nhello"\n')
    never = threading.Event()
    never.set()

    def one(case):
        path, ver = case
        try:
            if ver == 20:
                return e2e_h2(srv.port, path, False, never, 4.0 if "stall" in path else 1.0)[0]
            return e2e_h1(srv.port, path, ver, False, never, 4.0 if "stall" in path else 1.0)[0]
        except OSError as ex:
            return "end=clienterror:%s" % type(ex).__name__
    cases = [("/s/stall.sh", 11), ("/s/stall.sh", 20), ("/b/stall.sh", 11), ("/b/stall.sh", 20),
             ("/s/ok.sh", 11), ("/s/ok.sh", 20), ("/b/ok.sh", 11)]
    res = []
    try:
        srv.start()
        with ThreadPoolExecutor(len(cases)) as ex:
            outs = list(ex.map(one, cases))
    except RuntimeError as ex:
        return [(("start", 0), str(ex)[-500:], None)]
    finally:
        srv.stop()
    for (path, ver), out in zip(cases, outs):
        v = view(ver, False, out)
        verdict = None
        if "bad" in v:
            verdict = M_SYNTAX + v["bad"]
        elif "stall" in path:
            if v["status"] is not None and v["status"] < 400 and v["complete"] is True and not v["rst"]:
                verdict = M_CGI_TIMEOUT
        elif not (v["status"] == 200 and v["body"] == b"hello" and (v["complete"] is True) and not v["rst"]):
            verdict = M_RELAY + "complete CGI response (mod_cgi)"
        res.append(((path, ver), out, verdict))
    rep = srv.sanitizer_report()
    if rep:
        res.append((("sanitizer", 0), rep[-3000:], "lighttpd crashed / sanitizer report in the mod_cgi timeout scenario"))
    return res


def run_e2e(ctx):
    """the same property oracle and the same model, against the real lighttpd (mod_proxy, mod_scgi, mod_fastcgi;
    h1.c and h2.c; real sockets on both sides)"""
    from concurrent.futures import ThreadPoolExecutor
    from .. import e2e
    t0 = time.time()
    bd, err = e2e.build_server()
    if bd is None:
        ctx.broken.append({"kind": "server-build", "names": ["lighttpd"], "log": err[-3000:]})
        return
    cases = gen_e2e(ctx)
    exp = e2e_expect(cases)
    if exp is None:
        ctx.broken.append({"kind": "model-run", "names": ["beresp"], "log": "model failed on the e2e cases"})
        return
    backend = ScriptedBackend()
    try:
        srvs = e2e_servers(bd, backend)
    except RuntimeError as ex:
        backend.close()
        ctx.broken.append({"kind": "server-start", "names": ["lighttpd"], "log": str(ex)[-3000:]})
        return
    ports = [s.port for s in srvs]
    gap = 0.06
    try:
        with ThreadPoolExecutor(17) as ex:
            cgi_f = ex.submit(e2e_cgi_timeout, bd)
            obs = list(ex.map(lambda kl: e2e_one(ports, backend, kl[0], kl[1], gap), enumerate(cases)))
            cgi_res = cgi_f.result()
        # anything suspicious is repeated alone with long pauses: only what persists is reported
        # (the read boundaries / the order of data and FIN seen by lighttpd depend on scheduling)
        nret = 0
        confirmed = collections.Counter()
        for k, l in enumerate(cases):
            v, d = e2e_judge(l, obs[k][0], obs[k][1], exp[k])
            tries = 0
            sig0 = _re.sub(r"[0-9]+|b'[^']*'", "N", v or d or "")[:70]
            if (v or d) and (confirmed[sig0] >= 3 or v == M_BROKEN_H10):
                continue                 # (confirmed on three inputs already / independent of timing)
            while (v or d) and tries < 2 and all(s.alive() for s in srvs):
                tries += 1
                nret += 1
                obs[k] = e2e_one(ports, backend, len(cases) + 3 * k + tries, l, 0.25 * tries)
                v, d = e2e_judge(l, obs[k][0], obs[k][1], exp[k])
            if v or d:
                confirmed[_re.sub(r"[0-9]+|b'[^']*'", "N", v or d)[:70]] += 1
        dead = [i for i, s in enumerate(srvs) if not s.alive()]
    finally:
        for s in srvs:
            s.stop()
        backend.close()
    for i, s in enumerate(srvs):
        rep = s.sanitizer_report()
        if rep or i in dead:
            ctx.violation("crash:e2e-beresp:" + _re.sub(r"0x[0-9a-f]+|[0-9]+", "N", (rep or "")[:200].split("\n")[-1])[:60],
                          "lighttpd crashed / sanitizer report while relaying backend responses (stream-response-body %d)" % i,
                          {"property": ctx.pid, "kind": "sanitizer-or-crash", "correspondence": "e2e-beresp",
                           "stderr": (rep or s.logs())[-4000:]}, found=False)
            break
    ndis = nor = 0
    for case, out, verdict in cgi_res:
        ctx.evaluations += 1
        ctx.keys["e2e:mod_cgi:%s:%s:%s" % (case[0], case[1], "bad" if verdict else "ok")] += 1
        if verdict:
            nor += 1
            ctx.violation("oracle:e2e-beresp:" + _re.sub(r"[0-9]+", "N", verdict)[:70], verdict,
                          {"property": ctx.pid, "kind": "property-oracle", "correspondence": "e2e-beresp",
                           "input": "mod_cgi %s ver=%s (cgi.limits read-timeout 1; stall.sh prints the head and "
                                    "'hello', then sleeps; ok.sh prints the same and exits)" % case,
                           "scenario": "cgi-timeout", "impl_obs": out[:1500], "oracle_verdict": verdict}, found=True)
    order = sorted(range(len(cases)), key=lambda k: len(cases[k]))
    for k in order:
        l = cases[k]
        out, iso = obs[k]
        be, ver, stream, head_req, end, segs = e2e_parse(l)
        ctx.evaluations += 1
        a = view(ver, head_req, out)
        ctx.keys["e2e:%s:%d:%d:%s:%s:%s:%s:%s" % (be, ver, stream, end, a.get("cend"), str(a.get("status"))[:1],
                                                   a.get("complete"), a.get("framing"))] += 1
        ctx.dist["e2e:%s:h%d" % (be, ver)] += 1
        v, d = e2e_judge(l, out, iso, exp[k])
        rep = {"property": ctx.pid, "correspondence": "e2e-beresp", "input": l, "impl_obs": out[:1500],
               "model_obs": [m[:600] for m in exp[k][:4]]}
        if v:
            nor += 1
            ctx.violation("oracle:e2e-beresp:" + _re.sub(r"[0-9]+", "N", v)[:70], v,
                          dict(rep, kind="property-oracle", oracle_verdict=v), found=True)
        elif d:
            ndis += 1
            ctx.violation("corr:e2e-beresp:" + _re.sub(r"[0-9]+|b'[^']*'", "N", d)[:50],
                          "model/implementation correspondence e2e-beresp broken: " + d,
                          dict(rep, kind="correspondence", detail=d,
                               oracle_verdict="accepted by the property oracle"), found=False)
    for k in order[::max(1, len(order) // 4)]:
        ctx.sample({"stream": "e2e-beresp", "input": cases[k][:300], "impl": obs[k][0][:300]})
    ctx.dist["e2e:repeated-with-long-pauses"] = nret
    ctx.streams.append({"name": "e2e-beresp", "cases": len(cases), "disagreements": ndis, "oracle_hits": nor,
                        "wall_s": round(time.time() - t0, 2)})


def replay_e2e(ctx, rep):
    from .. import e2e
    bd, err = e2e.build_server()
    if bd is None:
        print("server does not build:", err[-2000:])
        return 1
    if rep.get("scenario") == "cgi-timeout":
        rc = 0
        for case, out, verdict in e2e_cgi_timeout(bd):
            print(case, out[:600], "|", verdict)
            rc |= 1 if verdict else 0
        if rc:
            print("VIOLATION property=%s replay=(replayed)" % ctx.pid)
        return rc
    l = rep["input"]
    exp = e2e_expect([l])[0]
    backend = ScriptedBackend()
    srvs = e2e_servers(bd, backend)
    try:
        out, iso = e2e_one([s.port for s in srvs], backend, 1, l, 0.25)
    finally:
        for s in srvs:
            s.stop()
        backend.close()
    be, ver, stream, head_req, end, segs = e2e_parse(l)
    print("input:", be, ver, stream, "HEAD" if head_req else "GET", end, segs)
    print("impl :", out[:3000])
    for m in exp:
        print("model:", m[:3000])
    v, d = e2e_judge(l, out, iso, exp)
    print("oracle:", v, "| vs model:", d)
    crash = [s.sanitizer_report() for s in srvs if s.sanitizer_report()]
    if crash:
        print(crash[0][-3000:])
    if v or d or crash:
        print("VIOLATION property=%s replay=(replayed)" % ctx.pid)
        return 1
    return 0



M_SEGM = "the outcome depends on how the backend stream is cut into reads (every split must give the same): "


def segmentation_oracle(ctx, name, seen):
    """`seen`: line -> implementation output of one stream.  The same backend octets, cut into reads in
    different ways, must give the client the same response (the decoder alone: the same verdict)."""
    groups = collections.defaultdict(list)
    vcache = {}
    for l, out in seen.items():
        t = l.split(" ")
        if out == "<crash>":
            continue
        if t[0] == "dechunk":
            o = out.split(" ")
            # (after a framing error what was passed through before it was noticed depends on the reads: verdict only)
            sig = o[0] if o[0] == "err" else " ".join(x for x in o if not x.startswith("h="))
            groups[("dechunk", t[1], t[2], "".join(t[3:]))].append((sig, l))
        elif t[0] == "relay" and t[5] == "eof" and t[1] != "fcgi":
            key = (t[2], t[3] == "0", t[4], out)
            if key not in vcache:
                v = view(int(t[2]), t[4] == "H", out)
                if "bad" in v:
                    vcache[key] = ("bad", v["bad"])
                else:
                    f = dict(v["fields"])
                    for k, vs in v["trailers"].items():      # (trailers may be merged into the head)
                        f[k] = f.get(k, []) + vs
                    # (framing and connection reuse may depend on timing in streaming mode — Content-Length +
                    #  keep-alive when everything is there at once, chunked / close-delimited otherwise; the
                    #  message must be the same: status, interim responses, fields, body, completeness)
                    done = v["complete"] is True or (v["complete"] is None and v["cend"] == "close")
                    # (buffered mode: whether the Trailer announcement is relayed must not depend on the reads either)
                    vcache[key] = (v["status"], tuple(v["interims"]), done, v["body"],
                                   v["announces"] if t[3] == "0" else None, f)
            groups[("relay",) + tuple(t[1:6]) + ("".join(t[6:]),)].append((vcache[key], l))
    for key, lst in groups.items():
        if len(lst) < 2:
            continue
        if key[0] == "relay":
            drop = set()
            if key[2] == "10":
                # an HTTP/1.0 client cannot be sent a trailer section: trailer fields reach it only when they arrive
                # before the response starts
                ref = ref_backend(C.unhx(key[6]), key[1])
                if ref.get("kind") == "msg":
                    drop = set(k.lower() for k, _ in ref.get("trailers") or [])
            lst = [((v[:-1] + (tuple(sorted((k, tuple(sorted(x))) for k, x in v[-1].items() if k not in drop)),))
                    if v[0] != "bad" else v, l) for v, l in lst]
        a = lst[0]
        for b in lst[1:]:
            if b[0] != a[0]:
                what = M_SEGM + ("chunked decoder verdict" if key[0] == "dechunk" else "client-side response")
                l1, l2 = sorted((a[1], b[1]), key=len)
                ctx.violation("oracle:%s:%s" % (name, what), what,
                              {"property": ctx.pid, "kind": "property-oracle", "correspondence": name, "input": l2,
                               "other_input": l1, "impl_obs": seen[l2][:2000], "other_obs": seen[l1][:2000],
                               "oracle_verdict": what}, found=True)
                return 1
    return 0


def run(ctx):
    exe, err = C.build_harness("h_beresp")
    if exe is None:
        ctx.broken.append({"kind": "harness-build", "names": ["h_beresp"], "log": err[-3000:]})
        return
    rl = gen_relay(ctx)
    ex = gen_exhaustive(ctx)
    big = gen_big(ctx) + gen_special(ctx) + gen_bodiless(ctx)
    ctx.dist["relay:random"] = len(rl)
    ctx.dist["relay:exhaustive-splits-and-cuts"] = len(ex)
    ctx.dist["relay:large-bodies"] = len(big)
    # (short exhaustive cases first: the runner keeps the first failing input of each kind as replay)
    for name, lines in (("relay(h_beresp)", sorted(ex, key=len) + rl + big), ("backend-dechunk(h_beresp)", gen_dechunk(ctx)),
                        ("fastcgi-records(h_beresp)", gen_fcgi(ctx))):
        nv = len(ctx.violations)
        seen = {}

        def oracle_rec(l, out, seen=seen):
            seen[l] = out
            return oracle(l, out)
        nd = ctx.differential(name, [exe], "beresp", lines, oracle_rec, classify)
        if any(v[0].startswith("crash:") for v in ctx.violations[nv:]):
            # after a crash the outputs of the remaining parallel chunks are no longer aligned with their inputs
            # (common.parallel_lines pads only the first crashed chunk): report the crash alone
            ctx.violations[nv:] = [v for v in ctx.violations[nv:] if v[0].startswith("crash:")]
            ctx.notes.append("%s: harness crashed; oracle/correspondence verdicts of this stream are not reported" % name)
            continue
        segmentation_oracle(ctx, name, seen)
        if nd and ctx.model_ok:
            unexplained_disagreements(ctx, name, exe, lines)
    if ctx.model_ok:
        run_e2e(ctx)
    ctx.exhaustive = ("every composition into segments of the head/body boundary, the first and the last "
                      "%d bytes of %d short proxy/CGI responses; every cut point x every end kind "
                      "(eof, reset, error, hangup, stall) x client protocol (1.0, 1.1, h2) x stream-response-body "
                      "(0,1,2); every cut point of a FastCGI record stream; all splits of 8 short chunked bodies"
                      % (11 if ctx.quick else 13, len(SHORT_PROXY) + len(SHORT_CGI)))
    ctx.rule = ("distinct = (backend kind, client protocol, streaming mode, method, end kind, #segments class, "
                "client outcome ka/close/pend, status class, response flags, #interim, client framing) tuples; "
                "responses from a grammar (70% strictly well-formed) with byte corruptions, truncation at random "
                "points, random segmentation / FastCGI record packing with padding and STDERR; e2e-beresp: (backend "
                "kind, client protocol, streaming mode, end kind, client end, status class, completeness, client "
                "framing) tuples observed on the real server")
    ctx.assumptions += [
        "chunk-size lines of 1024 bytes or more, trailer sections beyond max-request-field-size and NUL bytes in "
        "the last-chunk/trailer section are not generated (the C is read-boundary dependent there)",
        "one backend read per generated segment (segments <= 3000 bytes); the socket to the client is always writable",
        "in the harness HTTP/2 is observed as logical frames through a stub of the per-stream loop; h2.c is executed "
        "by the e2e-beresp stream only (real frames, decoded with nghttp2's HPACK)",
        "e2e-beresp: backend writes are separated by pauses (60 ms; suspicious cases are repeated alone with 250/500 ms) "
        "and the model outcome of every coalescing of adjacent writes is accepted; only eof/reset/stall ends exist "
        "over TCP; server.range-requests is disabled (Accept-Ranges is C15's)",
        "authorizer mode, Upgrade, X-Sendfile, local redirects and error handlers are switched off"]


def replay_line(ctx, rep):
    if rep.get("correspondence") == "e2e-beresp":
        return replay_e2e(ctx, rep)
    line_ = rep["input"]
    exe, err = C.build_harness("h_beresp")
    if exe is None:
        print("harness does not build:", err[-2000:])
        return 1
    if rep.get("other_input"):
        # segmentation oracle: the same octets, cut differently
        ls = [line_, rep["other_input"]]
        o, rc, e = C.run_lines([exe], ls)
        seen = dict(zip(ls, o))

        class _Ctx:
            pid = ctx.pid
            hit = None

            def violation(self, sig, what, replay, found=True):
                self.hit = what
        c2 = _Ctx()
        segmentation_oracle(c2, rep.get("correspondence", "relay(h_beresp)"), seen)
        for l, out in seen.items():
            print("input:", l[:300])
            print("impl :", out[:600])
        print("oracle:", c2.hit)
        if c2.hit or rc:
            print("VIOLATION property=%s replay=(replayed)" % ctx.pid)
            return 1
        return 0
    o, rc, e = C.run_lines([exe], [line_])
    m, _, _ = C.run_model("beresp", [line_])
    t = line_.split(" ")
    print("input:", " ".join(t[:6]) if t[0] == "relay" else t[0], [C.unhx(x) for x in t[(6 if t[0] == "relay" else 1):] if len(x) % 2 == 0 or x == "-"][:40])
    print("impl :", o, rc)
    if rc:
        print(e[-3000:])
    print("model:", m)
    v = oracle(line_, o[0]) if o else "crash"
    print("oracle:", v)
    if v or (o != m):
        print("VIOLATION property=%s replay=(replayed)" % ctx.pid)
        return 1
    return 0
