"""C10 — backend responses are relayed faithfully; broken ones never look complete."""
import itertools, struct
from .. import common as C

MANIFEST = dict(
    text="Lean 4 theorems over executable byte automata of the backend response path: header "
         "accumulation/parsing (http_response_parse_headers/_process_headers incl. NPH/CGI, 1xx loop, "
         "64 KiB limit), Content-Length accounting, the backend chunked decoder "
         "(http_chunk_decode_append_data incl. trailers), FastCGI record reassembly (fastcgi_get_packet, "
         "fcgi_recv_parse_loop, padding, END_REQUEST), end-of-stream classification "
         "(gw_recv_response/_error, http_response_backend_done/_error) and the client-side framing "
         "(http_response_write_prepare, h1_send_headers, http_chunk): segmentation independence, "
         "round trips, truncated/malformed never complete; tied to the C by differential runs of the "
         "real gw_backend.c/mod_fastcgi.c/http-header-glue.c/http_chunk.c/response.c/h1.c code over a "
         "socketpair (every split of short responses, every cut point, all end kinds) under ASan/UBSan, "
         "with an independent strict client-side parser as property oracle",
    note="trusted: Lean kernel; hand-written models validated by the h_beresp correspondence; the "
         "harness-owned connection state machine stub (mirrors connection_state_machine_loop / the h2 "
         "per-stream loop; HTTP/2 is observed at the level of logical frames, h2.c itself is not run); "
         "socket behaviour beyond read() results, temp-file spill, authorizer/upgrade/X-Sendfile/"
         "local-redirect modes are outside the model",
    tech="Lean 4 proof over hand-written model + differential correspondence (in-process C harness)",
    ref="6/C10")

CRLF = b"\r\n"


# ------------------------------------------------------------------ building backend responses
def hexsz(n, rng=None):
    s = b"%x" % n
    if rng is not None:
        r = rng.random()
        if r < 0.15:
            s = s.upper()
        elif r < 0.25:
            s = b"0" * rng.randint(1, 2) + s
    return s


def enchunk(body, sizes, trailers=(), rng=None, exts=False):
    out, i = b"", 0
    for n in sizes:
        if n <= 0:
            continue
        piece = body[i:i + n]
        if not piece:
            break
        i += len(piece)
        ext = b""
        if exts and rng is not None and rng.random() < 0.3:
            ext = rng.choice([b";a=b", b" ;x", b";", b"\t"])
        out += hexsz(len(piece), rng) + ext + CRLF + piece + CRLF
    if i < len(body):
        out += hexsz(len(body) - i) + CRLF + body[i:] + CRLF
    out += b"0" + CRLF
    for k, v in trailers:
        out += k + b": " + v + CRLF
    return out + CRLF


def render(d):
    """d: dict(style, status, reason, fields, framing, body, sizes, trailers, interim, eol)"""
    eol = d.get("eol", CRLF)
    out = b""
    for st, fl in d.get("interim", ()):
        if d["style"] == "nph":
            out += b"HTTP/1.1 %d Info" % st + eol
        else:
            out += b"Status: %d" % st + eol
        for k, v in fl:
            out += k + b": " + v + eol
        out += eol
    fl = list(d["fields"])
    if d["style"] == "nph":
        out += d.get("proto", b"HTTP/1.1") + b" %d" % d["status"] + d.get("reason", b" OK") + eol
    elif d["style"] == "cgi" and d["status"] is not None:
        fl.insert(d.get("statuspos", 0) % (len(fl) + 1), (b"Status", b"%d" % d["status"] + d.get("reason", b"")))
    body = d["body"]
    fr = d["framing"]
    if fr == "cl":
        fl.insert(d.get("clpos", len(fl)) % (len(fl) + 1), (b"Content-Length", b"%d" % d.get("clen", len(body))))
    elif fr == "chunked":
        fl.insert(d.get("clpos", len(fl)) % (len(fl) + 1), (b"Transfer-Encoding", b"chunked"))
        if d.get("trailers"):
            fl.append((b"Trailer", b", ".join(k for k, _ in d["trailers"])))
    for k, v in fl:
        out += k + b": " + v + eol
    out += eol
    if fr == "chunked":
        out += enchunk(body, d.get("sizes", [len(body)]), d.get("trailers", ()), d.get("rng"), d.get("exts", False))
    else:
        out += body
    return out


FIELD_POOL = [(b"Content-Type", [b"text/plain", b"text/html; charset=utf-8", b"application/javascript",
                                 b"application/javascript; charset=x", b"application/json"]),
              (b"X-Foo", [b"bar", b"a b", b"\"q\"", b"x" * 40]), (b"x-foo", [b"second"]),
              (b"Set-Cookie", [b"a=1", b"b=2; Path=/", b"c=3"]), (b"Cache-Control", [b"no-cache", b"max-age=60"]),
              (b"ETag", [b"\"abc\"", b"W/\"x\""]), (b"Last-Modified", [b"Sat, 29 Oct 1994 19:43:31 GMT"]),
              (b"Vary", [b"Accept-Encoding", b"*"]), (b"Link", [b"</a>; rel=preload"]),
              (b"Content-Encoding", [b"gzip"]), (b"Server", [b"backend/1.0"]), (b"Date", [b"Tue, 15 Nov 1994 08:12:31 GMT"]),
              (b"Location", [b"/there", b"http://ex.org/x"]), (b"WWW-Authenticate", [b"Basic realm=\"r\""]),
              (b"X-Long-Header-Name-For-Testing", [b"v"]), (b"Content-Language", [b"en"]),
              (b"Expires", [b"0"]), (b"Pragma", [b"no-cache"]), (b"Age", [b"1"])]
ODD_FIELDS = [(b"Connection", [b"close", b"keep-alive", b"Close", b"foo, close", b"closed", b"upgrade"]),
              (b"Upgrade", [b"websocket", b"h2c"]), (b"HTTP2-Settings", [b"AAAA"]),
              (b"Status", [b"201", b"404 Not Found", b"abc", b"99", b"2000", b"200x"]),
              (b"X-Sendfile", [b"/etc/passwd"]), (b"X-LIGHTTPD-send-file", [b"/x"]), (b"X-Lighttpd-Foo", [b"1"]),
              (b"Content-Length", [b"3", b"+4", b"5 ", b"abc", b"", b"99999999999999999999", b"0"]),
              (b"Transfer-Encoding", [b"chunked", b"gzip"]), (b"Bad Name", [b"v"]), (b"Bad ", [b"v"]),
              (b"Empty", [b""]), (b"", [b"v"]), (b"Trailer", [b"X-T"]), (b"Keep-Alive", [b"timeout=5"])]
STATUSES = [200, 200, 200, 200, 201, 204, 206, 301, 302, 304, 400, 401, 403, 404, 500, 502, 503, 599, 205, 299]
BODY_ALPHA = b"ab\r\n0;:\x00\xff "


def rand_body(rng, n):
    return bytes(rng.choice(BODY_ALPHA) for _ in range(n))


def rand_fields(rng, n, odd=0.0):
    out = []
    for _ in range(n):
        k, vs = rng.choice(ODD_FIELDS if rng.random() < odd else FIELD_POOL)
        out.append((k, rng.choice(vs)))
    return out


def rand_resp(rng, be, valid=True):
    d = {}
    d["style"] = "nph" if be == "proxy" or rng.random() < 0.25 else "cgi"
    d["status"] = rng.choice(STATUSES)
    if d["style"] == "cgi" and rng.random() < 0.4:
        d["status"] = None
    d["reason"] = rng.choice([b" OK", b" OK", b"", b" Some Reason", b" "]) if d["style"] == "nph" else \
        rng.choice([b"", b"", b" OK"])
    d["proto"] = rng.choice([b"HTTP/1.1", b"HTTP/1.1", b"HTTP/1.0"]) if valid else \
        rng.choice([b"HTTP/1.1", b"HTTP/1.0", b"HTTP/2.0", b"HTTP/1.2", b"HTTP/11", b"http/1.1", b"HTTP/1.1x"])
    d["fields"] = rand_fields(rng, rng.randint(0, 4), 0.0 if valid else 0.35)
    d["statuspos"] = rng.randint(0, 5)
    d["clpos"] = rng.randint(0, 5)
    fr = rng.choice(["cl", "cl", "chunked", "chunked", "eof"])
    if be != "proxy" and fr == "chunked" and rng.random() < 0.5:
        fr = "eof"
    d["framing"] = fr
    n = rng.choice([0, 1, 2, 3, 5, 8, 13, 30, 100])
    d["body"] = rand_body(rng, n)
    if fr == "chunked":
        k = rng.randint(1, 3)
        d["sizes"] = [rng.randint(1, max(1, n)) for _ in range(k)]
        d["rng"] = rng
        d["exts"] = rng.random() < 0.3
        if rng.random() < 0.3:
            d["trailers"] = [(rng.choice([b"X-T", b"X-Sum", b"ETag"]), rng.choice([b"v", b"\"t\"", b"a b"]))
                             for _ in range(rng.randint(1, 2))]
    if fr == "cl" and not valid and rng.random() < 0.5:
        d["clen"] = max(0, n + rng.choice([-2, -1, 1, 3]))
    if rng.random() < 0.15:
        d["interim"] = [(rng.choice([100, 102, 103, 103, 199]), rand_fields(rng, rng.randint(0, 2)))
                        for _ in range(rng.randint(1, 2))]
    if rng.random() < 0.12:
        d["eol"] = b"\n"
    return d


# ------------------------------------------------------------------ FastCGI records
def fcgi_rec(t, data, pad=0, rid=1, ver=1):
    return struct.pack(">BBHHBB", ver, t, rid, len(data), pad, 0) + data + b"\0" * pad


def fcgi_wrap(rng, data, end=True, stderr=True):
    """pack a CGI-style response into STDOUT records (random sizes/padding, STDERR interleaved)"""
    out, i = b"", 0
    while i < len(data):
        n = rng.choice([1, 2, 3, 5, 8, 16, 40, 200, len(data)])
        piece = data[i:i + n]
        i += len(piece)
        out += fcgi_rec(6, piece, rng.choice([0, 0, 0, 1, 3, 7, 8]), rng.choice([1, 1, 1, 0, 7]))
        if stderr and rng.random() < 0.1:
            out += fcgi_rec(7, rng.choice([b"warn", b"", b"x" * 20]), rng.choice([0, 4]))
        if rng.random() < 0.04:
            out += fcgi_rec(rng.choice([1, 2, 4, 5, 8, 9, 10, 11, 99]), b"zz", rng.choice([0, 2]))
        if rng.random() < 0.05:
            out += fcgi_rec(6, b"", rng.choice([0, 5]))
    if end:
        if rng.random() < 0.8:
            out += fcgi_rec(6, b"")
        out += fcgi_rec(3, b"\0" * 8, rng.choice([0, 0, 8]))
    return out


# ------------------------------------------------------------------ segmentation
def all_splits(data):
    n = len(data)
    for mask in range(1 << max(0, n - 1)):
        segs, cur = [], data[:1]
        for i in range(1, n):
            if mask >> (i - 1) & 1:
                segs.append(cur); cur = b""
            cur += data[i:i + 1]
        segs.append(cur)
        yield segs


def rand_split(rng, data, k=None):
    if len(data) <= 1:
        return [data] if data else []
    if k is None:
        k = rng.choice([1, 1, 2, 2, 3, 4, 6, len(data)])
    k = min(k, len(data))
    cuts = sorted(rng.sample(range(1, len(data)), k - 1))
    return [data[a:b] for a, b in zip([0] + cuts, cuts + [len(data)])]


def split_region(data, lo, hi):
    """every composition of data[lo:hi] (≤ 13 bytes), the rest in one piece each side"""
    for mid in all_splits(data[lo:hi]):
        segs = []
        if lo:
            segs.append(data[:lo])
        segs += mid
        if hi < len(data):
            segs.append(data[hi:])
        yield segs


def line(be, ver, stream, meth, end, segs):
    return "relay %s %d %d %s %s %s" % (be, ver, stream, meth, end, " ".join(C.hx(s) for s in segs if s) or "-")


BES = ["proxy", "cgi", "scgi", "fcgi"]
VERS = [11, 11, 11, 10, 20]
ENDS = ["eof", "eof", "eof", "rst", "err", "hup", "none"]


def corrupt1(blk, rng):
    i = rng.randrange(len(blk))
    b = bytes([rng.choice([0, 9, 10, 13, 32, 58, 59, 48, 49, 65, 102, 103, 127, 255, rng.randint(0, 255)])])
    kind = rng.randint(0, 2)
    if kind == 0:
        return blk[:i] + b + blk[i + 1:]
    if kind == 1:
        return blk[:i] + b + blk[i:]
    return blk[:i] + blk[i + 1:]


def gen_relay(ctx):
    rng = ctx.rng
    lines = []
    n = 30000 if ctx.quick else 300000
    for _ in range(n):
        be = rng.choice(BES)
        valid = rng.random() < 0.7
        d = rand_resp(rng, be, valid)
        data = render(d)
        if not valid and rng.random() < 0.5 and data:
            data = corrupt1(data, rng)
        end = rng.choice(ENDS)
        if rng.random() < 0.3 and data:
            data = data[:rng.randrange(len(data) + 1)]           # backend stops early
        if be == "fcgi":
            complete = rng.random() < 0.75
            data = fcgi_wrap(rng, data, end=complete)
            if rng.random() < 0.15 and data:
                data = data[:rng.randrange(len(data) + 1)]
        segs = rand_split(rng, data)
        lines.append(line(be, rng.choice(VERS), rng.choice([0, 1, 1, 2]), "H" if rng.random() < 0.08 else "G", end, segs))
    return lines


# ------------------------------------------------------------------ independent reference: backend side
TOKEN = set(b"!#$%&'*+-.^_`|~0123456789abcdefghijklmnopqrstuvwxyzABCDEFGHIJKLMNOPQRSTUVWXYZ")
HOP = {b"connection", b"keep-alive", b"transfer-encoding", b"content-length", b"date", b"server", b"status",
       b"upgrade", b"http2-settings", b"trailer", b"te", b"proxy-connection"}


def fcgi_decode(data):
    """independent FastCGI record decoder: (stdout bytes, END_REQUEST seen, clean=no partial record)"""
    out, i, ended = b"", 0, False
    while len(data) - i >= 8 and not ended:
        ver, t, rid, clen, pad, _ = struct.unpack(">BBHHBB", data[i:i + 8])
        if len(data) - i - 8 < clen + pad:
            break
        if t == 6:
            out += data[i + 8:i + 8 + clen]
        elif t == 3:
            ended = True
        i += 8 + clen + pad
    return out, ended, i == len(data)


def ref_dechunk(data):
    """strict RFC 9112 7.1 decoder: ('ok', body, trailers, used) | ('more', body) | ('bad', body)"""
    i, body = 0, b""
    while True:
        j = data.find(b"\n", i)
        if j < 0:
            return ("more", body) if len(data) - i < 1024 else ("bad", body)
        ln = data[i:j + 1]
        if not ln.endswith(CRLF):
            return ("bad", body)
        k = 0
        while k < len(ln) and chr(ln[k]) in "0123456789abcdefABCDEF":
            k += 1
        if k == 0 or k > 15:
            return ("bad", body)
        rest = ln[k:-2].lstrip(b" \t")
        if rest and not rest.startswith(b";"):
            return ("bad", body)
        size = int(ln[:k], 16)
        i = j + 1
        if size == 0:
            e = data.find(b"\r\n\r\n", j - 1)
            if e < 0:
                return ("more", body)
            tr = []
            for tl in data[i:e + 2].split(CRLF):
                if tl and b":" in tl:
                    a, b_ = tl.split(b":", 1)
                    tr.append((a, b_.strip(b" \t")))
            return ("ok", body, tr, e + 4)
        take = data[i:i + size]
        body += take
        if len(take) < size:
            return ("more", body)
        i += size
        tail = data[i:i + 2]
        if len(tail) < 2:
            if tail and tail != b"\r":
                return ("bad", body)
            return ("more", body)
        if tail != CRLF:
            return ("bad", body)
        i += 2


def ref_fields(lines):
    """strict field-line parser; None when any line is not `token ":" OWS value OWS` """
    out = []
    for l in lines:
        if b":" not in l:
            return None
        k, v = l.split(b":", 1)
        if not k or any(c not in TOKEN for c in k):
            return None
        v = v.strip(b" \t")
        if any((c < 32 and c != 9) or c == 127 for c in v):
            return None
        out.append((k, v))
    return out


def ref_backend(data, be):
    """Classify what the backend sent (independent of lighttpd's leniency).
    returns dict(kind=..., ...):
      kind 'nohead'   header block never completed
      kind 'badhead'  proxy: not an HTTP/1.x status line / status unusable
      kind 'lenient'  something a strict parser would not accept but that is not clearly broken
      kind 'msg'      strictly well-formed head: interims, status, fields, framing, body, complete, badframing"""
    msgs = []
    rest = data
    while True:
        # header block: lines up to the first empty line; one line-end convention throughout
        e1, e2 = rest.find(b"\r\n\r\n"), rest.find(b"\n\n")
        if e1 < 0 and e2 < 0:
            if rest[:2] == CRLF or rest[:1] == b"\n":
                pass
            else:
                return dict(kind="nohead", interims=msgs)
        if rest[:2] == CRLF or rest[:1] == b"\n":
            return dict(kind="lenient", why="empty head")
        if e1 >= 0 and (e2 < 0 or e1 < e2):
            head, after, eol = rest[:e1], rest[e1 + 4:], CRLF
        else:
            head, after, eol = rest[:e2], rest[e2 + 2:], b"\n"
        lines = head.split(eol)
        if any(b"\n" in l or b"\r" in l for l in lines):
            return dict(kind="lenient", why="mixed line ends")
        if len(head) + 4 > 60000:
            return dict(kind="lenient", why="huge head")
        status = None
        first = lines[0]
        if first.startswith(b"HTTP/"):
            ok = len(first) >= 12 and first[5:6] == b"1" and first[6:7] == b"." and first[7:8] in (b"0", b"1") \
                and first[8:9] == b" " and first[9:12].isdigit() and (len(first) == 12 or first[12:13] == b" ")
            if not ok:
                return dict(kind="badhead" if be == "proxy" else "lenient", why="status line")
            status = int(first[9:12])
            lines = lines[1:]
        elif be == "proxy":
            return dict(kind="badhead")
        fl = ref_fields(lines)
        if fl is None:
            return dict(kind="lenient", why="field syntax")
        names = [k.lower() for k, _ in fl]
        if status is None:
            st = [v for k, v in fl if k.lower() == b"status"]
            if len(st) > 1:
                return dict(kind="lenient", why="two Status")
            if st:
                if not (st[0][:3].isdigit() and len(st[0]) >= 3 and (len(st[0]) == 3 or st[0][3:4] == b" ")):
                    return dict(kind="lenient", why="Status value")
                status = int(st[0][:3])
            elif b"location" in names:
                status = 302
            else:
                status = 200
        elif b"status" in names:
            return dict(kind="lenient", why="Status with status line")
        if status < 100 or status > 599:
            return dict(kind="lenient", why="status range")
        for odd in (b"connection", b"upgrade", b"http2-settings", b"keep-alive", b"x-sendfile", b"x-sendfile2"):
            if odd in names:
                return dict(kind="lenient", why="hop-by-hop field from backend")
        if any(n.startswith(b"x-lighttpd-") for n in names):
            return dict(kind="lenient", why="x-lighttpd")
        if 100 <= status < 200 and status != 101:
            if b"content-length" in names or b"transfer-encoding" in names:
                return dict(kind="lenient", why="framing in 1xx")
            msgs.append((status, [(k, v) for k, v in fl if k.lower() != b"status"]))
            rest = after
            continue
        if status == 101:
            return dict(kind="lenient", why="101")
        cl = [v for k, v in fl if k.lower() == b"content-length"]
        te = [v for k, v in fl if k.lower() == b"transfer-encoding"]
        if len(cl) > 1 or len(te) > 1 or (cl and te):
            return dict(kind="lenient", why="ambiguous framing")
        r = dict(kind="msg", interims=msgs, status=status, trailers=[],
                 fields=[(k, v) for k, v in fl if k.lower() not in HOP], badframing=False,
                 announced_trailer=b"trailer" in names)
        if te:
            if te[0].lower() != b"chunked":
                return dict(kind="lenient", why="transfer-encoding value")
            d = ref_dechunk(after)
            r["framing"] = "chunked"
            r["body"] = d[1]
            r["complete"] = d[0] == "ok"
            r["badframing"] = d[0] == "bad"
            if d[0] == "ok":
                r["trailers"] = d[2]
                r["excess"] = len(after) - d[3]
        elif cl:
            if not cl[0].isdigit() or int(cl[0]) > 2 ** 62:
                return dict(kind="lenient", why="content-length value")
            n = int(cl[0])
            r["framing"] = "cl"
            r["clen"] = n
            r["body"] = after[:n]
            r["complete"] = len(after) >= n
            r["excess"] = max(0, len(after) - n)
        else:
            r["framing"] = "eof"
            r["body"] = after
            r["complete"] = None          # decided by how the stream ended
        return r


# ------------------------------------------------------------------ independent reference: client side
def client_h1(wire, head_req):
    """strict HTTP/1.x client: interim responses, then one final response.
    returns dict(ok=False, why) on a syntax error, else
    dict(ok, interims, version, status, fields, framing, body, trailers, complete, excess)"""
    pos, interims = 0, []
    while True:
        e = wire.find(b"\r\n\r\n", pos)
        if e < 0:
            if pos == len(wire) and not interims:
                return dict(ok=True, empty=True, complete=False, interims=[], status=None)
            return dict(ok=True, empty=False, complete=False, interims=interims, status=None, headonly=True)
        lines = wire[pos:e].split(CRLF)
        sl = lines[0]
        if not (len(sl) >= 13 and sl[:7] == b"HTTP/1." and sl[7:8] in (b"0", b"1") and sl[8:9] == b" "
                and sl[9:12].isdigit() and sl[12:13] == b" "):
            return dict(ok=False, why="client status line %r" % sl[:40])
        status = int(sl[9:12])
        fields = []
        for l in lines[1:]:
            if b":" not in l:
                return dict(ok=False, why="client field line without colon %r" % l[:40])
            k, v = l.split(b":", 1)
            if not k or any(c not in TOKEN for c in k):
                return dict(ok=False, why="client field name %r" % k[:40], fieldsyntax=True)
            v = v.strip(b" \t")
            if b"\r" in v or b"\n" in v or b"\x00" in v:
                return dict(ok=False, why="client field value with CR/LF/NUL %r" % v[:40], fieldsyntax=True)
            fields.append((k, v))
        pos = e + 4
        if 100 <= status < 200 and status != 101:
            interims.append((status, fields))
            continue
        break
    names = [k.lower() for k, _ in fields]
    cl = [v for k, v in fields if k.lower() == b"content-length"]
    te = [v for k, v in fields if k.lower() == b"transfer-encoding"]
    r = dict(ok=True, empty=False, interims=interims, version=sl[5:8], status=status, fields=fields, trailers=[],
             excess=0, conn=[v.lower() for k, v in fields if k.lower() == b"connection"])
    after = wire[pos:]
    if head_req or status in (204, 304) or 100 <= status < 200:
        r.update(framing="none", body=b"", complete=True, excess=len(after))
    elif te:
        if len(te) != 1 or te[0].lower() != b"chunked" or cl or sl[5:8] != b"1.1":
            return dict(ok=False, why="client framing fields: TE=%r CL=%r" % (te, cl))
        d = ref_dechunk(after)
        if d[0] == "bad":
            return dict(ok=False, why="client chunked framing invalid")
        r.update(framing="chunked", body=d[1], complete=d[0] == "ok")
        if d[0] == "ok":
            r["trailers"] = d[2]
            r["excess"] = len(after) - d[3]
    elif cl:
        if len(cl) != 1 or not cl[0].isdigit():
            return dict(ok=False, why="client Content-Length %r" % cl, clsyntax=True)
        n = int(cl[0])
        r.update(framing="cl", clen=n, body=after[:n], complete=len(after) >= n, excess=max(0, len(after) - n))
    else:
        r.update(framing="close", body=after, complete=None)
    return r


def client_h2(evs):
    """logical HTTP/2 view from the harness events"""
    r = dict(ok=True, empty=not evs, interims=[], status=None, fields=[], body=b"", trailers=[], complete=False,
             rst=False, framing="h2", excess=0)
    for t in evs:
        if t[0] in "IH":
            _, st, hx_ = t.split(":")
            fl = []
            for l in C.unhx(hx_).split(CRLF):
                if l and b": " in l:
                    k, v = l.split(b": ", 1)
                    fl.append((k, v))
            if t[0] == "I":
                r["interims"].append((int(st), fl))
            else:
                r["status"], r["fields"] = int(st), fl
        elif t[0] == "W":
            r["body"] += C.unhx(t[2:])
        elif t[0] == "T":
            for l in C.unhx(t[2:]).split(CRLF):
                if l and b":" in l:
                    k, v = l.split(b":", 1)
                    r["trailers"].append((k, v.strip(b" \t")))
            r["complete"] = True
        elif t == "E":
            r["complete"] = True
        elif t == "R":
            r["rst"] = True
    return r


def by_name(fields):
    d = {}
    for k, v in fields:
        if k.lower() in HOP or k.lower().startswith(b"x-lighttpd-") or k.lower() in (b"x-sendfile",):
            continue
        if k.lower() == b"content-type" and v.startswith(b"application/javascript"):
            v = b"text/javascript" + v[22:]       # documented rewrite in http_response_process_headers
        d.setdefault(k.lower(), []).append(v)
    return d


def oracle(line, out):
    t = line.split(" ")
    if t[0] == "dechunk":
        return oracle_dechunk(t, out)
    if t[0] == "fcgi":
        return oracle_fcgi(t, out)
    if t[0] != "relay":
        return None
    be, ver, stream, head_req, end = t[1], int(t[2]), int(t[3]), t[4] == "H", t[5]
    data = b"".join(C.unhx(x) for x in t[6:])
    o = out.split(" ")
    evs = [x for x in o if x and x[0] in "WIHTER" and (x in ("E", "R") or x[1:2] == ":")]
    kv = dict(x.split("=", 1) for x in o if "=" in x and x[0] not in "WIHT")
    cend = kv.get("end")
    if "READERR" in out:
        return "harness could not read back the client queue"
    # ---- what the backend sent
    fin_ok = True
    if be == "fcgi":
        resp, ended, _ = fcgi_decode(data)
        fin_ok = ended
    else:
        resp = data
    ref = ref_backend(resp, be)
    # ---- what the client saw
    if ver == 20:
        cv = client_h2(evs)
    else:
        wire = b"".join(C.unhx(x[2:]) for x in evs if x[0] == "W")
        cv = client_h1(wire, head_req)
    good = ref["kind"] == "msg" and not ref["badframing"]
    if not cv["ok"]:
        if cv.get("fieldsyntax") and not good:
            return None                      # garbage field from the backend passed through
        if cv.get("clsyntax") and not good:
            return None
        return "client-side message is not valid HTTP: " + cv["why"]
    # ---- generic: keep-alive only after exactly one complete, self-delimited message
    if cend == "ka":
        if cv.get("empty") or cv.get("headonly") or cv["status"] is None:
            return "connection kept alive without a complete response"
        if cv["complete"] is not True:
            if ref["kind"] == "msg" and ref["framing"] == "cl" and ref["complete"] is False:
                return ("Content-Length-delimited backend response truncated by the backend is relayed with "
                        "the full Content-Length and the connection is kept alive (client waits / next response "
                        "is taken as body)")
            return "connection kept alive after an incomplete / close-delimited message"
        if cv["excess"]:
            return "connection kept alive with bytes after the end of the message"
    if cend in ("ka", "close") and ver != 20 and not cv.get("empty") and not cv.get("headonly") \
            and cv["framing"] == "cl" and cv["excess"]:
        return "more body bytes sent than the Content-Length announces"
    if cv.get("empty") or cv.get("status") is None:
        return None if cend == "pend" else "response ended without a response head"
    # ---- the backend stream as a whole: complete and well-formed, or broken?
    ended_clean = end in ("eof", "hup")
    if good:
        complete = ref["complete"] if ref["framing"] != "eof" else (ended_clean if be != "fcgi" else True)
        if be == "fcgi" and not fin_ok and not (ref["framing"] in ("cl", "chunked") and ref["complete"]):
            complete = False
        if be == "fcgi" and ref["framing"] == "cl" and not fin_ok:
            complete = False                 # FastCGI: the record stream itself must end properly
        if be == "fcgi" and ref["framing"] == "chunked" and not fin_ok and end == "none":
            complete = ref["complete"]
    broken = None
    if ref["kind"] == "nohead" and end != "none":
        broken = "backend ended before the response head was complete"
    elif ref["kind"] == "badhead":
        broken = "backend response head is not an HTTP/1.x status line"
    elif ref["kind"] == "msg" and ref["badframing"]:
        broken = "backend chunked framing is invalid"
    elif good and end != "none":
        if ref["framing"] == "cl" and not ref["complete"]:
            broken = "backend closed before the announced Content-Length"
        elif ref["framing"] == "chunked" and not ref["complete"]:
            broken = "backend closed inside the chunked body"
        elif ref["framing"] == "eof" and not ended_clean and be != "fcgi":
            broken = "backend connection failed while sending an EOF-delimited body"
        elif be == "fcgi" and not fin_ok and not (ref["framing"] == "chunked" and ref["complete"]):
            broken = "FastCGI stream ended without END_REQUEST"
    nobody = head_req or cv["status"] in (204, 205, 304)
    if broken:
        if cend == "pend":
            return None
        looks_complete = cv["complete"] is True and cv["status"] < 500
        if looks_complete and not nobody:
            where = "HTTP/2 stream ended with END_STREAM" if ver == 20 else \
                ("response head not yet sent (buffered)" if stream == 0 or True else "")
            mode = "h2" if ver == 20 else ("buffered" if not cv.get("framing") == "chunked" else "streamed")
            return "broken backend response presented as complete %d response [%s; %s]" % (
                cv["status"] // 100 * 100, broken, mode)
        return None
    if not good or not complete:
        return None
    if ref.get("excess"):
        return None                           # garbage after the message: lenient territory
    # ---- faithful relay of a complete, well-formed backend response
    if ref["framing"] == "eof" and be != "fcgi" and end == "none":
        return None
    if cend == "pend":
        if ref["framing"] in ("cl",) and be != "fcgi":
            return "complete Content-Length response not finished towards the client"
        if ref["framing"] == "chunked" and ref["status"] is not None:
            return "complete chunked response not finished towards the client"
        return None
    if cv["status"] != ref["status"]:
        return "status changed in relay: backend %d, client %d" % (ref["status"], cv["status"])
    want_i = [s for s, _ in ref["interims"]] if ver != 10 else []
    if [s for s, _ in cv["interims"]] != want_i:
        return "interim responses not relayed in order: backend %r, client %r" % (want_i, [s for s, _ in cv["interims"]])
    if ver != 10:
        for (s, bf), (_, cf) in zip(ref["interims"], cv["interims"]):
            if by_name(bf) != by_name(cf):
                return "interim response fields changed in relay"
    bfields, cfields = by_name(ref["fields"]), by_name(cv["fields"])
    tr = by_name(ref["trailers"])
    ctr = by_name(cv["trailers"])
    for k, vs in bfields.items():
        got = cfields.get(k, [])
        if k in tr or k in ctr:
            continue
        if got != vs:
            return "end-to-end field %r changed in relay: backend %r, client %r" % (k, vs, got)
    for k, vs in cfields.items():
        if k not in bfields and k not in tr and not (k == b"content-type" and cv["status"] >= 400):
            return "field %r appears in the client response but not in the backend response" % k
    if tr and not (ver == 10 and stream != 0) and not nobody:
        for k, vs in tr.items():
            got = ctr.get(k, []) + [v for v in cfields.get(k, []) if v not in bfields.get(k, [])]
            if sorted(got) != sorted(vs) and not (k in bfields):
                return "trailer field %r not relayed faithfully: backend %r, client %r" % (k, vs, got)
    if not nobody:
        if cv["complete"] is False or (cv["complete"] is None and cend != "close"):
            if ref["framing"] == "chunked" and not any(k.lower() == b"status" for k, _ in []) and cv["framing"] == "chunked":
                return "complete well-formed chunked backend response reaches the client without its last-chunk (looks truncated)"
            return "complete well-formed backend response reaches the client incomplete"
        if cv["body"] != ref["body"]:
            return "body bytes changed in relay (%d backend bytes, %d client bytes)" % (len(ref["body"]), len(cv["body"]))
    elif cv["body"]:
        return "body sent for a HEAD request / 204 / 304 response"
    return None
