"""C11 — backend pool: only live backends are used, failures fail over a bounded
number of times, load counters equal the requests in flight, no socket leaks."""
import itertools
from .. import common as C

MANIFEST = dict(
    text="Lean 4 theorems over an executable model of the gw_backend.c pool bookkeeping (gw_host_get per "
         "balance mode, gw_host_assign/reset, gw_proc_load_inc/release, gw_backend_close, gw_connection_close, "
         "gw_reconnect, gw_write_error / gw_recv_response_error, gw_proc_connect_error / check_enable / "
         "restart_dead_procs, trigger timeouts, fdevent register/sched_close/sched_run). PROVED FOR EVERY "
         "HISTORY of arrivals, socket events, client aborts, ticks and every scripted kernel answer, from every "
         "pool: host->load / proc->load / gw.active-requests / cur_fds equal the number of request contexts "
         "holding them, never negative, zero when idle, every socket opened is held or closed once; "
         "active_procs = number of RUNNING procs; every connect() ever issued went to a proc that was RUNNING at "
         "that moment; a disabled proc receives no connect() until its disable-time is over; a request makes at "
         "most 1 + 5 connect() attempts however long the backends misbehave (for lighttpd with the repair of "
         "the retry-counter reset). PROVED PER CALL (a decision on an arbitrary state, not a history): host "
         "choice of each balance mode (only hosts with an active proc, none only if there is none; lc minimum, "
         "rr next-in-cycle, hash maximum), a connect failure disables for disable-time, the trigger re-enables "
         "after it, the retry decision of each failure path, giving up sets >= 500 (or create_env's 400), 502 "
         "instead of a partial response while no response head has been sent, a "
         "passed connect/read/write deadline makes the visit release socket and proc. PROVED ONLY UNDER A "
         "HYPOTHESIS: the per-host / per-proc figures mod_status reports equal the in-flight counts if no two "
         "hosts share a label (witness theorem: false for unlabeled hosts). PROVED ABOUT THE KEY BUILDER "
         "(gw_status_get_counter modelled byte for byte, all host ids / proc ids / tags): for host ids without a '.' "
         "the key gw.backend.<id>[.<n>]<tag> determines host id, proc and tag, and the plugin_stats entry (array.c "
         "compares keys ignoring ASCII letter case) determines proc, tag and the host id up to letter case; "
         "proved aliases outside that: ids differing only in case share every entry, a dotted id collides "
         "(host 'a.1' and proc 1 of host 'a' share .load). TESTED ONLY (independent oracle on "
         "the real gw_backend.c after every event): 5xx on every request finished without a response; no "
         "request left waiting past a configured timeout after a tick; 503 / hostless retry only when the "
         "oracle's own availability view has no live proc; connect-timeout takes the backend out of rotation; "
         "balance choice recomputed; connect() calls recounted per request; arrivals include requests "
         "gw_check_extension refuses after host choice (upgrade policy 405) and Upgrade headers it strips",
    note="trusted: Lean kernel (+propext, Quot.sound, Classical.choice); hand-written model validated by the h_gw "
         "correspondence after every event (struct counters, the plugin_stats entries looked up by the same "
         "text key lighttpd uses, proc states, disabled_until, per-request link/state/retry count/timestamps/"
         "number of connect() calls counted in the connect hook, host->hctxs order, which backend each connect() "
         "dialled, cur_fds, real descriptor leak check; for the key builder: the key of the plugin_stats entry the "
         "real gw_status_get_counter returns and pointer equality of two look-ups); the world model's numeric host "
         "label is not formally linked to the modelled key (the key theorems state what it abstracts); the 288-byte "
         "key buffer is not modelled; connect()/socket()/SO_ERROR/write callback/create_env/"
         "http_response_read() answers are scripted inputs. NOT covered: liveness (that the trigger visits "
         "every waiting request is not proved; timeouts configured 0 = off wait forever by design); 'retried on "
         "another backend' holds for connect failures only (after accept-then-reset the same proc may be chosen "
         "again); local process death/respawn, adaptive spawning, authorizer mode, request bodies, several "
         "extensions/modules sharing labels, the e2e statistics-url / /proc/PID/fd observation",
    tech="Lean 4 proof over hand-written model + differential correspondence (in-process C harness driving the "
         "real event handlers with a scripted kernel) + independent property oracle on the implementation output",
    ref="6/C11")

T0 = 1000
CONN = "kpiarn"
ST_INIT, ST_DELAYED, ST_PREP, ST_WRITE, ST_READ = range(5)


# --------------------------------------------------------------------------
# parsing of one canonical output line
# --------------------------------------------------------------------------
def parse_dump(d):
    """'H..;H..;S..;S..;G..' -> (hosts, slots, glob)"""
    parts = d.split(";")
    hosts, slots = [], []
    for p in parts[:-1]:
        if p[0] == "H":
            f = p[1:].split(",")
            q = [] if f[3] == "Q-" else [int(x) for x in f[3][1:].split("-")]
            procs = []
            for i in range(4, len(f), 3):
                procs.append((f[i][1], int(f[i][2:]), int(f[i + 1]), int(f[i + 2])))
            hosts.append((int(f[0]), int(f[1]), int(f[2]), q, procs))
        else:
            if p == "S-":
                slots.append(None)
            elif p == "S!":
                slots.append("!")
            else:
                slots.append(tuple(int(x) for x in p[1:].split(".")))
    g = parts[-1].split(",")
    glob = dict(G=int(g[0][1:]), F=int(g[1][1:]), L=int(g[2][1:]), N=int(g[3][1:]), T=int(g[4][1:]))
    return hosts, slots, glob


def parse_results(r):
    return [x for x in r.split(",") if x]


def djb(s, h=5381):
    for c in s.encode():
        h = (((h << 5) + h) & 0xffffffff) ^ c
    return h


def host_hash(i, kind):
    if kind == "u":
        return djb("/nonexistent/ltv-gw-%d.sock" % i)
    return djb("127.0.0.%d" % (i + 1)) ^ (9000 + 37 * i)


def base_hash(balance, key):
    if balance == 2:
        return djb("h%d" % key, djb("/k%d" % key))
    return djb("10.0.0.%d" % key)


# --------------------------------------------------------------------------
# independent property oracle (does not use the model): the statement of C11
# checked on what the implementation reported after every event
# --------------------------------------------------------------------------
def check_state(spec, hosts, slots, glob, anon=False, soft=None):
    nh = len(spec)
    if len(hosts) != nh:
        return "host count changed"
    # hosts written without labels share every statistics key: what mod_status then prints
    # is a different failure (of the naming scheme) than a lost increment, and is named so
    shared = anon and nh > 1
    for h, (load, stat, active, q, procs) in enumerate(hosts):
        n = sum(1 for s in slots if s not in (None, "!") and s[0] == h)
        if load != n:
            return "host %d: load=%d but %d requests hold it" % (h, load, n)
        if stat != n:
            if shared:
                # reported last: any other failure in the same history goes first
                soft.append("statistics label shared by unlabeled hosts: host %d reports load %d but %d requests hold it" % (h, stat, n))
            else:
                return "host %d: load=%d reported=%d but %d requests hold it" % (h, load, stat, n)
        run = sum(1 for p in procs if p[0] == "R")
        if active != run:
            return "host %d: active_procs=%d but %d procs RUNNING" % (h, active, run)
        for p, (st, pl, ps, du) in enumerate(procs):
            n = sum(1 for s in slots if s not in (None, "!") and s[0] == h and s[1] == p)
            if pl != n:
                return "host %d proc %d: load=%d but %d requests hold it" % (h, p, pl, n)
            if ps != n:
                if shared:
                    soft.append("statistics label shared by unlabeled hosts: host %d proc %d reports load %d but %d requests hold it" % (h, p, ps, n))
                else:
                    return "host %d proc %d: load=%d reported=%d but %d requests hold it" % (h, p, pl, ps, n)
        want = sorted(i for i, s in enumerate(slots) if s not in (None, "!") and s[0] == h and s[4] == 1)
        if sorted(q) != want:
            return "host %d: timeout list %s != requests with a socket %s" % (h, q, want)
    nproc = sum(1 for s in slots if s not in (None, "!") and s[1] >= 0)
    if glob["G"] != nproc:
        return "gw.active-requests=%d but %d requests hold a proc" % (glob["G"], nproc)
    nfd = sum(1 for s in slots if s not in (None, "!") and s[4] == 1)
    if glob["F"] != nfd:
        return "cur_fds=%d but %d backend sockets are held (descriptor leak)" % (glob["F"], nfd)
    for i, s in enumerate(slots):
        if s == "!":
            return "slot %d: request parked without a handler context" % i
        if s is None:
            continue
        if s[3] > 5:
            return "slot %d: %d reconnects (budget is 5)" % (i, s[3])
        if s[1] >= 0 and s[0] < 0:
            return "slot %d holds a proc but no host" % i
    return None


class Avail:
    """the oracle's own view of which procs are in rotation, derived only from the
    history itself: the scripted connect()/SO_ERROR answers, the configured
    disable-time / connect-timeout and the clock (sum of the ticks).  It errs on the
    side of "down": a re-enable it cannot see is ignored until the next trigger."""

    def __init__(self, spec):
        self.spec = spec
        self.now = T0
        self.down = {}            # (h, p) -> disabled_until
        self.cur = {}             # slot -> [h, p, since, delayed]
        self.lost = set()         # procs disabled during the current event
        self.up0 = set()
        self.ndial = {}           # slot -> connect() calls made for the request in it (own count)

    def begin(self):
        self.lost = set()
        self.up0 = set((h, p) for h, sp in enumerate(self.spec) for p in range(sp[0])
                       if (h, p) not in self.down)

    def disable(self, h, p):
        du = self.now + self.spec[h][1]
        self.down[(h, p)] = max(du, self.down.get((h, p), du))
        self.lost.add((h, p))

    def candidates(self):
        return sorted(self.up0 - self.lost)

    def trigger(self, dt):
        self.now += dt
        for s, c in list(self.cur.items()):
            ct = self.spec[c[0]][2]
            if c[3] and ct and self.now - c[2] > ct:
                self.disable(c[0], c[1])
                del self.cur[s]
        for k in [k for k, du in self.down.items() if du < self.now]:
            del self.down[k]

    def dial(self, s, h, p, letter):
        self.ndial[s] = self.ndial.get(s, 0) + 1
        unix = self.spec[h][5] == "u"
        if letter == "k":
            self.cur[s] = [h, p, self.now, False]
        elif letter in "rn" or (letter == "a" and not unix):
            self.disable(h, p)
            self.cur.pop(s, None)
        else:
            self.cur[s] = [h, p, self.now, True]

    def so_error(self, s, letter):
        c = self.cur.get(s)
        if c is None or not c[3]:
            return
        if letter in "rt":
            self.disable(c[0], c[1])
            self.cur.pop(s, None)
        else:
            c[3] = False


def script_of(fld, key):
    if len(fld) > 1:
        for g in fld[-1].split(","):
            if g.startswith(key + "="):
                return g[2:]
    return ""


def oracle_full(line, out):
    """first violated clause of the property on this history, with the details"""
    t = line.split(" ")
    if out in ("bad-op", "config-error"):
        return None
    balance, nslots = int(t[1]), int(t[3])
    anon = bool((int(t[2]) >> 1) & 1)
    spec = []
    for hs in t[4].split("/"):
        f = hs.split(".")
        spec.append((int(f[0]), int(f[1]), int(f[2]), int(f[3]), int(f[4]), f[5]))
    nh = len(spec)
    ops = t[5:]
    steps = out.split(" | ")
    if len(steps) != len(ops) + 1:
        return "output has %d steps for %d ops" % (len(steps), len(ops))
    if steps[-1] != "end:0,0":
        return "after resetting every connection: open backend sockets,cur_fds = %s" % steps[-1][4:]
    prev_hosts = [(0, 0, sp[0], [], [("R", 0, 0, 0)] * sp[0]) for sp in spec]
    prev_glob = dict(G=0, F=0, L=-1, N=0, T=T0)
    prev_slots = [None] * nslots
    av = Avail(spec)
    soft, late = [], None
    seen_D = False
    for i, op in enumerate(ops):
        st = steps[i]
        k = st.find("#")
        if k < 0:
            return "malformed step"
        res = parse_results(st[:k])
        hosts, slots, glob = parse_dump(st[k + 1:])
        where = " (op %d %s)" % (i, op)
        v = check_state(spec, hosts, slots, glob, anon, soft)
        if v:
            return v + where
        if soft and not late:
            late = soft[0] + where
        del soft[:]
        now = glob["T"]
        kind = op[0]
        fld = op[1:].split(".")
        # --- disable window: OVERLOADED and now <= disabled_until => stays out
        for h in range(nh):
            for p, (pst, pl, ps, du) in enumerate(prev_hosts[h][4]):
                if pst == "O" and now <= du:
                    nst = hosts[h][4][p]
                    if nst[0] != "O" or nst[3] < du:
                        return "host %d proc %d re-enabled at %d inside its disable window (until %d)%s" % (h, p, now, du, where)
                    if ("D%d.%d" % (h, p)) in res:
                        return "request dispatched to disabled host %d proc %d%s" % (h, p, where)
                if pst not in "RO":
                    return "unexpected proc state %s" % pst
        # --- re-enable: trigger past disabled_until brings the proc back
        if kind == "t" and res and res[0] == "T":
            for h in range(nh):
                for p, (pst, pl, ps, du) in enumerate(prev_hosts[h][4]):
                    nst = hosts[h][4][p]
                    if pst == "O" and now > du and nst[0] == "O" and nst[3] == du:
                        return "host %d proc %d still disabled at %d after trigger past %d%s" % (h, p, now, du, where)
            # --- a backend that lets a connect() hang past connect-timeout has failed:
            #     it leaves the rotation for its disable-time like one that refuses
            for s, c in enumerate(prev_slots):
                if c is None or c[2] != ST_DELAYED or c[0] < 0 or c[1] < 0:
                    continue
                sp = spec[c[0]]
                if sp[2] and now - c[10] > sp[2] and sp[5] != "l":
                    nst = hosts[c[0]][4][c[1]]
                    if nst[0] != "O" or nst[3] < now:
                        return "connect timeout on host %d proc %d did not take it out of rotation%s" % (c[0], c[1], where)
            # --- no request is left hanging past a configured timeout
            for s, c in enumerate(slots):
                if c is None:
                    continue
                sp = spec[c[0]] if c[0] >= 0 else None
                if sp is None:
                    continue
                if c[2] == ST_DELAYED:
                    if sp[2] and now - c[10] > sp[2]:
                        return "slot %d still waiting for connect() after %ds (connect-timeout %d)%s" % (s, now - c[10], sp[2], where)
                else:
                    if (c[5] & 1) and sp[3] and now - c[9] > sp[3]:
                        return "slot %d still waiting for response after %ds (read-timeout %d)%s" % (s, now - c[9], sp[3], where)
                    if (c[5] & 2) and sp[4] and now - c[10] > sp[4]:
                        return "slot %d still waiting to write after %ds (write-timeout %d)%s" % (s, now - c[10], sp[4], where)
        # --- 503 "all handlers down" / a retry that finds no host is a failure of the
        #     property by itself whenever the oracle's own availability view still has
        #     an enabled proc (every balance mode, arrival and gw_reconnect alike)
        av.begin()
        conn = script_of(fld, "c")
        ci = 0
        opslot = int(fld[0]) if kind in "aesc" and fld[0].isdigit() else -1
        pend = []                       # connect() calls not yet attributed to a slot (trigger jobs)
        for r in res:
            if r == "T":
                av.trigger(int(fld[0]))
            elif r == "C":
                av.cur.pop(opslot, None)
                av.ndial.pop(opslot, None)
            elif r[0] == "A" and r not in ("A-", "AR"):
                av.ndial[opslot] = 0
            elif r[0] == "E" and r[1:].isdigit():
                if int(r[1:]) & 14:
                    av.so_error(opslot, (script_of(fld, "s") or "y")[0])
            elif r[0] == "D":
                h, p = (int(x) for x in r[1:].split("."))
                letter = conn[ci] if ci < len(conn) else "p"
                ci += 1
                if kind == "t":
                    pend.append((h, p, letter))
                    if letter in "rn" or (letter == "a" and spec[h][5] != "u"):
                        av.disable(h, p)
                elif h >= 0 and p >= 0:
                    av.dial(opslot, h, p, letter)
                    if av.ndial[opslot] > 6:
                        return "request dispatched %d times (1 + at most 5 retries allowed)%s" % (av.ndial[opslot], where)
            elif r == "A-":
                c = av.candidates()
                if c:
                    return "all handlers down (HTTP 503) on arrival although host %d proc %d is in rotation by the oracle's own view%s" % (c[0][0], c[0][1], where)
            elif "=" in r and r.split("=")[0].isdigit():
                sl = int(r.split("=")[0])
                if kind == "t":
                    for h, p, letter in pend:
                        if h >= 0 and p >= 0:
                            av.dial(sl, h, p, letter)
                    pend = []
                    if av.ndial.get(sl, 0) > 6:
                        return "request dispatched %d times (1 + at most 5 retries allowed)%s" % (av.ndial[sl], where)
                body = r.split("=", 1)[1]
                if body.startswith("fin"):
                    av.cur.pop(sl, None)
                    av.ndial.pop(sl, None)
                    if body.endswith("h"):
                        c = av.candidates()
                        if c:
                            return "retry found no host (HTTP 503) although host %d proc %d is in rotation by the oracle's own view%s" % (c[0][0], c[0][1], where)
                elif body == "err":
                    av.cur.pop(sl, None)
        # --- dispatch only to available backends
        for r in res:
            if r[0] == "D":
                h, p = (int(x) for x in r[1:].split("."))
                if h < 0 or p < 0:
                    return "connect() to an unknown backend%s" % where
                pst, _, _, du = prev_hosts[h][4][p]
                if pst != "R" and not (pst == "O" and now > du):
                    return "request dispatched to unavailable host %d proc %d%s" % (h, p, where)
        # --- host choice on arrival
        if kind == "a" and res and res[0][0] == "A":
            avail = [h for h in range(nh) if prev_hosts[h][2] > 0]
            wants_connect = script_of(fld, "u")[:1] == "c"
            if res[0] == "AR":
                # refused by the upgrade policy: only an extended CONNECT, only with a host to refuse it for,
                # and the refusal is a 405 that takes nothing (loads are checked above like after any event)
                if not wants_connect:
                    return "request refused by the upgrade policy without asking for an upgrade%s" % where
                if not avail:
                    return "upgrade refused (405) although no host is available (503 expected)%s" % where
            elif wants_connect and res[0] != "A-":
                return "HTTP/2 extended CONNECT handed to a backend although no host enables upgrade%s" % where
            if res[0] == "AR":
                pass
            elif res[0] == "A-":
                if avail:
                    return "all handlers down (HTTP 503) although hosts %s report active procs%s" % (avail, where)
            else:
                h = int(res[0][1:])
                if h not in avail:
                    return "request assigned to host %d which has no active proc%s" % (h, where)
                if nh > 1:
                    if balance == 0:
                        m = min(prev_hosts[x][0] for x in avail)
                        if prev_hosts[h][0] != m or h != min(x for x in avail if prev_hosts[x][0] == m):
                            return "least-connection chose host %d (load %d), minimum is %d%s" % (h, prev_hosts[h][0], m, where)
                    elif balance == 1:
                        lu = prev_glob["L"]
                        order = [x for x in range(lu + 1, nh)] + [x for x in range(0, lu + 1)]
                        want = next(x for x in order if x in avail)
                        if h != want:
                            return "round-robin chose host %d after %d, next available is %d%s" % (h, lu, want, where)
                    else:
                        b = base_hash(balance, int(fld[1]))
                        best = max(b ^ host_hash(x, spec[x][5]) for x in avail)
                        want = max(x for x in avail if (b ^ host_hash(x, spec[x][5])) == best)
                        if h != want:
                            return "hash balance chose host %d, expected %d%s" % (h, want, where)
        # --- every request that ends without a response gets an error status
        rds = script_of(fld, "r")
        if "D" in rds:
            seen_D = True
        for r in res:
            if "=fin" in r:
                body = r.split("=fin")[1]
                code = int(body.rstrip("sth"))
                sl = int(r.split("=")[0])
                ps = prev_slots[sl] if sl < len(prev_slots) else None
                if "t" in body and not seen_D:
                    # a cut-off response may only go out if the head was already on its way
                    return "response aborted half-way (status %d) although no response head had been sent: 502 expected%s" % (code, where)
                if "s" in body and "D" not in rds and ps not in (None, "!") and len(ps) > 12 and ps[12] == 2:
                    return "backend closed short of the announced body before any head was sent, response passed on as complete (status %d): 502 expected%s" % (code, where)
                if "s" in body:
                    # 't' = response was already under way when the backend failed: the
                    # connection is aborted, the status line is history
                    if code != 200 and "t" not in body:
                        return "complete response finished with status %d%s" % (code, where)
                elif code == 405 and "AR" in res:
                    pass
                elif code < 500 and code != 400:
                    return "request finished without backend response but status %d%s" % (code, where)
            elif r.endswith("=err"):
                return "handler returned HANDLER_ERROR%s" % where
        prev_hosts, prev_slots, prev_glob = hosts, slots, glob
    return late


_num = None


def oracle(line, out):
    """verdict with the numbers blanked, so that one defect is one finding
    (replay prints the detailed message)"""
    global _num
    v = oracle_full(line, out)
    if not v:
        return None
    if _num is None:
        import re
        _num = re.compile(r"\d+")
    return _num.sub("N", v.split(" (op ")[0])


def classify(line, out):
    t = line.split(" ")
    if out in ("bad-op", "config-error") or len(t) < 5:
        return "gw:" + out
    tags = set()
    nd = 0
    for st in out.split(" | ")[:-1]:
        k = st.find("#")
        res = st[:k]
        for r in res.split(","):
            if not r:
                continue
            if r[0] == "D":
                nd += 1
            elif r[0] == "A":
                tags.add(r if r in ("A-", "AR") else "A")
            elif "=fin" in r:
                tags.add("fin" + r.split("=fin")[1])
            elif r.endswith("=wait"):
                pass
            elif r[0] in "ETC":
                tags.add(r[:1])
        d = st[k + 1:]
        if ",PO" in d:
            tags.add("O")          # some backend out of rotation
            if ONE_HOST in t[4]:
                act = [i for i, hd in enumerate(d.split(";")) if hd[:1] == "H" and hd.split(",")[2] != "0"]
                if len(act) == 1:
                    ONE_SEEN.add((int(t[1]), t[4].count("/") + 1, act[0]))
                    tags.add("only%d" % act[0])
    if nd > len(t) - 5:
        tags.add("retry")          # more connect() calls than events: fail-over happened
    kinds = "".join(sorted(set(h.split(".")[5] for h in t[4].split("/"))))
    return "gw:b%s:w%s:h%d%s:%s" % (t[1], t[2], min(len(t[4].split("/")), 3), kinds, "+".join(sorted(tags)))


# --------------------------------------------------------------------------
# generators
# --------------------------------------------------------------------------
def rnd_script(rng, faulty=True):
    g = []
    n = rng.randint(0, 8)
    if n:
        w = "rrrrkkppan" if faulty else "kkkpp"
        g.append("c=" + "".join(rng.choice(w) for _ in range(n)))
    if rng.random() < 0.5:
        g.append("r=" + "".join(rng.choice("gddfxxDl" if faulty else "gddfD") for _ in range(rng.randint(1, 4))))
    if faulty and rng.random() < 0.3:
        g.append("w=" + "".join(rng.choice("aaonne") for _ in range(rng.randint(1, 3))))
    if faulty and rng.random() < 0.25:
        g.append("s=" + "".join(rng.choice("yyrt") for _ in range(rng.randint(1, 3))))
    if faulty and rng.random() < 0.08:
        g.append("k=" + "".join(rng.choice("yn") for _ in range(rng.randint(1, 3))))
    if faulty and rng.random() < 0.08:
        g.append("v=" + "".join(rng.choice("yEF") for _ in range(rng.randint(1, 2))))
    return ",".join(g)


def rnd_hosts(rng, same_np=False):
    nh = rng.choice([1, 2, 2, 3, 3, 3, 4])
    hs = []
    np0 = rng.choice([1, 1, 1, 2, 3])
    for _ in range(nh):
        np_ = np0 if same_np else rng.choice([1, 1, 1, 2, 3])
        dis = rng.choice([0, 1, 2, 2, 3, 5])
        ct = rng.choice([0, 1, 2, 3, 8])
        rt = rng.choice([0, 0, 2, 4])
        wt = rng.choice([0, 0, 2, 3])
        kind = rng.choice("rrrrul")
        hs.append("%d.%d.%d.%d.%d.%s" % (np_, dis, ct, rt, wt, kind))
    return "/".join(hs)


def with_script(op, sc):
    return op + ("." + sc if sc else "")


def rnd_op(rng, nslots, faulty=True, busy=None):
    x = rng.random()
    s = rng.randrange(nslots)
    if busy is not None:
        # `busy` = slots that were started and not aborted since (a guess: the
        # request may have finished); aim arrivals at free slots, events at busy ones
        free = [i for i in range(nslots) if i not in busy]
        if x < 0.30 and free and rng.random() < 0.85:
            s = rng.choice(free)
        elif x >= 0.30 and busy and rng.random() < 0.85:
            s = rng.choice(sorted(busy))
        if x < 0.30:
            busy.add(s)
        elif 0.82 <= x < 0.90:
            busy.discard(s)
    if x < 0.30:
        sc = rnd_script(rng, faulty)
        y = rng.random()
        if y < 0.12:
            sc = (sc + "," if sc else "") + ("u=c" if y < 0.08 else "u=h")
        return with_script("a%d.%d" % (s, rng.randrange(12)), sc)
    if x < 0.62:
        m = rng.choice([1, 1, 2, 2, 3, 4, 8, 9, 12, 16, 5, 6])
        return with_script("e%d.%d" % (s, m), rnd_script(rng, faulty))
    if x < 0.82:
        return with_script("t%d" % rng.choice([1, 1, 1, 2, 3, 5, 9]), rnd_script(rng, faulty))
    if x < 0.90:
        return "c%d" % s
    return with_script("s%d" % s, rnd_script(rng, faulty))


def gen_random(rng, n, maxops, faulty=True):
    out = []
    for _ in range(n):
        nslots = rng.choice([1, 2, 3, 3, 4, 5, 6])
        busy = set() if rng.random() < 0.8 else None
        ops = [rnd_op(rng, nslots, faulty, busy) for _ in range(rng.randint(1, maxops))]
        out.append("gw %d %d %d %s %s" % (rng.randrange(4), 1 if rng.random() < 0.15 else 0, nslots,
                                         rnd_hosts(rng), " ".join(ops)))
    return out


def gen_scenarios(rng, n, anon=False):
    """histories built from the fault vocabulary of the property statement:
    refuse, accept-then-close, hang, die, come back, client abort"""
    out = []
    for _ in range(n):
        nslots = rng.choice([3, 4, 6])
        bal = rng.randrange(4)
        hosts = rnd_hosts(rng, anon)
        nh = hosts.count("/") + 1
        ops = []
        for _ in range(rng.randint(2, 7)):
            sc = rng.randrange(13)
            s = rng.randrange(nslots)
            key = rng.randrange(12)
            if sc == 0:    # refused by some backends, then accepted
                ops.append("a%d.%d.c=%sk" % (s, key, "r" * rng.randint(1, 7)))
                ops.append("e%d.1.r=df" % s)
            elif sc == 1:  # everybody refuses
                ops.append("a%d.%d.c=%s" % (s, key, "r" * rng.randint(5, 12)))
            elif sc == 2:  # hang in connect, trigger until timeout and beyond
                ops.append("a%d.%d.c=p" % (s, key))
                ops += ["t%d" % rng.choice([1, 2, 4])] * rng.randint(1, 6)
            elif sc == 3:  # accept then close / reset before any response
                ops.append("a%d.%d.c=k,w=%s" % (s, key, rng.choice("ane")))
                ops.append("e%d.%d.r=%s,c=%s" % (s, rng.choice([1, 4, 5, 9, 16]), rng.choice("xfg"), rng.choice("kpr")))
            elif sc == 4:  # delayed connect completes with an error / success
                ops.append("a%d.%d.c=p" % (s, key))
                ops.append("e%d.%d.s=%s,c=%s" % (s, rng.choice([2, 4, 6]), rng.choice("yrt"), rng.choice("kprr")))
                ops.append("e%d.1.r=%s" % (s, rng.choice(["df", "x", "dx", "gdf", "f"])))
            elif sc == 5:  # client goes away mid-flight
                ops.append("a%d.%d.c=%s" % (s, key, rng.choice("kp")))
                ops.append("c%d" % s)
            elif sc == 6:  # backend hangs after accepting (read / write timeout)
                ops.append("a%d.%d.c=k,w=%s" % (s, key, rng.choice("ano")))
                ops += ["t%d.r=%s" % (rng.choice([1, 3, 5]), rng.choice("gxf"))] * rng.randint(1, 4)
            elif sc == 7:  # burst of arrivals, then time passes
                for j in range(nslots):
                    ops.append("a%d.%d.c=%s" % (j, rng.randrange(12), rng.choice(["k", "p", "rk", "rp", "rrrrrr"])))
                ops += ["t1"] * rng.randint(0, 3)
            elif sc == 9:  # backend accepts at once and resets before a byte is sent, again and again
                n = rng.randint(3, 12)
                ops.append("a%d.%d.c=%s,w=%s,r=%s" % (s, key, "k" * n, rng.choice("en") * n, "x" * n))
                ops.append("e%d.1.r=%s,c=%s,w=%s" % (s, "x" * n, "k" * n, "n" * n))
            elif sc == 11: # requests the upgrade policy refuses after a host was chosen, among others
                for _ in range(rng.randint(1, 4)):
                    ops.append("a%d.%d.u=c" % (rng.randrange(nslots), rng.randrange(12)))
                    if rng.random() < 0.5:
                        s2 = rng.randrange(nslots)
                        ops += ["a%d.%d.c=%s,u=h" % (s2, rng.randrange(12), rng.choice("kpr")), "c%d" % s2]
            elif sc == 10: # response begun, then the backend fails or closes short of what it announced
                ops.append("a%d.%d.c=k" % (s, key))
                ops.append("e%d.1.r=%s" % (s, rng.choice(["d", "D", "l", "dl", "Dl", "lD", "dg", "lg"])))
                ops.append("e%d.%d.r=%s" % (s, rng.choice([1, 1, 4, 16]), rng.choice(["x", "f", "dx", "Df", "gx", "lf"])))
            else:          # come back: wait out the disable time, then ask again
                ops += ["t%d" % rng.choice([1, 2, 3, 6])] * rng.randint(1, 3)
                ops.append("a%d.%d.c=k" % (s, key))
        out.append("gw %d %d %d %s %s" % (bal, (2 if anon else 0) + (1 if rng.random() < 0.1 else 0), nslots,
                                         hosts, " ".join(ops)))
    return out


ALPHA = ["a0.6.u=c", "a1.7.c=k,u=h", "a0.1.c=k", "a0.2.c=p", "a1.3.c=r", "a1.4.c=rrrrrrr", "a0.5.c=k,w=n", "e0.1.r=x", "e0.1.r=df",
         "e0.1.r=dx", "e0.1.r=Dx", "e0.1.r=lf",
         "e1.2.s=r", "e0.2", "e0.4", "e1.16", "t1", "t3", "c0", "s1.c=k"]
SMALL_CFG = ["2.1.2.2.2.r/1.2.1.0.0.r", "1.1.1.1.1.u/1.1.0.0.0.l/1.0.2.0.3.r"]


def gen_exhaustive(depth):
    out = []
    for cfg in SMALL_CFG:
        for bal in range(4):
            for n in range(1, depth + 1):
                for ops in itertools.product(ALPHA, repeat=n):
                    out.append("gw %d 0 2 %s %s" % (bal, cfg, " ".join(ops)))
    return out


ONE_HOST = "1.9.0.0.0.r"          # pool shape reserved for the one-alive stream (classify looks for it)


def _order(balance, nh, key, last, loads):
    """order in which a request whose connects are all refused walks the pool
    (generator aid only; the oracle does not use it)"""
    alive, order = list(range(nh)), []
    while alive:
        if balance == 0:
            m = min(loads[x] for x in alive)
            h = min(x for x in alive if loads[x] == m)
        elif balance == 1:
            h = next(x for x in list(range(last + 1, nh)) + list(range(0, last + 1)) if x in alive)
            last = h
        else:
            b = base_hash(balance, key)
            best = max(b ^ host_hash(x, "r") for x in alive)
            h = max(x for x in alive if (b ^ host_hash(x, "r")) == best)
        order.append(h)
        alive.remove(h)
    return order


def gen_one_alive(depth):
    """pools of 2 and 3 single-proc hosts in which a first request has just been refused
    by every host but one (disable-time 9: they stay out), for every position of the
    survivor and every balance mode, followed by every history of length <= depth"""
    out = []
    for bal in range(4):
        for nh in (2, 3):
            for j in range(nh):
                pre, key = [], 1
                if bal == 1:        # rotate last_used_ndx so that the walk ends at j
                    pre += ["a0.1.c=k", "c0"] * ((j + 1) % nh)
                elif bal == 0:      # give host j the highest load: it is tried last
                    if j != nh - 1:
                        pre += ["a%d.1.c=p" % (5 - x) for x in range(j + 1)] + ["c%d" % (5 - x) for x in range(j)]
                else:
                    key = next(k for k in range(5000) if _order(bal, nh, k, -1, None)[-1] == j)
                pre += ["a0.%d.c=%sk" % (key, "r" * (nh - 1)), "c0"]
                pool = "/".join([ONE_HOST] * nh)
                for n in range(0, depth + 1):
                    for ops in itertools.product(ALPHA, repeat=n):
                        out.append("gw %d 0 6 %s %s" % (bal, pool, " ".join(pre + list(ops))))
    return out


ONE_SEEN = set()                  # (balance, nhosts, position of the only active host) observed


HAND = [
    "gw 0 0 3 1.2.3.0.0.r/1.2.3.0.0.r a0.1 a1.2 a2.3 e0.2 e0.1.r=df t1 t5 e1.2.s=r t1 t1 t1 t1",
    "gw 1 0 3 1.2.3.0.0.r/2.2.3.0.0.u/1.1.0.0.0.l a0.1.c=rrrrrrrr a1.2.c=k a2.3.c=k,w=e,r=x c1 e2.1.r=dgf",
    "gw 2 0 2 1.2.3.4.5.r a0.1.c=k,w=n t10.r=g",
    "gw 0 0 2 1.1.0.0.0.r a0.1.c=k,w=n,r=x e0.1.r=x,c=k,w=n e0.1.r=x,c=k,w=n e0.1.r=x,c=k,w=n",
    "gw 3 1 4 2.2.2.2.2.l/1.2.2.2.2.r a0.1.c=a a1.1.c=r a2.1.c=n t1 t2 t3 a3.1.c=k e3.1.r=dddf",
    "gw 1 0 2 1.1.1.0.0.r/1.1.1.0.0.r/1.1.1.0.0.r a0.0.c=rrr t1 a0.0.c=k t1 a1.0.c=k c0 c1",
    "gw 0 0 2 1.0.0.0.0.r a0.1.k=n a0.1.k=nnnnnnn a0.1.v=E a0.1.c=k,v=F a0.1.c=k,v=E,r=g a0.1.c=k,v=E,r=x",
    "gw 0 0 1 1.1.1.1.1.r zz a9.1 a0 e0 t",
    # a backend that accepts and resets before a byte is sent, for as long as it is asked
    "gw 0 0 1 1.1.0.0.0.u/1.1.0.0.0.u a0.1.c=kkkkkkkkkk,w=eeeeeeeeee,r=xxxxxxxxxx",
    "gw 1 0 2 1.0.0.0.0.r a0.1.c=kkkkkkkkkkkk,w=nnnnnnnnnnnn e0.1.r=xxxxxxxxxxxx,c=kkkkkkkkkkkk,w=nnnnnnnnnnnn",
    # response begun, then cut off: before / after the head went out; short of the announced length
    "gw 0 0 4 1.1.0.0.0.r a0.1.c=k e0.1.r=d e0.1.r=x a1.1.c=k e1.1.r=D e1.1.r=x a2.1.c=k e2.1.r=l e2.1.r=f a3.1.c=k e3.1.r=Dl e3.1.r=f",
    "gw 0 0 2 1.1.0.2.0.r a0.1.c=k e0.1.r=d t3 a1.1.c=k e1.1.r=D t3",
    # refused by gw_upgrade_policy() after host choice (405), Upgrade header stripped, no host at all
    "gw 1 0 3 1.1.0.0.0.r/1.1.0.0.0.r a0.1.u=c a0.2.u=c a1.3.c=k,u=h a0.4.u=c c1 a2.5.c=rr,u=h a0.6.u=c",
]
# hosts written without a label, "((...),(...))": every host's statistics key is the same
HAND_ANON = [
    "gw 0 2 2 1.1.0.0.0.r/1.1.0.0.0.r a0.1.c=k a1.2.c=k c0",
    "gw 1 3 3 2.1.0.0.0.r/2.1.0.0.0.u/2.1.0.0.0.r a0.1.c=k a1.2.c=rk a2.3.c=p c1 t2 c0",
]


# --------------------------------------------------------------------------
# gw_status_get_counter(): the statistics key  (model: Model/GwStat.lean, theorems c11_stat_key_*)
KEY_TAGS = [b".load", b".connected", b".died", b".overloaded", b".disabled"]


def _hx(b):
    return b.hex() if b else "-"


def key_line(a, b):
    return "gwk " + " ".join("%s %s %s" % (_hx(i), "-" if p is None else str(p), _hx(t)) for i, p, t in (a, b))


def key_parse(line):
    t = line.split(" ")
    un = lambda x: b"" if x == "-" else bytes.fromhex(x)
    return [(un(t[k]), None if t[k + 1] == "-" else int(t[k + 1]), un(t[k + 2])) for k in (1, 4)]


def own_key(i, p, t):
    return b"gw.backend." + i + (b"" if p is None else b"." + str(p).encode()) + t


def _fold(b):
    return bytes(c | 0x20 if 65 <= c <= 90 else c for c in b)


def key_oracle(line, out):
    """independent statement: each counter lives under "gw.backend.<id>[.<n>]<tag>" (an entry of plugin_stats is
    identified by its key up to ASCII letter case); for host ids without a '.' and the tags gw_backend.c uses,
    two counters are one entry iff procs are equal and ids and tags are equal up to letter case"""
    a, b = key_parse(line)
    f = out.split(" ")
    if len(f) != 3:
        return "statistics key: no answer (%s)" % out[:40]
    ka, kb = (b"" if x == "-" else bytes.fromhex(x) for x in f[:2])
    if ka != _fold(own_key(*a)) or kb != _fold(own_key(*b)):
        return "statistics key is not gw.backend.<id>[.<proc>]<tag>"
    same = f[2] == "1"
    fa, fb = (_fold(a[0]), a[1], _fold(a[2])), (_fold(b[0]), b[1], _fold(b[2]))
    if fa == fb and not same:
        return "the same counter looked up twice gives two statistics entries"
    if fa != fb and same and b"." not in a[0] and b"." not in b[0] and a[2] in KEY_TAGS and b[2] in KEY_TAGS:
        return "two different counters of dot-free host ids share one statistics entry"
    return None


def key_classify(line, out):
    a, b = key_parse(line)
    f = out.split(" ")
    dotted = b"." in a[0] or b"." in b[0]
    return "key/%s/%s/%s/%s%s/%s" % ("dotted-id" if dotted else "plain-id", "same-triple" if a == b else
                                     "case-only" if (_fold(a[0]), a[1], _fold(a[2])) == (_fold(b[0]), b[1], _fold(b[2])) else "diff",
                                     "one-entry" if f[-1] == "1" else "two-entries",
                                     "h" if a[1] is None else "p", "h" if b[1] is None else "p",
                                     "tags" if a[2] in KEY_TAGS and b[2] in KEY_TAGS else "other-tag")


def gen_keys(rng, n):
    ids = [b"", b"a", b"A", b"a1", b"1", b"h0"]
    procs = [None, 0, 1, 10]
    tg = [b".load", b".died", b".disabled"]
    trip = [(i, p, t) for i in ids for p in procs for t in tg]
    lines = [key_line(a, b) for a in trip for b in trip]               # exhaustive small scope: 60 x 60
    # dotted host ids: outside the theorem's hypothesis; model and code must still agree (aliases expected)
    dotted = [b"a.1", b"a.1.load", b".", b"a.", b".1", b"h0.10", b"a.1.1"]
    lines += [key_line(a, b) for a in [(i, p, b".load") for i in dotted + [b"a"] for p in (None, 1, 10)]
              for b in [(i, p, b".load") for i in dotted + [b"a", b"a.1"] for p in (None, 1)]]
    alpha = b"ahAH01-_"
    for _ in range(n):
        def one():
            k = rng.random()
            if k < 0.6:
                i = bytes(rng.choice(alpha) for _ in range(rng.randint(0, 4)))
            elif k < 0.8:
                i = bytes(rng.choice(alpha + b"..") for _ in range(rng.randint(0, 6)))
            else:
                i = bytes(rng.randint(1, 255) for _ in range(rng.randint(0, 40)))
            p = rng.choice([None, None, 0, 1, 2, 9, 10, 11, 99, 100, 101, 65535, 4294967295, rng.randint(0, 2 ** 32 - 1)])
            t = rng.choice(KEY_TAGS) if rng.random() < 0.85 else bytes(rng.choice(b".0a1l") for _ in range(rng.randint(0, 5)))
            return (i, p, t)
        a = one()
        r = rng.random()
        if r < 0.25:
            b = a
        elif r < 0.6:                         # near miss: move bytes between id, proc id and tag
            i, p, t = a
            c = rng.randint(0, 3)
            if c == 0 and p is not None:
                b = (i + str(p).encode()[:1], int(str(p)[1:] or 0), t)
            elif c == 1 and p is not None:
                b = (i + b"." + str(p).encode(), None, t)
            elif c == 2 and i:
                b = (i[:-1], p, t) if rng.random() < 0.5 else (i.swapcase(), p, t)
            else:
                b = (i, None if p is not None else 1, t)
        else:
            b = one()
        lines.append(key_line(a, b))
    # malformed: bad hex, proc id out of uint32 range, wrong arity
    lines += ["gwk 6 - 2e6c6f6164 61 - 2e6c6f6164", "gwk 61 4294967296 2e6c6f6164 61 1 2e6c6f6164",
              "gwk 61 x 2e6c6f6164 61 1 2e6c6f6164", "gwk 61 1 2e6c6f6164", "gwk zz - 2e6c6f6164 61 1 2e6c6f6164"]
    return lines


def run(ctx):
    exe, err = C.build_harness("h_gw")
    if exe is None:
        ctx.broken.append({"kind": "harness-build", "names": ["h_gw"], "log": err[-3000:]})
        return
    q = ctx.quick
    rng = ctx.rng
    streams = [
        ("gw(hand-written + exhaustive small scope)", HAND + gen_exhaustive(2 if q else 3)),
        ("gw(exhaustive, exactly one host alive in each position)", gen_one_alive(1 if q else 2)),
        ("gw(fault scenarios: refuse/close/hang/timeout/abort/return)", gen_scenarios(rng, 10000 if q else 100000)),
        ("gw(random histories, healthy backends)", gen_random(rng, 3000 if q else 30000, 30, False)),
        ("gw(random histories, scripted faults)", gen_random(rng, 12000 if q else 150000, 40, True)),
        ("gw(unlabeled hosts sharing one statistics key)", HAND_ANON + gen_scenarios(rng, 1500 if q else 15000, True)),
    ]
    for name, lines in streams:
        for l in lines:
            t = l.split(" ")
            ctx.dist["balance=" + t[1]] += 1
            for o in t[5:]:
                ctx.dist["op:" + o[0]] += 1
        ctx.differential(name, [exe], "gw", lines, oracle, classify)
    klines = gen_keys(rng, 4000 if q else 40000)
    for l in klines:
        t = l.split(" ")
        if len(t) == 7:
            ctx.dist["key:id-" + ("dotted" if "2e" in [t[1][i:i + 2] for i in range(0, len(t[1]), 2)] else "plain")] += 1
            ctx.dist["key:proc-" + ("none" if t[2] == "-" else "some")] += 1
            ctx.dist["key:pair-" + ("equal" if t[1:4] == t[4:7] else "different")] += 1
        else:
            ctx.dist["key:malformed"] += 1
    ctx.differential("gw(statistics key of gw_status_get_counter: pairs of (host id, proc id, tag))", [exe], "gw",
                     klines, lambda l, o: None if o == "bad-op" else key_oracle(l, o),
                     lambda l, o: "key/bad-op" if o == "bad-op" else key_classify(l, o))
    want = set((b, nh, j) for b in range(4) for nh in (2, 3) for j in range(nh))
    ctx.notes.append("one-alive stream: %d of %d (balance, pool size, survivor position) states observed in the "
                     "implementation%s" % (len(ONE_SEEN & want), len(want),
                                           "" if want <= ONE_SEEN else "; missing " + str(sorted(want - ONE_SEEN))))
    ctx.exhaustive = False
    ctx.notes.append("exhaustive: all histories of length <= %d over a %d-event alphabet x 4 balance modes x %d "
                     "pool shapes" % (2 if q else 3, len(ALPHA), len(SMALL_CFG)))
    ctx.rule = ("one case = a whole event history on a pool of 1-4 hosts x 1-3 procs with up to 6 concurrent "
                "requests; after every event all counters, proc states, request links and the timeout lists of "
                "the real gw_backend.c are compared with the Lean model and judged by the oracle (in-flight counts, "
                "own availability view, own per-request connect() count, deadlines, balance choice); "
                "distinct = (balance, worker mode, pool shape class, set of outcome kinds of the history)")
    ctx.assumptions += [
        "the kernel's answers (connect, socket, SO_ERROR, write) and http_response_read()'s verdicts are inputs "
        "of the model; every sequence of them is quantified over",
        "spawned children do not exit (waitpid reports 'running'); process death/respawn and adaptive spawning "
        "are outside the in-process stream",
        "fd events are delivered only for registered interest (HUP/ERR always), as epoll/poll do"]


def replay_line(ctx, rep):
    exe, err = C.build_harness("h_gw")
    o, rc, e = C.run_lines([exe], [rep["input"]])
    m, _, _ = C.run_model("gw", [rep["input"]])
    print("input:", rep["input"])
    print("impl :", o, rc)
    print("model:", m)
    if o and m and o != m:
        a, b = o[0].split(" | "), m[0].split(" | ")
        for i, (x, y) in enumerate(zip(a, b)):
            if x != y:
                print("first difference at step %d:\n  impl : %s\n  model: %s" % (i, x, y))
                break
    if rep["input"].startswith("gwk "):
        v = (None if o[0] == "bad-op" else key_oracle(rep["input"], o[0])) if o else "crash"
    else:
        v = oracle_full(rep["input"], o[0]) if o else "crash"
    print("oracle:", v)
    if v or (o != m):
        print("VIOLATION property=%s replay=%s" % (ctx.pid, "(replayed)"))
        return 1
    return 0
