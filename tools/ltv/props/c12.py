"""C12 — untrusted input never causes undefined behaviour, abort or unbounded growth.

Proof part: Lean theorems over an executable machine-arithmetic model (explicit C widths, every
intermediate checked) of li_restricted_strtoint64, the two chunk-size accumulators, http_header_parse_hoff,
buffer.c growth, ck_realloc_u32, the HTTP/2 frame-length checks and h2_recv_continuation; the arithmetic of
http_range.c is proved in checked form over the C15 model (Model/Range.lean).
Correspondence: the real functions (ASan+UBSan build of the current tree) against the model on
boundary-heavy inputs.  Exploration part (no model; "no sanitizer report / abort / malformed result"):
HTTP/2 frame streams through h2_parse_frames, http_range_parse on an exact-size array, HTTP-date, ETag
lists, Forwarded / X-Forwarded-For, Digest Authorization parameters.
"""
import os, re, struct, time
from concurrent.futures import ThreadPoolExecutor
from .. import common as C

MANIFEST = dict(
    text="PARTIAL. Proved in Lean 4 (no bounds, induction over inputs and over histories of reads) over executable "
         "machine-arithmetic models with explicit int64/uint32/size_t/unsigned-short widths: absence of signed "
         "overflow, unintended unsigned wrap, 32-bit truncation and out-of-range array index — and nothing else — "
         "for li_restricted_strtoint64; h1_chunked and http_chunk_decode_append_data as WHOLE CALLS resumed over "
         "every sequence of reads (counter range, byte conservation, loop termination, and the bound on the "
         "partial chunk-size line / trailer accumulators: < max(1024, max-request-field-size) resp. <= 1024 / "
         "max(1024,limit)+4 bytes); http_header_parse_hoff with the limit tests of all four callers and the "
         "'wait for more header bytes' bound; buffer.c growth incl. closure of every operation sequence under a "
         "length limit <= 2^28; ck_realloc_u32 (conditional: when its assertion fires); the pad/priority checks of "
         "h2_recv_headers/h2_recv_data and h2_recv_continuation (offsets, 64 KiB cap, bytes held while waiting); "
         "http_range.c composed (strtoll clamping, suffix form, coalescing, ranges[] indices).  Each model is tied "
         "to the real function by differential runs under ASan+UBSan (boundary-heavy inputs; thousands of small "
         "reads per case for the accumulators).  NOT proved, only explored under sanitizers on generated input: "
         "out-of-bounds / use-after-free / null dereference in the pointer code, h2_parse_frames as a whole, "
         "HTTP-date, ETag, Forwarded, Digest parameters; not covered at all: descriptors, RSS over long runs, "
         "liveness after hostile input, FastCGI record reassembly (C10's harness), HPACK decoded-size bound",
    note="clause map — signed overflow/truncation in size arithmetic: THEOREMS for the routines named in the text, "
         "sanitizer exploration elsewhere; out-of-bounds: theorems for hoff[], ranges[] and the CONTINUATION "
         "scan/merge offsets only, otherwise ASan on generated input; use-after-free, null dereference: ASan/UBSan "
         "exploration only; assertion abort: theorems for buffer.c inside the length window that "
         "c12_buffer_closure shows closed (callers' caps on lengths are NOT derived), abort-oracle on every byte "
         "input elsewhere; unbounded growth of memory: theorems for the chunk-line/trailer accumulators of both "
         "chunked decoders, header accumulation (<= limit while waiting), HEADERS+CONTINUATION (< 64 KiB+9 while "
         "waiting), <= RMAX ranges, <= 8191 header lines — request-body buffering, h2 stream/queue state and "
         "descriptors: nothing; 'answered or closed while the process keeps serving': nothing (no end-to-end "
         "part); quantifier 'all byte streams to the socket in both protocols': in-process exploration only. "
         "Trusted: Lean kernel, the hand-written models as far as the correspondence streams reach, gcc, "
         "ASan/UBSan, libc strtoll/timegm, the extractor regexes (a shape change is an error, never a default)",
    tech="Lean 4 proof over hand-written machine-arithmetic models (single calls and histories of reads) + "
         "differential correspondence with the real functions in-process under ASan+UBSan + sanitizer exploration",
    ref="6/C12")

LEVEL = "proof"
EXPLANATION = ("claimed PARTIAL: proof for the size / index arithmetic and the accumulator bounds of the listed "
               "routines; sanitizer exploration only for memory safety of the pointer code and for every other "
               "routine; descriptors, long-run memory and liveness are not covered (DESIGN 6/C12)")

I64MAX = 2 ** 63 - 1
U32MAX = 2 ** 32 - 1
SIZEMAX = 2 ** 64 - 1
CK_GUARD = 2 ** 59 - 1 - 2


# ------------------------------------------------------------------------------------------------
# resilient runner: a sanitizer report kills the harness; restart after the offending line so that
# every other line still gets an observation and every distinct crash site is reported
# ------------------------------------------------------------------------------------------------
def _run_chunk(cmd, lines, timeout=1800):
    out, crashes = [], []
    i = 0
    guard = 0
    while i < len(lines):
        o, rc, err = C.run_lines(cmd, lines[i:], timeout)
        out += o
        i += len(o)
        if i < len(lines):
            if rc == 0 and not o:
                guard += 1
                if guard > 3:
                    out += ["<crash>"] * (len(lines) - i)
                    break
            crashes.append((i, rc, err if len(err) <= 6000 else err[:3500] + "\n[...]\n" + err[-2000:]))
            out.append("<crash>")
            i += 1
            if len(crashes) > 200:               # hopeless: stop restarting
                out += ["<crash>"] * (len(lines) - i)
                break
    return out, crashes


def run_resilient(cmd, lines, nchunks=None):
    n = nchunks or C.NCPU
    if len(lines) < 400:
        parts = [lines]
    else:
        sz = (len(lines) + n - 1) // n
        parts = [lines[i:i + sz] for i in range(0, len(lines), sz)]
    with ThreadPoolExecutor(n) as ex:
        res = list(ex.map(lambda p: _run_chunk(cmd, p), parts))
    out, crashes, base = [], [], 0
    for (o, cr), p in zip(res, parts):
        out += o
        crashes += [(base + i, rc, err) for i, rc, err in cr]
        base += len(p)
    return out, crashes


_site_re = re.compile(r"((?:/[\w.+-]+)+\.[ch]):(\d+)(?::\d+)?: runtime error: ([^\n]*)")
_asan_re = re.compile(r"ERROR: AddressSanitizer: (\S+)")
_frame_re = re.compile(r"#\d+ 0x[0-9a-f]+ in (\S+) ((?:/[\w.+-]+)+\.[ch]):(\d+)")


def crash_site(err):
    """stable signature of a sanitizer report: kind + first frame inside the lighttpd sources"""
    m = _site_re.search(err)
    if m:
        kind = re.sub(r"-?\d+", "N", m.group(3))[:60]
        return "ubsan:%s:%s:%s" % (os.path.basename(m.group(1)), m.group(2), kind)
    m = _asan_re.search(err)
    if m:
        for f in _frame_re.finditer(err):
            if "/harness/" not in f.group(2) and "/src/" in f.group(2) or "/repo" in f.group(2):
                return "asan:%s:%s:%s:%s" % (m.group(1), f.group(1), os.path.basename(f.group(2)), f.group(3))
        return "asan:%s" % m.group(1)
    last = err.strip().split("\n")[-1][:80] if err.strip() else "no-output"
    return "died:" + re.sub(r"\d+", "N", last)


def stream(ctx, name, cmd, model, lines, oracle, classify, project=None):
    """differential (model != None) or exploration (model == None) stream;
    `project(line, impl_out)` maps the implementation's observation to the part the model predicts"""
    if not lines:
        return
    t = time.time()
    impl, crashes = run_resilient(cmd, lines)
    mod = None
    if model is not None and getattr(ctx, "model_ok", False):
        mod, mrc, merr = C.parallel_lines([C.ltmodel_path(), model], lines)
        if mrc != 0 or len(mod) != len(lines):
            ctx.broken.append({"kind": "model-run", "names": [model], "log": merr[-2000:]})
            mod = None
    def weight(l):
        t = l.split(" ")
        return (len(t[2]) if t[0] == "ck1" else 0, len(l))
    best = {}
    for i, rc, err in crashes:
        site = crash_site(err)
        if site not in best or weight(lines[i]) < weight(lines[best[site][0]]):
            best[site] = (i, rc, err)
    for site, (i, rc, err) in sorted(best.items()):
        o1, rc1, err1 = C.run_lines(cmd, [lines[i]])
        ctx.violation("crash:%s:%s" % (name, site),
                      "sanitizer report / crash in %s: %s" % (name, site),
                      {"property": ctx.pid, "kind": "sanitizer-or-crash", "correspondence": name,
                       "input": lines[i], "rc": rc1 if rc1 else rc, "site": site,
                       "stderr": (err1 or err)[-4000:], "confirmed_single_line": rc1 != 0,
                       "model_obs": mod[i] if mod else None}, found=True)
    ndis, first_dis, hits = 0, [], []
    for i, line in enumerate(lines):
        io = impl[i] if i < len(impl) else "<crash>"
        ctx.evaluations += 1
        ctx.keys[classify(line, io)] += 1
        if io == "<crash>":
            continue
        v = oracle(line, io)
        if v:
            hits.append((line, io, v))
        if mod is not None and (project(line, io) if project else io) != mod[i]:
            ndis += 1
            if len(first_dis) < 50:
                first_dis.append((line, io, mod[i]))
        if mod is not None and (mod[i].startswith("ub:") or mod[i] in ("unmodelled", "bad-op")):
            ctx.dist["model-outside-domain:" + line.split(" ")[0]] += 1
    step = max(1, len(lines) // 2)
    for i in range(0, len(lines), step):
        ctx.sample({"stream": name, "input": lines[i][:400], "impl": impl[i][:300]})
    ctx.streams.append({"name": name, "cases": len(lines), "disagreements": ndis, "crashes": len(crashes),
                        "oracle_hits": len(hits), "compared_with_model": mod is not None,
                        "wall_s": round(time.time() - t, 2)})
    sigs = set()
    for line, io, v in hits:
        sig = "oracle:%s:%s" % (name, v)
        if sig in sigs:
            continue
        sigs.add(sig)
        ctx.violation(sig, v, {"property": ctx.pid, "kind": "property-oracle", "correspondence": name,
                               "input": line, "impl_obs": io, "oracle_verdict": v}, found=True)
    if ndis:
        hit_inputs = set(l for l, _, _ in hits)
        if not any(l in hit_inputs for l, _, _ in first_dis):
            shortest = sorted(first_dis, key=lambda d: len(d[0]))[:5]
            line, io, mo = shortest[0]
            ctx.violation("corr:%s:%s" % (name, line.split(" ")[0]),
                          "model/implementation correspondence %s broken (%d cases)" % (name, ndis),
                          {"property": ctx.pid, "kind": "correspondence", "correspondence": name,
                           "input": line, "impl_obs": io, "model_obs": mo,
                           "more": [list(d) for d in shortest[1:]],
                           "oracle_verdict": "no property-level failure found on the disagreeing inputs"},
                          found=False)


# ------------------------------------------------------------------------------------------------
# generators
# ------------------------------------------------------------------------------------------------
def near(rng, centers, spread=3):
    c = rng.choice(centers)
    return max(0, c + rng.randint(-spread, spread))


POW = [2 ** 7, 2 ** 8, 2 ** 15, 2 ** 16, 2 ** 31, 2 ** 32, 2 ** 59, 2 ** 60, 2 ** 62, 2 ** 63, 2 ** 64]


# inputs that exposed genuine defects of the pinned tree (all repaired in /repo: D10-D14); always run first
REGRESSIONS = {
    "ck": ["ck1 0 31 " + C.hx(b"7fffffffffffffdf\r\n"), "ck1 0 32 " + C.hx(b"7fffffffffffffdf\r\nab"),
           "ck1 1 100 " + C.hx(b"7fffffffffffffdf\r\n"), "ck1 4194303 65536 " + C.hx(b"7ffffffffffffff0\r\n")],
    "h2f": ["h2f 8192 000000040000000000000000010500000001",                        # D11 empty HEADERS: no :path
            "h2f 8192 0000000400000000000000070105000000017f808080808001",          # D10 HPACK integer, 6 bytes
            "h2f 8192 0000000400000000000000070105000000013f808080808001",
            "h2f 8192 0000000400000000000000060105000000017fffffffff0f",            # D20 5-byte integer, top digit 0x0f
            "h2f 8192 00000004000000000000000c0105000000018286844101617f8080808001"],
    "px": ["dig 1700000000 ~ " + C.hx(b'username="u", realm="realm", nonce="8000000000000000:x", uri="/x", response="' + b"0" * 32 + b'"'),
           "dig 1700000000 736563726574 " + C.hx(b'username="u", realm="realm", nonce="ffffffffffffffff:x", uri="/x", response="' + b"0" * 32 + b'"'),
           "fwd 16 10.0.0.1 " + C.hx(b'for=1.2.3.4;remote_user=""'),
           "fwd 31 10.0.0.1 " + C.hx(b'for=1.2.3.4;remote_user="", for=10.0.0.1')],
}

# ------------------------------------------------------------------------------------------------
# srv->tmp_buf shared between h2.c (HPACK scratch, sized once per connection, asserted before use) and
# mod_fastcgi.c (FCGI_STDERR logging): histories of both modules' operations on the one buffer
# ------------------------------------------------------------------------------------------------
H2_SCRATCH_MIN = 131072       # what h2_send_headers()/h2_send_headers_block() assert (decode asserts 65536)
TMPB_REGRESSIONS = ["tmpb I E30:2 Q",            # attacker seed C12-c2: STDERR record, then a HEADERS frame on the open connection
                    "tmpb I E30:2 X",
                    "tmpb E5000:3 I E100:0 Q E65535:255 Q X"]


def gen_tmpb(ctx):
    rng = ctx.rng
    L = list(TMPB_REGRESSIONS)
    lens = [0, 1, 2, 30, 62, 63, 64, 65, 4094, 4095, 4096, 4097, 8191, 8192, 65534, 65535]
    pads = [0, 0, 0, 1, 7, 8, 254, 255]

    def rec(kind):
        n = rng.choice(lens) if rng.random() < 0.7 else rng.randint(0, 65535)
        return "%s%d:%d" % (kind, n, rng.choice(pads))
    # exhaustive small scope: every history of length <= 4 over {I, X, Q, E(small), E(> reuse size), O}
    import itertools
    alpha = ["I", "X", "Q", "E30:2", "E5000:0", "O10:0"]
    for k in (1, 2, 3, 4):
        for combo in itertools.product(alpha, repeat=k):
            o, ok = False, True
            for c in combo:
                if c == "I":
                    o = True
                elif c == "X":
                    o = False
                elif c == "Q" and not o:
                    ok = False
                    break
            if ok:
                L.append("tmpb " + " ".join(combo))
    n = 600 if ctx.quick else 8000
    for _ in range(n):
        steps, o = [], False
        for _ in range(rng.randint(1, 14)):
            r = rng.random()
            if r < 0.18:
                steps.append("I"); o = True
            elif r < 0.26:
                steps.append("X"); o = False
            elif r < 0.5 and o:
                steps.append("Q")
            elif r < 0.85:
                steps.append(rec("E"))
            else:
                steps.append(rec("O"))
        L.append("tmpb " + " ".join(steps))
    return L


def gen_s64(ctx):
    rng = ctx.rng
    L = []
    fixed = [b"", b"0", b"00", b"7", b"9223372036854775807", b"9223372036854775808", b"9223372036854775806",
             b"922337203685477580", b"922337203685477581", b"9223372036854775810", b"09223372036854775807",
             b"0009223372036854775808", b"18446744073709551615", b"18446744073709551616", b"99999999999999999999",
             b"4294967295", b"4294967296", b"2147483647", b"2147483648", b"-1", b"+1", b" 1", b"1 ", b"0x10", b"1e3"]
    for v in fixed:
        L.append("s64 " + C.hx(v))
    n = 20000 if ctx.quick else 300000
    for _ in range(n):
        r = rng.random()
        if r < 0.4:
            v = str(near(rng, POW + [I64MAX, I64MAX // 10, (I64MAX // 10) * 10, 10 ** 18, 10 ** 19], 12)).encode()
        elif r < 0.7:
            v = bytes(rng.choice(b"0123456789") for _ in range(rng.randint(0, 24)))
        else:
            v = str(rng.getrandbits(rng.randint(1, 70))).encode()
        if rng.random() < 0.2:
            v = b"0" * rng.randint(1, 30) + v
        if rng.random() < 0.25 and v:
            i = rng.randrange(len(v) + 1)
            b = rng.choice([0x2f, 0x3a, 0x20, 0x2d, 0x2b, 0x00, 0x80, 0xff, 0x61, rng.randint(0, 255)])
            v = v[:i] + bytes([b]) + (v[i:] if rng.random() < 0.5 else v[i + 1:])
        L.append("s64 " + C.hx(v))
    return L


def ck_ref(line):
    """independent parse of a chunk-size line prefix: (hexdigits value, ndigits, overflow-by-guard)"""
    v, k = 0, 0
    for ch in line:
        c = chr(ch)
        if c in "0123456789abcdefABCDEF":
            if v > CK_GUARD:
                return v, k, True
            v = v * 16 + int(c, 16)
            k += 1
        else:
            break
    return v, k, False


def gen_ck(ctx):
    rng = ctx.rng
    L = list(REGRESSIONS["ck"])
    sizes = [1, 2, 15, 16, 255, 256, 1023, 1024, 1025, 65534, 65535, 65536, 65537, 2 ** 31 - 1, 2 ** 31, 2 ** 32 - 1,
             2 ** 32, 2 ** 32 + 1, 2 ** 42 - 1, 2 ** 42, 2 ** 42 + 1, CK_GUARD - 1, CK_GUARD, CK_GUARD + 1,
             CK_GUARD + 2, CK_GUARD + 3, 2 ** 59, 2 ** 60 - 1, 2 ** 60, 2 ** 62, 2 ** 63 - 48, 2 ** 63 - 34,
             2 ** 63 - 33, 2 ** 63 - 32, 2 ** 63 - 17, 2 ** 63 - 3, 2 ** 63 - 2, 2 ** 63 - 1, 2 ** 63, 2 ** 64 - 1, 2 ** 64]
    ins = [0, 1, 2, 30, 31, 32, 33, 65535, 65536, 65537, 2 ** 31, 2 ** 32, 2 ** 42, 2 ** 62, 2 ** 63 - 65537, 2 ** 63 - 66000,
           2 ** 63 - 100]      # (bytes already received: bytes_in + the few data bytes of the case fits off_t)
    mss = [0, 0, 0, 1, 64, 4194303, 4294967295]
    exts = [b"", b"", b"", b";x=y", b" ", b"\t;q", b" x", b"g", b";\"a\""]

    def mk(size, k, ext, ms, bin_, op):
        hexs = (b"%x" % size)
        if rng.random() < 0.2:
            hexs = hexs.upper()
        if rng.random() < 0.2:
            hexs = b"0" * rng.randint(1, 20) + hexs
        eol = b"\r\n" if rng.random() < 0.93 else rng.choice([b"\n", b"\r", b"\r\r\n"])
        line = hexs + ext + eol
        if rng.random() < 0.1 and line:
            i = rng.randrange(len(line))
            line = line[:i] + bytes([rng.choice([0x20, 0x67, 0x47, 0x2f, 0x3a, 0x60, 0x40, 0x0d, 0x0a, 0x3b, 0x09])]) + line[i + 1:]
        if b"\n" not in line:
            k = 0
        else:
            # keep the single-call model exact: data bytes stay below the parsed size
            hd = line[:line.index(b"\n") + 1]
            tail = line[len(hd):]
            v, nd, ovf = ck_ref(hd)
            if tail or (not ovf and nd and v <= k and not (v == 0 and k == 0)):
                k = 0
                line = hd
                if v == 0:
                    return None
        data = bytes(rng.choice(b"ab\r\n0;") for _ in range(k))
        if op == "ck1":
            return "ck1 %d %d %s" % (ms, bin_, C.hx(line + data))
        return "ck2 %s" % C.hx(line + data)

    for s in sizes:
        for b in ins:
            for ms in (0, 4194303):
                x = mk(s, 0, b"", ms, b, "ck1")
                if x:
                    L.append(x)
        x = mk(s, 0, b"", 0, 0, "ck2")
        if x:
            L.append(x)
    n = 15000 if ctx.quick else 200000
    for _ in range(n):
        s = near(rng, sizes, 40) if rng.random() < 0.7 else rng.getrandbits(rng.randint(1, 66))
        k = rng.choice([0, 0, 1, 3, 8])
        x = mk(s, k, rng.choice(exts), rng.choice(mss), near(rng, ins, 3) if rng.random() < 0.7 else 0,
               "ck1" if rng.random() < 0.6 else "ck2")
        if x:
            L.append(x)
    # long header lines around the 1024 limit (h1) and without LF
    for ln in (1000, 1017, 1018, 1019, 1020, 1021, 1022, 1023, 1024, 1030, 3000):
        L.append("ck1 0 0 " + C.hx(b"10;" + b"x" * ln + b"\r\n"))
        L.append("ck1 0 0 " + C.hx(b"10;" + b"x" * ln))
        L.append("ck2 " + C.hx(b"10;" + b"x" * ln + b"\r\n"))
        L.append("ck2 " + C.hx(b"10;" + b"x" * ln))
    return L



def gw_stream(rng, ok):
    """a chunked response body as a backend would send it (NUL-free)"""
    out = b""
    for _ in range(rng.randint(0, 4)):
        n = rng.choice([1, 2, 3, 5, 10, 16, 17, 40])
        data = bytes(rng.choice(b"ab\r\n0;X") for _ in range(n))
        size = (b"%x" % n) if rng.random() < 0.7 else (b"%X" % n if rng.random() < 0.5 else b"0" * rng.randint(1, 3) + b"%x" % n)
        ext = rng.choice([b"", b"", b"", b";a=b", b" ;x", b"\t", b";"]) if ok else rng.choice([b"", b"x", b" y", b"\r", b"g", b";\r"])
        out += size + ext + b"\r\n" + data + (b"\r\n" if ok or rng.random() < 0.8 else rng.choice([b"\n", b"\r", b"\rX", b"XX", b""]))
    last = rng.choice([b"0", b"00", b"0;x"]) if ok else rng.choice([b"0", b"", b"0x", b" 0", b"-0"])
    tr = rng.choice([b"", b"", b"Foo: bar\r\n", b"A: b\r\nC: d\r\n", b"A: b\n"])
    out += last + b"\r\n" + tr + (b"\r\n" if ok or rng.random() < 0.8 else b"\n")
    if rng.random() < 0.2:
        out += rng.choice([b"X", b"\r\n", b"0\r\n\r\n"])
    return out


def split_random(rng, data, k):
    cuts = sorted(rng.sample(range(1, len(data)), min(k - 1, len(data) - 1))) if len(data) > 1 else []
    return [data[a:b] for a, b in zip([0] + cuts, cuts + [len(data)])]


def gen_gw(ctx):
    """http_chunk_decode_append_data() over MANY reads: general segmentations (compared with the read-level
    model) and dribbles that try to grow gw_dechunk->b (unterminated chunk-size lines, endless trailers)"""
    rng = ctx.rng
    L = ["gwd 8192 - " + C.hx(b"a" * 10) + " 3000 -",                 # C12-3: 10-byte reads, no LF, for ever
         "gwd 8192 - " + C.hx(b"0" * 1023) + " 40 " + C.hx(b"1\r\nx")]
    hexd = b"0123456789abcdefABCDEF"
    for u in (1, 2, 3, 7, 64, 100, 500, 511, 512, 513, 1000, 1022, 1023, 1024, 1025):
        for cnt in sorted(set([1, 2, 3, 1024 // u, 1024 // u + 1, 1024 // u + 2, 2048 // u + 1, min(6000, 20000 // u + 3)])):
            for pre in (b"", b"1", b"5;", b"0"):
                unit = bytes(rng.choice(hexd if pre != b"5;" else b"xyz=") for _ in range(u))
                if pre == b"0":
                    unit = b"0" * u
                for suf in (b"", b"\r\n", b"\r\nab", b"\n"):
                    if rng.random() < (1.0 if ctx.quick and u in (1, 7, 100, 1023) or not ctx.quick else 0.25):
                        L.append("gwd 8192 %s %s %d %s" % (C.hx(pre), C.hx(unit), cnt, C.hx(suf)))
    for mf in (1, 3, 4, 5, 100, 1023, 1024, 1025, 8192, 65535):
        for unit in (b"X: y\r\n", b"Abc: defgh\r\n", b"X: y\n", b"\r\n", b"Xy", b"X" * 300 + b"\r\n", b"X" * 1023, b"X" * 2000):
            for cnt in sorted(set([1, 2, mf // len(unit) + 1, mf // len(unit) + 3, min(4000, 2 * mf // len(unit) + 5)])):
                for pre in (b"0\r\n", b"0;x\r\n", b"0\r", b"0"):
                    if mf > 8192 and len(unit) < 300:
                        continue        # (65535-byte trailer sections only in big pieces: keeps the model run short)
                    if rng.random() < (0.35 if ctx.quick else 1.0):
                        L.append("gwd %d %s %s %d %s" % (mf, C.hx(pre), C.hx(unit), cnt, C.hx(rng.choice([b"\r\n", b"", b"\r\n\r\n"]))))
    n = 6000 if ctx.quick else 80000
    for _ in range(n):
        ok = rng.random() < 0.7
        data = gw_stream(rng, ok)
        if rng.random() < 0.2 and data:
            i = rng.randrange(len(data))
            data = data[:i] + bytes([rng.choice([9, 10, 13, 32, 59, 0x67, 0x30, 0x66, 0x80, 0xff])]) + data[i + 1:]
        if rng.random() < 0.2 and len(data) > 1:
            data = data[:rng.randrange(1, len(data))]
        segs = split_random(rng, data, rng.choice([1, 2, 2, 3, 5, 9, len(data)]))
        L.append("gws %d %s" % (rng.choice([8192, 8192, 16, 40, 3]), " ".join(C.hx(x) for x in segs)))
    for d in [b"1\r\na\r\n0\r\n\r\n", b"2;x\r\nab\r\n0\r\n\r\n"[:13], b"0\r\nA:b\r\n\r\n", b"a\r\n0123456789\r\n0\r\n\r\n"[:12], b"1\na\r\n0\r\n\r\n"]:
        d = d[:11] if ctx.quick else d[:13]
        for mask in range(1 << (len(d) - 1)):
            segs, cur = [], d[:1]
            for i in range(1, len(d)):
                if mask >> (i - 1) & 1:
                    segs.append(cur); cur = b""
                cur += d[i:i + 1]
            segs.append(cur)
            L.append("gws 8192 " + " ".join(C.hx(x) for x in segs))
    return L


def gen_h1d(ctx):
    """h1_chunked() over MANY reads: partial chunk-size lines and trailer sections held in the read queue"""
    rng = ctx.rng
    L = []
    hexd = b"0123456789abcdef"
    for u in (1, 7, 100, 511, 1023, 1024):
        for cnt in sorted(set([1, 2, 1024 // u, 1024 // u + 1, 1024 // u + 2, min(5000, 12000 // u + 3)])):
            for pre in (b"", b"1", b"5;"):
                unit = bytes(rng.choice(hexd if pre != b"5;" else b"xyz=") for _ in range(u))
                for suf in (b"", b"\r\n", b"\r\nab"):
                    L.append("h1d 0 8192 %s %s %d %s" % (C.hx(pre), C.hx(unit), cnt, C.hx(suf)))
    for mf in (1, 100, 1024, 8192, 65535):
        for unit in (b"X: y\r\n", b"Abc: defgh\r\n", b"Xy", b"X" * 300 + b"\r\n", b"X" * 1023):
            for cnt in sorted(set([1, 2, mf // len(unit) + 1, mf // len(unit) + 3, min(4000, 2 * mf // len(unit) + 5)])):
                for pre in (b"0\r\n", b"5\r\nhello\r\n0\r\n", b"0\r"):
                    if mf > 8192 and len(unit) < 300:
                        continue        # (64 KiB trailer sections only in big pieces: keeps the model run short)
                    L.append("h1d %d %d %s %s %d %s" % (rng.choice([0, 0, 1]), mf, C.hx(pre), C.hx(unit), cnt, C.hx(rng.choice([b"\r\n", b"", b"\r\n\r\n"]))))
    # whole calls resumed across arbitrary read boundaries (compared with the whole-call model `h1Run`)
    n = 6000 if ctx.quick else 80000
    for _ in range(n):
        ok = rng.random() < 0.7
        data = gw_stream(rng, ok)
        if rng.random() < 0.25 and data:
            i = rng.randrange(len(data))
            data = data[:i] + bytes([rng.choice([0, 9, 10, 13, 32, 59, 0x67, 0x30, 0x66, 0x80, 0xff])]) + data[i + 1:]
        if rng.random() < 0.2 and len(data) > 1:
            data = data[:rng.randrange(1, len(data))]
        if rng.random() < 0.05:
            data = (b"%x" % near(rng, [2 ** 31, 2 ** 32, CK_GUARD, 2 ** 63 - 33, 2 ** 63 - 32], 3)) + b"\r\n" + data
        segs = split_random(rng, data, rng.choice([1, 2, 2, 3, 5, 9, len(data)]))
        L.append("h1s %d %d %s" % (rng.choice([0, 0, 0, 1]), rng.choice([8192, 8192, 16, 40, 3]), " ".join(C.hx(x) for x in segs)))
    for d in [b"1\r\na\r\n0\r\n\r\n", b"2;x\r\nab\r\n0\r\n\r\nG"[:13], b"0\r\nA:b\r\n\r\n", b"1\r\na\rX", b"1\na\r\n0\r\n\r\n", b"0\r\n\0\r\n\r\n"]:
        d = d[:11] if ctx.quick else d[:13]
        for mask in range(1 << (len(d) - 1)):
            segs, cur = [], d[:1]
            for i in range(1, len(d)):
                if mask >> (i - 1) & 1:
                    segs.append(cur); cur = b""
                cur += d[i:i + 1]
            segs.append(cur)
            L.append("h1s 0 8192 " + " ".join(C.hx(x) for x in segs))
    return L


def gen_hoff(ctx):
    rng = ctx.rng
    L = []

    def block(nlines, term, eol_mix, maxlen):
        out = []
        for _ in range(nlines):
            ln = rng.choice([1, 2, 3, 5, 20]) if maxlen is None else rng.randint(1, maxlen)
            body = bytes(rng.choice(b"abc: \t\rX") for _ in range(ln))
            if body in (b"\r",):
                body = b"a"
            out.append(body + (b"\r\n" if rng.random() < eol_mix else b"\n"))
        return b"".join(out) + term

    terms = [b"\r\n", b"\n", b"", b"\r", b"\r\nBODY\n\n", b"\n\n"]
    for nl in [0, 1, 2, 3, 10, 100, 1000, 4000, 8186, 8187, 8188, 8189, 8190, 8191, 8192, 8193, 9000]:
        for term in terms[:4] if nl > 100 else terms:
            for h0 in (1,):
                b = (b"a\n" * nl) + term
                L.append("hoff %d %s" % (h0, C.hx(b)))
    for h0, nl in [(2, 8189), (2, 8188), (100, 8100), (8189, 1), (8189, 2), (8190, 0), (8190, 1), (8189, 0), (0, 8191), (0, 8190)]:
        for term in (b"\n", b""):
            L.append("hoff %d %s" % (h0, C.hx(b"a\n" * nl + term)))
    # offsets around the unsigned short limit
    for total in (65530, 65533, 65534, 65535, 65536, 65537, 65540, 70000, 131072, 200000):
        for term in (b"\r\n", b""):
            first = b"x" * (total - 20) + b"\n"
            L.append("hoff 1 " + C.hx(first + b"a: b\r\n" * 3 + term))
            L.append("hoff 1 " + C.hx(b"a: b\r\n" * 3 + first + term))
    n = 4000 if ctx.quick else 60000
    for _ in range(n):
        b = block(rng.randint(0, 12), rng.choice(terms), rng.random(), rng.choice([None, 4, 40]))
        if rng.random() < 0.3 and b:
            i = rng.randrange(len(b))
            b = b[:i] + bytes([rng.choice([10, 13, 0, 0x61])]) + b[i + 1:]
        L.append("hoff 1 " + C.hx(b))
    return L


def gen_rng(ctx):
    rng = ctx.rng
    L = []
    lens = [1, 2, 80, 81, 82, 1000, 65536, 2 ** 31 - 1, 2 ** 31, 2 ** 32, 2 ** 32 + 5, 2 ** 62, I64MAX - 1, I64MAX]

    def num(ln):
        r = rng.random()
        if r < 0.35:
            return str(rng.randint(0, min(ln + 100, 3000)))
        if r < 0.6:
            return str(near(rng, [ln - 1, ln, ln + 1, 0, 79, 80, 81, ln // 2], 3))
        if r < 0.8:
            return str(near(rng, [I64MAX, I64MAX + 1, 2 ** 64, 2 ** 63 - 81, 2 ** 31, 2 ** 32], 2))
        if r < 0.9:
            return "0" * rng.randint(1, 25) + str(rng.randint(0, 99))
        return str(rng.getrandbits(rng.randint(1, 80)))

    def spec(ln):
        r = rng.random()
        ws = lambda: rng.choice(["", "", "", " ", "\t", "  "])
        if r < 0.45:
            return ws() + num(ln) + ws() + "-" + ws() + num(ln) + ws()
        if r < 0.65:
            return ws() + num(ln) + "-" + ws()
        if r < 0.85:
            return ws() + "-" + num(ln) + ws()
        return rng.choice(["", "-", "--1", "1--2", "a-b", "1-2x", "+5-9", "-+5", "- 5", "1- -2", "1-+2", "0x10-", "1-2-3",
                           "\n1-2", "\v5-", "-0", "-00", "0-0", "00-00", "1-0", "5-4", " ", "-9223372036854775808",
                           "-9223372036854775807", "-9223372036854775809", "9223372036854775807-", "1-\x0c2"])

    fixed = ["0-0", "0-", "-1", "0-0,2-2", "0-1,5-,-5", "500-600,100-200", "9223372036854775807-", "-9223372036854775808",
             "-9223372036854775807", "0-9223372036854775807", "0-9223372036854775806", "1-1,0-0", "10-20,5-15,0-3",
             ",".join("%d-%d" % (i * 100, i * 100 + 1) for i in range(130)),
             ",".join("%d-%d" % (i * 100, i * 100 + 1) for i in range(128)),
             ",".join("%d-%d" % (i * 100, i * 100 + 1) for i in range(127)),
             ",".join("%d-%d" % (i * 100, i * 100 + 1) for i in reversed(range(12))),
             ",".join("%d-%d" % (i * 100, i * 100 + 1) for i in reversed(range(10))),
             "1000-1001," + ",".join("%d-%d" % (i * 100, i * 100 + 1) for i in reversed(range(9))),
             ",".join("%d-%d" % (i * 200, i * 200 + 1) for i in range(100)) + ",0-0," + ",".join("%d-%d" % (90000 + i * 200, 90000 + i * 200 + 1) for i in range(40)),
             ",".join("%d-%d" % (i * 81, i * 81) for i in range(200)),
             ",".join("%d-%d" % (i * 82, i * 82) for i in range(200)), ",,,,", "0-0,,1-1,"]
    for f in fixed:
        for ln in (1, 1000, 100000, I64MAX):
            L.append("rng %d %s" % (ln, C.hx(f.encode("latin-1"))))
    n = 15000 if ctx.quick else 200000
    for _ in range(n):
        ln = rng.choice(lens) if rng.random() < 0.6 else rng.randint(1, 5000)
        k = rng.choice([1, 1, 2, 2, 3, 4, 6, 11, 12, 25, 140])
        s = ",".join(spec(ln) for _ in range(k))
        if rng.random() < 0.1:
            i = rng.randrange(len(s) + 1)
            s = s[:i] + rng.choice(["\0", ";", " ", "-", ",", "9"]) + s[i:]
        L.append("rng %d %s" % (ln, C.hx(s.encode("latin-1"))))
    return L


def gen_buf(ctx):
    """sequences of buffer growth operations; the python side tracks legality only loosely:
    commit sizes never exceed the preceding prepare request, truncation never exceeds the length"""
    rng = ctx.rng
    L = []
    big = [2 ** 20 - 1, 2 ** 20, 2 ** 24, 2 ** 30, 2 ** 31 - 130, 2 ** 31 - 65, 2 ** 31 - 64, 2 ** 31 - 63, 2 ** 31 - 2, 2 ** 31 - 1, 2 ** 31,
           2 ** 31 + 1, 2 ** 32 - 130, 2 ** 32 - 66, 2 ** 32 - 65, 2 ** 32 - 64, 2 ** 32 - 63, 2 ** 32 - 2, 2 ** 32 - 1, 2 ** 32, 2 ** 32 + 1,
           2 ** 33, 2 ** 40, SIZEMAX - 63, SIZEMAX - 1, SIZEMAX]     # (2^40 < len < SIZE_MAX-63: allocation failure, not arithmetic)
    small = [0, 1, 2, 31, 62, 63, 64, 65, 126, 127, 128, 191, 192, 254, 255, 256, 257, 1000, 4095, 4096, 65535, 65536]
    for v in small + big:
        L.append("buf R%d" % v)
        if v != SIZEMAX:
            L.append("buf p%d" % v)
        L.append("buf y%d" % v)
        if v != SIZEMAX:
            L.append("buf p10 c10 p%d" % v)
        L.append("buf p10 c10 R%d" % v)
        if v < 2 ** 34:
            L.append("buf e%d" % v)
            L.append("buf e100 e%d" % v)
        if v <= 10 or v == SIZEMAX:
            L.append("buf p10 c%d" % v)          # (commit > prepared is a caller error, except SIZE_MAX: add-overflow assert)
        elif v < 2 ** 32 - 70:
            L.append("buf p%d c%d" % (v, v))
    n = 6000 if ctx.quick else 80000
    for _ in range(n):
        ops = []
        ln = 0          # current string length as far as the generator can tell
        prepared = 0
        alive = True
        for _ in range(rng.randint(1, 8)):
            r = rng.random()
            if r < 0.35:
                v = rng.choice(small) if rng.random() < 0.8 else near(rng, big[:18], 2)
                ops.append("p%d" % v)
                prepared = v
                if ln + v >= 2 ** 32 - 70:
                    alive = False
            elif r < 0.6 and prepared:
                v = rng.randint(0, min(prepared, 2 ** 31))
                if rng.random() < 0.3:
                    v = prepared
                ops.append("c%d" % v)
                ln += v
                prepared -= v
            elif r < 0.8:
                v = rng.choice(small) if rng.random() < 0.85 else near(rng, big[:12], 2)
                if ln + v >= 2 ** 32 - 70:
                    alive = False
                ops.append("e%d" % v)
                ln += v
                prepared = 0
            elif r < 0.88:
                v = rng.choice(small) if rng.random() < 0.85 else near(rng, big[:12], 2)
                ops.append("y%d" % v)
                ln = 0
                prepared = v
                if v >= 2 ** 32 - 70:
                    alive = False
            elif r < 0.95 and ln:
                v = rng.randint(0, ln)
                ops.append("t%d" % v)
                ln = v
                prepared = 0
            else:
                ops.append(rng.choice(["x", "f"]))
                ln = 0
                prepared = 0
            if not alive:
                break
        L.append("buf " + " ".join(ops))
    return L


def gen_ckr(ctx):
    rng = ctx.rng
    L = []
    vals = [0, 1, 2, 16, 65535, 65536, 2 ** 31 - 1, 2 ** 31, 2 ** 32 - 2, 2 ** 32 - 1, 2 ** 32, 2 ** 32 + 1, 2 ** 33, 2 ** 63, SIZEMAX - 1, SIZEMAX]
    elts = [1, 2, 8, 16, 24, 4096, 2 ** 31, 2 ** 32 - 1, 2 ** 32, 2 ** 32 + 1, 2 ** 33, 2 ** 60, 2 ** 61, 2 ** 62, 2 ** 63, SIZEMAX]
    for n in vals:
        for x in vals:
            for e in elts:
                L.append("ckr %d %d %d" % (n, x, e))
    for _ in range(2000 if ctx.quick else 20000):
        L.append("ckr %d %d %d" % (near(rng, vals, 3), near(rng, vals, 3), max(1, near(rng, elts, 3))))

    def keep(l):
        _, n, x, e = l.split(" ")
        n, x, e = int(n), int(x), int(e)
        if n > SIZEMAX or x > SIZEMAX or e > SIZEMAX or e == 0:
            return False
        ok = x <= U32MAX and n <= U32MAX - x and n + x <= SIZEMAX // e
        return (not ok) or (n + x) * e <= 2 ** 24        # real allocation only when small
    return [l for l in L if keep(l)]


def fr(t, flags, sid, payload, flen=None):
    ln = len(payload) if flen is None else flen
    return struct.pack(">I", ln & 0xffffff)[1:] + bytes([t & 0xff, flags & 0xff]) + struct.pack(">I", sid & 0xffffffff) + payload


HP_GET = bytes([0x82, 0x86, 0x84, 0x41, 0x01, 0x61])            # GET http / authority "a"
HP_POST = bytes([0x83, 0x86, 0x84, 0x41, 0x01, 0x61])
HP_EXTRA = [bytes([0x90]), bytes([0x40, 0x01, 0x78, 0x01, 0x79]), bytes([0x00, 0x03]) + b"x-a" + bytes([0x02]) + b"bc",
            bytes([0x5c, 0x01, 0x35]), bytes([0x0f, 0x0d, 0x01, 0x35]), bytes([0x3f, 0xe1, 0x1f]), bytes([0x20]),
            bytes([0xbe]), bytes([0xff, 0xff, 0xff, 0xff, 0x0f]), bytes([0x7f, 0xff, 0xff, 0xff, 0xff, 0x0f]),
            bytes([0x3f, 0xe1, 0xff, 0xff, 0xff, 0x08]), bytes([0x7f, 0x80, 0x80, 0x80, 0x80, 0x80, 0x01]),
            bytes([0x00, 0x85]) + b"\xff\xff\xff\xff\xff" + bytes([0x01, 0x61]), bytes([0x10, 0x7f, 0xff, 0xff, 0x03])]


def gen_h2c(ctx):
    """HEADERS (no END_HEADERS) followed by CONTINUATION frames, handed to h2_recv_continuation()"""
    rng = ctx.rng
    L = []

    def case(fsize, f0, flags0, conts, trail, sid=1):
        first_payload = bytes(rng.choice(b"\x82\x90\x00\x05") for _ in range(f0))
        if flags0 & 0x08 and f0:
            first_payload = bytes([rng.choice([0, 1, 2, f0 - 1 if f0 <= 256 else 255, f0 % 256, 255])]) + first_payload[1:]
        b = fr(1, flags0, sid, first_payload)
        for (t, fl, cid, ln, declared) in conts:
            b += fr(t, fl, cid, bytes(rng.choice(b"\x82\x90") for _ in range(ln)), flen=declared)
        b += trail
        return "h2c %d %s" % (fsize, C.hx(b))

    # boundary of the 65536 accumulation cap and of fsize
    for fsize in (16384, 16385, 65536, 16777215):
        for f0 in (0, 1, 5, 16384 if fsize >= 16384 else 100):
            for total_extra in (65535 - 9 - f0, 65536 - 9 - f0, 65537 - 9 - f0, 65500 - 9 - f0):
                conts, left = [], total_extra
                while left > 0:
                    ln = min(left - 9, min(fsize, 16384)) if left > 9 else 0
                    if left <= 9:
                        break
                    conts.append((9, 0, 1, ln, ln))
                    left -= 9 + ln
                if conts:
                    t, fl, cid, ln, d = conts[-1]
                    conts[-1] = (t, 4, cid, ln, d)
                    L.append(case(fsize, f0, 0, conts, b""))
    n = 3000 if ctx.quick else 40000
    for _ in range(n):
        fsize = rng.choice([16384, 16384, 16384, 16385, 20000, 65535, 16777215])
        f0 = rng.choice([0, 1, 2, 5, 6, 7, 10, 100, 300])
        flags0 = rng.choice([0, 0, 0x08, 0x20, 0x28, 0x01, 0x09, 0x29])
        k = rng.choice([0, 1, 1, 2, 3, 5, 33, 40])
        conts = []
        for i in range(k):
            ln = rng.choice([0, 0, 1, 3, 10, 200])
            t = 9 if rng.random() < 0.95 else rng.choice([0, 1, 4, 8])
            cid = 1 if rng.random() < 0.95 else rng.choice([0, 3, 0x80000001])
            declared = ln if rng.random() < 0.9 else rng.choice([ln + 1, ln + 100, fsize + 1, fsize, 0xffffff, max(0, ln - 1)])
            fl = 4 if i == k - 1 and rng.random() < 0.8 else rng.choice([0, 0, 0, 4, 1, 8, 0x20])
            conts.append((t, fl, cid, ln, declared))
        trail = rng.choice([b"", b"", fr(6, 0, 0, b"12345678"), b"\0\0", b"\0" * 9, fr(9, 4, 1, b"ab")[:rng.randint(1, 10)]])
        L.append(case(fsize, f0, flags0, conts, trail))
    return L


def gen_h2h(ctx):
    rng = ctx.rng
    L = []
    for flags in (0x04, 0x05, 0x0c, 0x0d, 0x24, 0x25, 0x2c, 0x2d):
        for ln in range(0, 14):
            for pad in (0, 1, 2, 5, 6, 7, 12, 13, 255):
                payload = (bytes([pad]) if flags & 0x08 else b"") + (b"\0\0\0\0\x10" if flags & 0x20 else b"") + HP_GET
                payload = (payload + b"\0" * 300)[:ln]
                for cid, ga in ((0, 0), (0, 1), (5, 0), (0, -1)):
                    L.append("h2h %d %d %s" % (cid, ga, C.hx(fr(1, flags, 1, payload))))
    n = 4000 if ctx.quick else 50000
    for _ in range(n):
        flags = rng.choice([0x04, 0x05, 0x0c, 0x2c, 0x24, 0x2d, 0x00, 0xff])
        pad = rng.choice([0, 1, 3, 200, 255])
        hp = rng.choice([HP_GET, HP_POST]) + b"".join(rng.choice(HP_EXTRA) for _ in range(rng.randint(0, 4)))
        dep = struct.pack(">I", rng.choice([0, 1, 3, 0x80000001, 0x80000003])) + b"\x10"
        payload = (bytes([pad]) if flags & 0x08 else b"") + (dep if flags & 0x20 else b"") + hp + \
            (b"\0" * pad if flags & 0x08 and rng.random() < 0.8 else b"")
        if rng.random() < 0.3:
            payload = payload[:rng.randint(0, len(payload))]
        sid = rng.choice([1, 1, 3, 5, 0, 2, 0x80000001])
        L.append("h2h %d %d %s" % (rng.choice([0, 0, 1, 3, 7]), rng.choice([0, 0, 0, 1, -1]), C.hx(fr(1, flags, sid, payload))))
    return L


def gen_h2d(ctx):
    rng = ctx.rng
    L = []
    for flags in (0, 1, 8, 9):
        for ln in range(0, 8):
            for pad in (0, 1, 2, 5, 6, 7, 8, 255):
                payload = ((bytes([pad]) if flags & 8 else b"") + b"abcdefgh" * 40)[:ln]
                for sid in (1, 0, 3, 0x80000001):
                    L.append("h2d " + C.hx(fr(0, flags, sid, payload)))
    for _ in range(2000 if ctx.quick else 30000):
        flags = rng.choice([0, 1, 8, 9, 0xff])
        ln = rng.choice([0, 1, 2, 100, 256, 257, 300, 16384])
        pad = rng.choice([0, 1, ln % 256, (ln - 1) % 256, (ln - 2) % 256, 255])
        payload = ((bytes([pad]) if flags & 8 else b"") + bytes(rng.getrandbits(8) for _ in range(16)) * 1100)[:ln]
        L.append("h2d " + C.hx(fr(0, flags, rng.choice([1, 1, 1, 3, 0]), payload)))
    return L


def gen_h2f(ctx):
    """frame streams through h2_parse_frames(): exploration only"""
    rng = ctx.rng
    L = list(REGRESSIONS["h2f"])

    def rand_frame(next_sid):
        r = rng.random()
        sid = rng.choice([1, 3, 5, 7, next_sid, next_sid, 0])
        if r < 0.25:
            hp = rng.choice([HP_GET, HP_POST, HP_POST]) + b"".join(rng.choice(HP_EXTRA) for _ in range(rng.randint(0, 3)))
            flags = rng.choice([4, 5, 4, 5, 0x0c, 0x24, 0x2c, 0x0d])
            pad = rng.choice([0, 1, 7, 200])
            p = (bytes([pad]) if flags & 8 else b"") + (struct.pack(">I", rng.choice([0, sid, 3])) + b"\x0f" if flags & 0x20 else b"") + hp + \
                (b"\0" * pad if flags & 8 else b"")
            return fr(1, flags, next_sid if rng.random() < 0.7 else sid, p)
        if r < 0.35:   # HEADERS + CONTINUATION
            hp = rng.choice([HP_GET, HP_POST]) + b"".join(rng.choice(HP_EXTRA) for _ in range(rng.randint(0, 5)))
            cut = sorted(rng.sample(range(len(hp) + 1), min(len(hp) + 1, rng.randint(1, 4))))
            parts = [hp[a:b] for a, b in zip([0] + cut, cut + [len(hp)])]
            out = fr(1, rng.choice([0, 1]), next_sid, parts[0])
            for i, pz in enumerate(parts[1:]):
                out += fr(9, 4 if i == len(parts) - 2 else 0, next_sid, pz)
            return out
        if r < 0.55:
            flags = rng.choice([0, 1, 8, 9])
            ln = rng.choice([0, 1, 5, 100, 1000, 16384, 16385])
            pad = rng.choice([0, 1, 4, 255])
            p = ((bytes([pad]) if flags & 8 else b"") + b"d" * ln)[:ln]
            return fr(0, flags, sid, p)
        if r < 0.65:
            k = rng.randint(0, 4)
            p = b"".join(struct.pack(">HI", rng.choice([1, 2, 3, 4, 5, 6, 8, 9, 0x99]),
                                     rng.choice([0, 1, 100, 4096, 16383, 16384, 65535, 2 ** 24 - 1, 2 ** 24, 2 ** 31 - 1, 2 ** 31, 2 ** 32 - 1]))
                         for _ in range(k))
            if rng.random() < 0.1:
                p = p[:-1] if p else b"\0"
            return fr(4, rng.choice([0, 0, 0, 1]), rng.choice([0, 0, 0, 1]), p)
        if r < 0.72:
            return fr(8, 0, sid, struct.pack(">I", rng.choice([0, 1, 65535, 2 ** 31 - 1, 2 ** 31, 2 ** 32 - 1]))[:rng.choice([4, 4, 4, 3, 5])])
        if r < 0.78:
            return fr(3, 0, sid, struct.pack(">I", rng.choice([0, 8, 2]))[:rng.choice([4, 4, 3, 5])])
        if r < 0.84:
            return fr(6, rng.choice([0, 1]), rng.choice([0, 0, 1, 0x80000000]), b"12345678"[:rng.choice([8, 8, 7, 9, 0])])
        if r < 0.88:
            return fr(2, 0, sid, (struct.pack(">I", rng.choice([0, sid, 1])) + b"\x10")[:rng.choice([5, 5, 4, 6])])
        if r < 0.92:
            return fr(7, 0, rng.choice([0, 0, 1]), (struct.pack(">II", rng.choice([0, 1, 2 ** 31 - 1]), rng.choice([0, 1, 2])) + b"dbg")[:rng.choice([8, 11, 7, 0])])
        if r < 0.96:
            pv = rng.choice([b"u=1", b"u=7, i", b"i=?0", b"u=9", b"u", b"u=", b"i=?", b"", b"u=3,i=?1,x", b", ,"])
            return fr(0x10, 0, rng.choice([0, 0, 1]), (struct.pack(">I", rng.choice([0, 1, 3, 5])) + pv)[:rng.choice([4 + len(pv), 4 + len(pv), 3, 4])])
        t = rng.choice([5, 9, 0x0a, 0x20, 0xff])
        return fr(t, rng.getrandbits(8), sid, bytes(rng.getrandbits(8) for _ in range(rng.randint(0, 12))))

    n = 20000 if ctx.quick else 250000
    for _ in range(n):
        frames = []
        if rng.random() < 0.8:
            frames.append(fr(4, 0, 0, b""))
        sidn = 1
        for _ in range(rng.randint(1, 14)):
            f = rand_frame(sidn)
            if f[3] == 1:
                sidn += 2
            frames.append(f)
        data = b"".join(frames)
        r = rng.random()
        if r < 0.15 and data:
            i = rng.randrange(len(data))
            data = data[:i] + bytes([rng.getrandbits(8)]) + data[i + 1:]
        elif r < 0.25 and data:
            data = data[:rng.randrange(len(data))]
        k = rng.choice([1, 1, 2, 3, 6])
        cuts = sorted(rng.sample(range(1, max(2, len(data))), min(k - 1, max(0, len(data) - 1)))) if len(data) > 1 else []
        segs = [data[a:b] for a, b in zip([0] + cuts, cuts + [len(data)])] or [b""]
        L.append("h2f %d %s" % (rng.choice([8192, 8192, 100, 65535]), " ".join(C.hx(s) for s in segs)))
    # many streams / refused streams / discarded headers / continuation floods
    many = fr(4, 0, 0, b"") + b"".join(fr(1, 4, 1 + 2 * i, HP_POST) for i in range(30))
    L.append("h2f 8192 " + C.hx(many))
    L.append("h2f 8192 " + C.hx(fr(4, 0, 0, b"") + fr(4, 1, 0, b"") + b"".join(fr(1, 4, 1 + 2 * i, HP_POST) for i in range(60))))
    L.append("h2f 8192 " + C.hx(fr(4, 0, 0, b"") + fr(1, 0, 1, b"") + b"".join(fr(9, 0, 1, b"") for _ in range(200)) + fr(9, 4, 1, HP_GET)))
    L.append("h2f 8192 " + C.hx(fr(4, 0, 0, b"") + fr(1, 0, 1, b"") + b"".join(fr(9, 0, 1, b"\x90" * 1000) for _ in range(70))))
    L.append("h2f 65535 " + C.hx(fr(4, 0, 0, b"") + fr(1, 5, 1, HP_GET + b"\x90" * 3000)))
    L.append("h2f 8192 " + C.hx(fr(4, 0, 0, struct.pack(">HI", 5, 2 ** 24 - 1)) + fr(1, 5, 1, HP_GET + b"\x90" * 70000)))
    for i in range(1, 40):
        L.append("h2f 8192 " + C.hx(fr(4, 0, 0, b"") + b"".join(fr(1, 5, 1 + 2 * j, HP_GET) + fr(3, 0, 1 + 2 * j, b"\0\0\0\x08") for j in range(i))))
    # HEADERS without END_HEADERS followed by CONTINUATION frames that arrive in MANY small reads and never end
    for flen, nfr, piece in ((0, 7000, 9), (1, 6000, 10), (5, 4500, 7), (20, 2400, 29), (100, 700, 50), (1000, 80, 333),
                             (16384, 6, 1000), (16384, 6, 16393), (3, 5000, 12), (9, 3000, 18)):
        if ctx.quick and rng.random() < 0.3:
            continue
        data = fr(4, 0, 0, b"") + fr(1, 0, 1, HP_GET[:2]) + b"".join(fr(9, 0, 1, b"\x90" * flen) for _ in range(nfr))
        segs = [data[i:i + piece] for i in range(0, len(data), piece)][:16000]
        L.append("h2f 8192 " + " ".join(C.hx(x) for x in segs))
    return L


DATES = [b"Sun, 06 Nov 1994 08:49:37 GMT", b"Sunday, 06-Nov-94 08:49:37 GMT", b"Sun Nov  6 08:49:37 1994",
         b"Thu, 01 Jan 1970 00:00:00 GMT", b"Fri, 31 Dec 9999 23:59:59 GMT", b"Mon, 00 Jan 0000 00:00:00 GMT",
         b"Wed, 99 Feb 2024 99:99:99 GMT", b"Wednesday, 31-Dec-69 23:59:59 GMT", b"Saturday, 01-Jan-00 00:00:00 GMT",
         b"Tue Feb 29 23:59:60 2024", b"Tue Feb  9 23:59:60 0001"]


def mutate(rng, s, alphabet):
    r = rng.random()
    if not s:
        return bytes([rng.choice(alphabet)])
    i = rng.randrange(len(s))
    if r < 0.3:
        return s[:i] + bytes([rng.choice(alphabet)]) + s[i + 1:]
    if r < 0.5:
        return s[:i] + bytes([rng.choice(alphabet)]) + s[i:]
    if r < 0.7:
        return s[:i] + s[i + 1:]
    if r < 0.85:
        return s[:i]
    return s + s[i:]


def gen_px(ctx):
    rng = ctx.rng
    L = list(REGRESSIONS["px"])
    n = 8000 if ctx.quick else 80000
    nows = [0, 1, 1700000000, 2 ** 31 - 1, 2 ** 31, 253402300799, 2 ** 40]
    dalpha = list(b" ,-:0123456789GMTSunJanFebDec\x80\xff\t")
    for d in DATES:
        for now in nows:
            L.append("date %d %s" % (now, C.hx(d)))
        for i in range(len(d) + 1):
            L.append("date 1700000000 %s" % C.hx(d[:i]))
            L.append("date 1700000000 %s" % C.hx(d[:i] + b"X" * (29 - i) if i <= 29 else d[:i]))
    for _ in range(n):
        d = rng.choice(DATES)
        for _ in range(rng.randint(1, 3)):
            d = mutate(rng, d, dalpha)
        L.append("date %d %s" % (rng.choice(nows), C.hx(d.replace(b"\0", b"0"))))
    for t in [0, 1, -1, 784111777, 2 ** 31 - 1, 2 ** 31, 253402300799, 253402300800, -62167219200, -62167219201, 2 ** 55, -2 ** 55,
              2 ** 62, 2 ** 63 - 1, -2 ** 63, 67767976233532799, 67767976233532800, 67768036191676799, 67768036191676800]:
        L.append("dfmt %d" % t)
    for _ in range(n // 8):
        L.append("dfmt %d" % rng.choice([rng.getrandbits(rng.randint(1, 63)), -rng.getrandbits(rng.randint(1, 63))]))
    # ETag lists
    etags = [b'"abc"', b'W/"abc"', b'""', b'"a,b"', b'W/', b'W', b'"', b'', b'"\x80"', b'"a" ', b'*']
    ealpha = list(b'"W/*, \tabc\\\x80')
    for e in etags:
        for h in [b'*', b'"abc"', b'W/"abc"', b'"x", "abc"', b'"x","abc"', b'W/"abc", "abc"', b'"abc', b'abc"', b',', b', ,', b'W/', b'W', b'"abcd"',
                  b'"ab"', b'* ', b' *', b'"abc"x', b'"abc" x', b'']:
            for w in (0, 1):
                L.append("etag %d %s %s" % (w, C.hx(e), C.hx(h)))
    for _ in range(n):
        e = rng.choice(etags)
        h = rng.choice([e, b'W/' + e, e + b", " + e, b'"x", ' + e, e[:-1], b"*"])
        for _ in range(rng.randint(0, 3)):
            h = mutate(rng, h, ealpha)
        if rng.random() < 0.2:
            e = mutate(rng, e, ealpha)
        L.append("etag %d %s %s" % (rng.randint(0, 1), C.hx(e.replace(b"\0", b"")), C.hx(h.replace(b"\0", b""))))
    # Forwarded / X-Forwarded-For
    ips = [b"10.0.0.1", b"10.0.0.2", b"192.0.2.43", b"1.2.3.4", b'"[2001:db8::1]"', b'"[2001:db8::1]:8080"', b'"1.2.3.4:80"', b"unknown",
           b"_hidden", b'"_x"', b"[::1]", b'"[::1"', b'"["', b'"[]"', b'"]"', b'""', b'"', b"", b'"a\\"b"', b'"a\\', b"/tmp/sock",
           b"999.999.999.999", b"1.2.3.4.5", b":", b"::", b'"[::ffff:1.2.3.4]"']
    falpha = list(b'for=byhostproto;, "\\[]:_/.0123456789\t\x80')
    trusted = ["-", "10.0.0.1", "10.0.0.1,10.0.0.2", "10.0.0.1,10.0.0.2,192.0.2.43,1.2.3.4,2001:db8::1", "::1"]

    def fparam():
        r = rng.random()
        if r < 0.5:
            return rng.choice([b"for", b"For", b"FOR", b"for "]) + b"=" + rng.choice(ips)
        if r < 0.65:
            return b"proto=" + rng.choice([b"https", b"http", b'"https"', b"HTTPS", b"ftp", b"", b'"'])
        if r < 0.8:
            return b"host=" + rng.choice([b"example.com", b'"Example.COM:80"', b'"a\\.b"', b'"a\\"', b"a b", b'"[::1]:80"', b"", b'"\x80"', b"a" * 300])
        if r < 0.9:
            return b"by=" + rng.choice(ips)
        if r < 0.95:
            return b"remote_user=" + rng.choice([b"bob", b'"b\\"ob"', b'"bob\\"', b'""', b""])
        return rng.choice([b"", b"=", b"x", b"=x", b"x=", b'"="', b'x="a;b,c"', b";", b"for"])

    for _ in range(n * 2):
        groups = []
        for _ in range(rng.choice([1, 1, 2, 3, 3, 5])):
            groups.append(rng.choice([b";", b"; ", b" ;"]).join(fparam() for _ in range(rng.choice([1, 1, 2, 3, 5]))))
        h = rng.choice([b",", b", ", b" , "]).join(groups)
        for _ in range(rng.choice([0, 0, 0, 1, 2])):
            h = mutate(rng, h, falpha)
        L.append("fwd %d %s %s" % (rng.choice([31, 31, 0, 1, 4, 16]), rng.choice(trusted), C.hx(h.replace(b"\0", b""))))
    for k in (1, 2, 30, 62, 63, 64, 65, 66, 100, 250, 251, 252, 253, 254, 255, 256, 257, 300):
        L.append("fwd 31 10.0.0.1 " + C.hx(b";".join(b"a=%d" % i for i in range(k))))
        L.append("fwd 31 10.0.0.1 " + C.hx(b"," * k))
        L.append("fwd 31 10.0.0.1 " + C.hx(b",".join(b"for=10.0.0.1" for _ in range(k))))
        L.append("fwd 31 10.0.0.1 " + C.hx(b";".join(b"for=1.2.3.%d" % (i % 250) for i in range(k)) + b"," * (k % 7)))
        L.append("fwd 31 10.0.0.1 " + C.hx(b"x=1," * k + b"for=1.1.1.1"))
    xalpha = list(b"0123456789abcdef:., \t[]x\x80")
    for _ in range(n):
        h = rng.choice([b", ", b",", b" "]).join(rng.choice([b"1.2.3.4", b"10.0.0.2", b"10.0.0.1", b"2001:db8::1", b"::", b"abc", b"1.2.3", b"f" * 70, b"unknown"])
                                                  for _ in range(rng.randint(0, 5)))
        for _ in range(rng.choice([0, 0, 1, 2])):
            h = mutate(rng, h, xalpha)
        L.append("xff %s %s" % (rng.choice(trusted), C.hx(h.replace(b"\0", b""))))
    # Digest Authorization parameters
    now = 1700000000
    nonces = [b"%x:abc" % now, b"%x:abc" % (now - 599), b"%x:abc" % (now - 601), b"%x:abc" % (now + 1), b"%x:" % (now - 550), b"0:a", b":",
              b"", b"ffffffffffffffff:x", b"8000000000000000:x", b"7fffffffffffffff:x", b"8000000000000001:x", b"fffffffffffffffff:x",
              b"00000000%x:x" % now, b"%x" % now, b"%x:12345678:abcdef" % now, b"%x:1234567:abcdef" % now, b"%x:123456789:abc" % now,
              b"%x:zz" % now, b"g", b"FFFFFFFFFFFFFFFF:x", b"ffffffff80000000:x"]
    resp = [b"0" * 32, b"0" * 64, b"0" * 31, b"0" * 33, b"0" * 63, b"0" * 65, b"", b"g" * 32, b"0" * 128, b"0" * 30 + b"\x80\x80", b"0" * 66]
    users = [b'username="u"', b"username=u", b"username*=UTF-8''u", b"username*=utf-8'en'%e2%82%ac", b"username*=iso-8859-1''%ff",
             b"username*=UTF-8'", b"username*=UTF-8", b"username*=utf-8''" + b"%41" * 300, b"username*=utf-8''%0a", b"username*=u", b"username*=i",
             b"username*=utf-8''%", b"username*=utf-8''%4", b"username*=''", b'username="u", username*=utf-8\'\'u', b"username*=utf-8''\xff",
             b"username*=iso-8859-1'", b"username*=iso-8859-1''" + b"a" * 255, b"username*=iso-8859-1''" + b"a" * 256, b"username*=iso-8859-1''" + b"a" * 257]
    dalph = list(b'=", \t\\*%\'abcdef0123456789:\x80')

    def digest():
        parts = [rng.choice(users), b'realm="realm"' if rng.random() < 0.9 else rng.choice([b'realm="x"', b"realm=", b'realm="']),
                 b'nonce="' + rng.choice(nonces) + b'"', b'uri="/x"' if rng.random() < 0.9 else rng.choice([b'uri="/y"', b"uri=", b'uri="/x']),
                 b'response="' + rng.choice(resp) + b'"']
        if rng.random() < 0.5:
            parts += [b"qop=" + rng.choice([b"auth", b"auth-int", b'"auth"', b""]), b"nc=00000001", b'cnonce="0a4f113b"']
        if rng.random() < 0.5:
            parts.append(b"algorithm=" + rng.choice([b"MD5", b"SHA-256", b"MD5-sess", b"SHA-256-sess", b"SHA-512-256", b"md5", b"", b'"MD5"', b"MD5-", b"X" * 40]))
        if rng.random() < 0.3:
            parts.append(b"userhash=" + rng.choice([b"true", b"false", b"", b"xxxx"]))
        rng.shuffle(parts)
        sep = rng.choice([b", ", b",", b" , ", b" "])
        return sep.join(parts)

    for _ in range(n * 2):
        h = digest()
        for _ in range(rng.choice([0, 0, 0, 1, 2, 3])):
            h = mutate(rng, h, dalph)
        L.append("dig %d %s %s" % (now, rng.choice(["~", "~", "736563726574"]), C.hx(h.replace(b"\0", b""))))
    for nn in nonces:
        for sec in ("~", "736563726574"):
            L.append("dig %d %s %s" % (now, sec, C.hx(b'username="u", realm="realm", nonce="' + nn + b'", uri="/x", response="' + b"0" * 32 + b'"')))
    return L


# ------------------------------------------------------------------------------------------------
# independent property oracle (statements of C12 on implementation output)
# ------------------------------------------------------------------------------------------------
def kv(out):
    return dict(x.split("=", 1) for x in out.split(" ") if "=" in x)


def oracle(line, out):
    t = line.split(" ")
    op = t[0]
    if out == "abort" or out.endswith(" abort"):
        # an assertion abort is acceptable only where the *caller-supplied size itself* is not
        # representable (direct API probes); never for byte input
        if op == "buf":
            ops = t[1:]
            nums = [int(x[1:]) for x in ops if len(x) > 1]
            if nums and (max(nums) >= 2 ** 31 - 65536 or sum(nums) >= 2 ** 31 - 65536):
                return None
            return "assertion abort in buffer growth for sizes below 2^31-65536"
        if op == "ckr":
            n, x, e = int(t[1]), int(t[2]), int(t[3])
            if x <= U32MAX and n <= U32MAX - x and (n + x) * e <= SIZEMAX:
                return "ck_realloc_u32 aborted although (n+x)*elt_sz is representable"
            return None
        if op == "tmpb":
            return ("assertion abort (force_assert on the size of the shared scratch buffer / buffer.c) in a history of "
                    "h2 connection set-up, HEADERS frames and FastCGI records")
        return "assertion abort on untrusted input (%s)" % op
    if op == "tmpb":
        # independent statement: while an HTTP/2 connection exists the shared scratch buffer keeps the size h2.c
        # asserts before HPACK coding; no module ever shrinks it; it stays bounded
        m = re.match(r"^tb=([0-9,]+) used=(\d+)$", out)
        if not m:
            return None if out == "bad-op" else "tmpb: malformed harness output"
        sizes = [int(x) for x in m.group(1).split(",")]
        if len(sizes) != len(t) - 1:
            return "tmpb: %d sizes for %d steps" % (len(sizes), len(t) - 1)
        o, prev = False, 0
        for st, sz in zip(t[1:], sizes):
            if st == "I":
                o = True
            elif st == "X":
                o = False
            if o and sz < H2_SCRATCH_MIN:
                return ("shared scratch buffer (srv->tmp_buf) smaller than %d octets after a step of kind %s while an HTTP/2 "
                        "connection is open: h2 asserts that size before HPACK coding (next HEADERS aborts the server)"
                        % (H2_SCRATCH_MIN, st[0]))
            if sz < prev:
                return "shared scratch buffer shrunk at a step of kind %s" % st[0]
            if sz > 1 << 20:
                return "shared scratch buffer grew beyond 1 MiB"
            prev = sz
        if int(m.group(2)) > sizes[-1]:
            return "scratch buffer used > size"
        return None
    if op == "s64":
        v = C.unhx(t[1])
        rv, used = [int(x) for x in out.split(" ")]
        if not (0 <= rv <= I64MAX):
            return "li_restricted_strtoint64 result outside [0, INT64_MAX]"
        if not (0 <= used <= len(v)):
            return "li_restricted_strtoint64 consumed count outside the input"
        alld = v.isdigit() or v == b""
        val = int(v) if v and alld else 0
        if used == len(v):
            if not alld:
                return "li_restricted_strtoint64 accepted a non-digit"
            if rv != val:
                return "li_restricted_strtoint64 accepted value differs from the decimal value"
        elif alld and val <= I64MAX:
            return "li_restricted_strtoint64 rejected a representable decimal"
        return None
    if op in ("ck1", "ck2"):
        data = C.unhx(t[-1])
        if b"\n" not in data:
            return None
        hd = data[:data.index(b"\n") + 1]
        v, nd, ovf = ck_ref(hd)
        if out.startswith("ok"):
            o = kv(out)
            te = int(o["te"])
            if not (0 <= te <= I64MAX):
                return "chunk remaining-length counter negative / out of range"
            if ovf or nd == 0:
                return "chunk-size line with overflowing / missing size accepted"
            if v > 2 ** 63 - 1 - 2:
                return "chunk size that does not fit off_t accepted"
            moved = int(o["in"] if op == "ck1" else o["out"])
            if v and te + moved != v + 2 and te != 0:
                return "chunk counter inconsistent with the parsed size (size+2 != remaining+consumed)"
        return None
    if op in ("gwd", "gws"):
        o = kv(out)
        mf = int(t[1])
        if int(o["maxp"]) > 1024:
            return "gateway chunk decoder buffered more than 1024 bytes of an unterminated chunk-size line"
        if int(o["maxh"]) > max(1024, mf) + 4:
            return "gateway chunk decoder header/trailer buffer grew beyond its limit (max(1024, max-request-field-size)+4)"
        if not (0 <= int(o["te"]) <= I64MAX):
            return "chunk remaining-length counter negative / out of range"
        return None
    if op in ("h1d", "h1s"):
        o = kv(out)
        if "te" in o and not (0 <= int(o["te"]) <= I64MAX):
            return "chunk remaining-length counter negative / out of range"
        if int(o["maxrest"]) > max(1024, int(t[2])):
            return "h1_chunked left more than max(1024, max-request-field-size) unconsumed bytes in the read queue"
        return None
    if op == "hoff":
        hlen, cnt, maxidx, _, tail = out.split(" ")
        blk = C.unhx(t[2])
        if tail != "clean":
            return "http_header_parse_hoff wrote beyond the last line index"
        if int(maxidx) > 8191 or int(cnt) > 8191:
            return "http_header_parse_hoff line index beyond hoff[8192]"
        if int(hlen) > len(blk):
            return "http_header_parse_hoff header length beyond the input"
        return None
    if op == "rng":
        ln = int(t[1])
        f = out.split(" ")
        n = int(f[0])
        if n > 128 or n != len(f) - 1:
            return "http_range_parse returned more than RMAX ranges"
        for p in f[1:]:
            m = re.match(r"^(-?\d+)-(-?\d+)$", p)
            a, b = int(m.group(1)), int(m.group(2))
            if not (0 <= a <= b < ln):
                return "http_range_parse produced a range outside 0 <= first <= last < length"
        return None
    if op == "buf":
        for tok, st in zip(t[1:], out.split(" ")):
            if st == "abort":
                break
            used, size = [int(x) for x in st.split("/")]
            nums = int(tok[1:]) if len(tok) > 1 else 0
            if nums >= 2 ** 31 - 65536 or size > 2 ** 31:
                break       # beyond the supported domain: recorded size may be truncated
            if used > size and not (used <= 1 and size == 0):
                return "buffer used > size after growth"
            if tok[0] in "py" and size < nums + 1 + (used - 1 if used and tok[0] == "p" else 0) and size != 0:
                return "buffer_string_prepare_* returned less space than requested"
        return None
    if op == "ckr":
        n, x, e = int(t[1]), int(t[2]), int(t[3])
        if out.startswith("ok") and not (x <= U32MAX and n <= U32MAX - x):
            return "ck_realloc_u32 accepted a count beyond UINT32_MAX"
        return None
    if op == "h2c":
        o = kv(out)
        ret = int(o["ret"])
        if ret >= 65536 + 9 + 16777215:
            return "CONTINUATION accumulation beyond the 64 KiB cap"
        if o["goaway"] == "-" and ret and int(o["flen"]) + 9 > int(o["clen"]) and ret <= int(o["clen"]):
            return "merged HEADERS frame length exceeds the data present"
        return None
    if op == "h2d":
        o = kv(out)
        frame = C.unhx(t[1])
        ln = len(frame) - 9
        if int(o["in"]) > ln:
            return "DATA frame delivered more bytes than its length"
        if int(o["in"]) < 0 or int(o["rest"]) < 0:
            return "negative queue length after DATA frame"
        return None
    if op == "h2f":
        o = kv(out)
        if int(o["rused"]) > 8:
            return "more than 8 concurrent streams"
        if not (16384 <= int(o["fsize"]) <= 16777215):
            return "negotiated max frame size outside [2^14, 2^24-1]"
        if "rq" in o:
            raw = "".join(t[2:])
            fs = [int(raw[i + 4:i + 12], 16) for i in range(0, max(0, len(raw) - 11), 2) if raw[i:i + 4] == "0005"]
            fmax = max([16384] + [v for v in fs if v <= 16777215])
            if int(o["rq"]) > max(65536 + 9, 9 + fmax):
                return "h2 read queue kept more than one frame / 64 KiB of HEADERS+CONTINUATION while waiting for data"
        w = int(o["wq"].split(":")[0])
        total_in = sum(len(C.unhx(x)) for x in t[2:])
        if w > 65536 + 17 * 64 + 13 * (total_in // 9 + 2) * 2:
            return "write queue grew without bound while parsing frames"
        return None
    if op == "date":
        if out != "null":
            a = out.split(" ")
            if len(a) != 2 or a[1] not in ("0", "1"):
                return "malformed date result"
        return None
    if op == "dfmt":
        if out != "-" and len(C.unhx(out)) > 29:
            return "http_date_time_to_str wrote more than HTTP_DATE_SZ-1 bytes"
        return None
    if op == "etag":
        return None if out in ("0", "1") else "malformed etag result"
    if op == "fwd":
        o = kv(out)
        if o["st"] not in ("0", "400"):
            return "Forwarded handling produced an unexpected status"
        if len(C.unhx(o["addr"])) > 64:
            return "remote address replaced by an over-long string"
        return None
    if op == "xff":
        return None
    if op == "dig":
        m = re.match(r"^p=([0-9a-f]+) ", out)
        if m and int(m.group(1), 16) & 0x80000000:
            return "digest parameter pointer/length outside the header value"
        o = kv(out)
        for k in ("v", "n"):
            if k in o and o[k].split(":")[1] not in ("0", "400", "401"):
                return "digest validation produced an unexpected status"
        return None
    if op == "prio":
        return None if 0 <= int(out) <= 255 else "priority byte out of range"
    return None


def proj_h2h(line, out):
    """the part of the h2_recv_headers() outcome the model predicts: connection error raised by the
    length / id / dependency checks before any HPACK decoding, or not"""
    if out in ("abort", "bad-op"):
        return out
    o = kv(out)
    early = o.get("rc") == "0" and o.get("goaway") == "1" and o.get("rused") == "0" and o.get("disc") == "0"
    return "early" if early else "pass"


def classify(line, out):
    t = line.split(" ")
    op = t[0]
    if out == "<crash>":
        return op + ":crash"
    if op == "s64":
        v = C.unhx(t[1])
        rv, used = out.split(" ")
        return "s64:len%d:%s" % (min(len(v), 22), "all" if int(used) == len(v) else "stop")
    if op in ("ck1", "ck2"):
        data = C.unhx(t[-1])
        v, nd, ovf = ck_ref(data)
        return "%s:bits%d:%s:%s" % (op, v.bit_length() // 4 * 4, "ovf" if ovf else "n", out.split(" ")[0] + (out.split(" ")[1] if out.startswith("err ") else ""))
    if op in ("gwd", "gws"):
        o = kv(out)
        return "%s:mf%d:%s:done%s:h%d:n%d" % (op, min(int(t[1]).bit_length(), 14), o.get("rc"), o.get("done"),
                                              int(o.get("maxh", "0")).bit_length(), min(int(o.get("n", "0")).bit_length(), 13))
    if op in ("h1d", "h1s"):
        return op + ":mf%d:%s:r%d" % (int(t[2]).bit_length(), out.split(" ")[0] + (out.split(" ")[1] if out.startswith("err") else ""),
                                    int(kv(out).get("maxrest", "0")).bit_length())
    if op == "hoff":
        hlen, cnt, maxidx, _, _ = out.split(" ")
        return "hoff:%s:cnt%d:len%d" % ("term" if hlen != "0" else "open", min(int(cnt), 8191) // 1024, min(int(hlen).bit_length(), 18))
    if op == "rng":
        return "rng:lenbits%d:n%s" % (int(t[1]).bit_length() // 8, out.split(" ")[0] if int(out.split(" ")[0]) < 12 else "many")
    if op == "buf":
        return "buf:%s:%s" % ("".join(x[0] for x in t[1:])[:6], "abort" if out.endswith("abort") else "ok%d" % (int(out.split(" ")[-1].split("/")[1]).bit_length() // 4))
    if op == "ckr":
        return "ckr:" + out.split(" ")[0]
    if op == "tmpb":
        return "tmpb:%s:%s" % ("".join(x[0] + ("+" if x[0] in "EO" and int(x[1:].split(":")[0]) > 4095 else "") for x in t[1:])[:7],
                               "abort" if out == "abort" else "ok%d" % (int(out.split(" ")[0][3:].split(",")[-1]).bit_length() if out.startswith("tb=") else 0))
    if op == "h2c":
        o = kv(out)
        return "h2c:%s:%s" % (o.get("goaway"), "0" if o.get("ret") == "0" else "n")
    if op == "h2h":
        o = kv(out)
        f = C.unhx(t[3])
        return "h2h:f%02x:%s:%s" % (f[4] & 0x2d, o.get("rc"), o.get("goaway"))
    if op == "h2d":
        o = kv(out)
        f = C.unhx(t[1])
        return "h2d:f%02x:%s:%s" % (f[4] & 0x09, o.get("rc"), o.get("goaway"))
    if op == "h2f":
        o = kv(out)
        sts = sorted(set(x.split(":")[2] for x in o["s"].split(",") if ":" in x))
        return "h2f:%s:r%s:%s" % (o.get("goaway"), o.get("rused"), "/".join(sts)[:20])
    if op == "date":
        return "date:len%d:%s" % (min(len(C.unhx(t[2])), 31), "null" if out == "null" else "ok")
    if op == "fwd":
        o = kv(out)
        return "fwd:%s:%s:%s" % (t[1], o.get("st"), "chg" if o.get("addr") != "31302e302e302e31" else "same")
    if op == "dig":
        o = kv(out)
        return "dig:%s:%s:%s" % (o.get("p"), o.get("v"), o.get("n"))
    return op + ":" + out[:12]


# ------------------------------------------------------------------------------------------------
HARNESSES = {"h_arith": {}, "h_arith_h2": {}, "h_arith_px": {"libs": ("-lpcre2-8", "-lz", "-lm", "-ldl", "-lcrypt")},
             "h_arith_fcgi": {"libs": ("-lpcre2-8", "-lz", "-lm", "-ldl", "-lcrypt")}}


def build_all(ctx):
    exes = {}
    for h, kw in HARNESSES.items():
        exe, err = C.build_harness(h, **kw)
        if exe is None:
            ctx.broken.append({"kind": "harness-build", "names": [h], "log": (err or "")[-3000:]})
            return None
        exes[h] = exe
    return exes


def harness_of(line):
    op = line.split(" ", 1)[0]
    if op in ("s64", "ck1", "ck2", "hoff", "rng", "buf", "ckr", "gwd", "gws", "h1d", "h1s"):
        return "h_arith"
    if op in ("h2f", "h2c", "h2h", "h2d", "prio"):
        return "h_arith_h2"
    if op == "tmpb":
        return "h_arith_fcgi"
    return "h_arith_px"


MODELLED = ("s64", "ck1", "ck2", "hoff", "buf", "ckr", "h2c", "h2d", "gwd", "gws", "h1d", "h1s", "rng", "tmpb")


def hpack_encoder_histories(ctx):
    """explore: the real ls-hpack ENCODER (and decoder) under the sanitizers on header-list histories in which the peer
    changes SETTINGS_HEADER_TABLE_SIZE (an untrusted number that re-allocates the encoder's history buffer).  The
    histories are C07's (its generator and harness); here only 'no sanitizer report, no abort' is judged."""
    from . import c07
    from ..runner import Ctx
    t0 = time.time()
    exe, err = C.build_harness("h_hpack", libs=c07.HARNESS_LIBS, extra=c07.HARNESS_EXTRA)
    if exe is None:
        ctx.broken.append({"kind": "harness-build", "names": ["h_hpack"], "log": (err or "")[-3000:]})
        return
    sub = Ctx("C07", ctx.tier)           # same seed; nothing of it is reported or written
    name = "explore:hpack-encoder-histories(lshpack_enc with table-size changes, lshpack_dec)"
    try:
        lines = c07.gen_histories(sub, exe)
    except c07.ProducerCrash as ex:
        ctx.violation("crash:%s:%s" % (name, ex.line[:60]),
                      "the real HPACK encoder crashed / sanitizer report while encoding a header-list history with "
                      "SETTINGS_HEADER_TABLE_SIZE changes",
                      {"property": ctx.pid, "kind": "sanitizer-or-crash", "correspondence": name, "input": ex.line,
                       "rc": ex.rc, "stderr": ex.err, "confirmed_alone_or_with_prefix": ex.confirmed}, found=True)
        ctx.streams.append({"name": name, "cases": 0, "disagreements": 0, "oracle_hits": 1, "wall_s": round(time.time() - t0, 2)})
        return
    except RuntimeError as ex:
        ctx.notes.append("hpack encoder histories skipped (reference encoder did not run): %s" % str(ex)[-200:])
        return
    out, crashes = run_resilient([exe], lines)
    for i, rc, e in crashes[:3]:
        ctx.violation("crash:%s:%s" % (name, lines[i][:60]), "crash / sanitizer report decoding an HPACK history",
                      {"property": ctx.pid, "kind": "sanitizer-or-crash", "correspondence": name, "input": lines[i], "rc": rc,
                       "stderr": (e or "")[-4000:]}, found=True)
    ctx.evaluations += len(lines)
    ctx.keys["hpack-hist:%s" % ("crash" if crashes else "ok")] += len(lines)
    ctx.dist["hpack-hist"] += len(lines)
    ctx.streams.append({"name": name, "cases": len(lines), "disagreements": 0, "oracle_hits": len(crashes),
                        "wall_s": round(time.time() - t0, 2)})


def run(ctx):
    exes = build_all(ctx)
    if exes is None:
        return
    a, h2, px = exes["h_arith"], exes["h_arith_h2"], exes["h_arith_px"]
    stream(ctx, "scratch-buffer-histories(h2_init_con,h2_parse_frames,fcgi_recv_parse_loop)", [exes["h_arith_fcgi"]], "arith",
           gen_tmpb(ctx), oracle, classify)
    stream(ctx, "strtoint64(li_restricted_strtoint64)", [a], "arith", gen_s64(ctx), oracle, classify)
    stream(ctx, "chunk-size(h1_chunked,http_chunk_decode)", [a], "arith", gen_ck(ctx), oracle, classify)
    stream(ctx, "gw-dechunk-multiread(http_chunk_decode_append_data)", [a], "arith", gen_gw(ctx), oracle, classify)
    stream(ctx, "h1-chunked-multiread(h1_chunked)", [a], "arith", gen_h1d(ctx), oracle, classify)
    stream(ctx, "hoff(http_header_parse_hoff)", [a], "arith", gen_hoff(ctx), oracle, classify)
    stream(ctx, "range(http_range_parse)", [a], "arith", gen_rng(ctx), oracle, classify)
    stream(ctx, "buffer-growth(buffer.c)", [a], "arith", gen_buf(ctx), oracle, classify)
    stream(ctx, "ck_realloc_u32", [a], "arith", gen_ckr(ctx), oracle, classify)
    stream(ctx, "h2-continuation(h2_recv_continuation)", [h2], "arith", gen_h2c(ctx), oracle, classify)
    hh = gen_h2h(ctx)
    stream(ctx, "h2-headers(h2_recv_headers)", [h2], "arith", [l for l in hh if l.split(" ")[1:3] == ["0", "0"]], oracle, classify,
           project=proj_h2h)
    stream(ctx, "explore:h2-headers(trailers,after-goaway)", [h2], None, [l for l in hh if l.split(" ")[1:3] != ["0", "0"]],
           oracle, classify)
    stream(ctx, "h2-data(h2_recv_data)", [h2], "arith", gen_h2d(ctx), oracle, classify)
    stream(ctx, "explore:h2-frames(h2_parse_frames)", [h2], None, gen_h2f(ctx), oracle, classify)
    stream(ctx, "explore:parsers(date,etag,forwarded,digest)", [px], None, gen_px(ctx), oracle, classify)
    hpack_encoder_histories(ctx)
    ctx.rule = ("boundary-heavy generated cases per routine (values around 2^31, 2^32, 2^59, 2^63, the 8192-line and "
                "65535-byte header limits, RMAX, the 64 KiB CONTINUATION cap), single-byte corruptions, plus "
                "model-free malformed streams for h2 frames and the pure parsers; distinct = (operation, input "
                "magnitude class, outcome class) tuples")
    ctx.assumptions += [
        "exploration streams (h2_parse_frames, h2_recv_headers after GOAWAY / trailers, HTTP-date, ETag, Forwarded, "
        "Digest parameters) have no Lean model: the claim there is 'no sanitizer report, no abort, well-formed result "
        "on the generated inputs'",
        "buffer growth: the theorems need size <= 2^31-32 and length <= 2^32-65; c12_buffer_closure shows these are "
        "never left while every string stays <= 2^28 bytes; that the request/response/frame paths keep their buffers "
        "below 2^28 is the callers' caps (64 KiB fields, 16 KiB frames, 256 KiB reads), not derived",
        "hoff[0] is initialised to a value <= 8190 by every caller (all four callers use 1)",
        "the chunked decoders' read queue / header buffer is viewed contiguously (h1_cq_compact joins chunks before "
        "every multi-chunk decision); gateway dribble inputs are NUL-free (strchr/strstr on gw_dechunk->b)",
        "ck_realloc_u32: only WHEN the assertion fires is proved; that no untrusted count reaches it is not"]
    ctx.notes.append("level_note: PARTIAL — proof for size/index arithmetic and accumulator bounds of the listed routines "
                     "(single calls and histories of reads); sanitizer exploration for the rest; UB in code paths not "
                     "executed by these streams is not shown absent")


def replay_line(ctx, rep):
    line = rep["input"]
    h = harness_of(line)
    exe, err = C.build_harness(h, **HARNESSES[h])
    o, rc, e = C.run_lines([exe], [line])
    print("input:", line[:2000])
    print("impl :", o, rc)
    if rc != 0 or not o:
        print(e[-3000:])
        print("VIOLATION property=%s replay=(replayed) %s" % (ctx.pid, crash_site(e)))
        return 1
    bad = oracle(line, o[0])
    print("oracle:", bad)
    m = None
    if line.split(" ", 1)[0] in MODELLED:
        m, _, _ = C.run_model("arith", [line])
        print("model:", m)
    if bad or (m is not None and o != m):
        print("VIOLATION property=%s replay=(replayed)" % ctx.pid)
        return 1
    return 0
